#!/bin/bash
# usage: tools/quick_all.sh <seed>...   runs the quick tier of every claimed check once per seed; prints only non-OK lines and a summary
cd "$(dirname "$0")/.."
props=$(python3 -c "import json; print(' '.join(c['property_id'] for c in json.load(open('MANIFEST.json'))['checks']))")
bad=0; n=0
for seed in "$@"; do
  for p in $props; do
    out=$(env VERIF_SEED=$seed ${EXTRA_ENV:-} ./check $p quick 2>&1); rc=$?; n=$((n+1))
    if [ $rc -ne 0 ]; then bad=$((bad+1)); echo "seed=$seed $p rc=$rc :: $(echo "$out" | grep -E "VIOLATION|signature:|INFRA" | head -4 | tr '\n' ' ' | cut -c1-300)"; cp -f replays/$p-quick-$seed-0-0.json .work/ 2>/dev/null; fi
  done
done
echo "quick_all: $n runs, $bad not ok"
