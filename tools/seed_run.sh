#!/bin/bash
# usage: tools/seed_run.sh <seed-id> [<Cxx>...]  -- apply /verif/seeded/<id>/patch.diff to /repo, run the quick checks, revert, record in meta.json
set -u
id="$1"; shift
cd /verif
d=seeded/$id
props="${@:-$(python3 -c "import json;print(json.load(open('$d/meta.json'))['breaks_property'])")}"
if ! git -C /repo diff --quiet; then echo "repo dirty, abort"; exit 2; fi
git -C /repo apply "$(readlink -f $d/patch.diff)" || { echo "patch does not apply: $id"; exit 2; }
trap 'git -C /repo checkout -- . ' EXIT
for p in $props; do
  start=$(date +%s)
  out=$(./check "$p" "${TIER:-quick}" 2>&1); rc=$?
  end=$(date +%s)
  sig=$(echo "$out" | grep "signature:" | sed 's/^ *signature: *//' | cut -c1-160 | head -3 | tr '\n' ';')
  echo "$id $p rc=$rc $((end-start))s $sig"
  python3 - "$d/meta.json" "$p" "$rc" "$((end-start))" "$sig" "${TIER:-quick}" <<'PY'
import json,sys
f,p,rc,secs,sig,tier=sys.argv[1:7]
m=json.load(open(f))
m.setdefault("checks_run",{})["./check %s %s"%(p,tier)]={"exit":int(rc),"seconds":int(secs),"detected":rc=="1","signatures":sig}
json.dump(m,open(f,"w"),indent=1)
PY
done
