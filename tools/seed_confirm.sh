#!/bin/bash
# usage: tools/seed_confirm.sh <outdir> <dest-relative-to-repo for demo_test.go> <go test -run regex> <pkg>
# confirms in a fresh scratch worktree: demo passes at HEAD, patch applies+builds, demo fails with patch, pinned suite passes with patch
set -u
out="$1"; dest="$2"; run="$3"; pkg="$4"
export GOFLAGS=-mod=mod GOPROXY=off GOSUMDB=off GOTOOLCHAIN=local
wt=$(mktemp -d /tmp/sc-XXXXXX); rmdir $wt
git -C /repo worktree add -q --detach $wt HEAD || exit 2
trap 'git -C /repo worktree remove --force '$wt' 2>/dev/null; rm -rf '$wt EXIT
mkdir -p "$(dirname "$wt/$dest")"; cp "$out/demo_test.go" "$wt/$dest"
cd $wt
a=$(go test -vet=off -count=1 -timeout ${DEMO_TIMEOUT:-300s} ${DEMO_FLAGS:-} -run "$run" $pkg 2>&1); rca=$?
echo "HEAD demo rc=$rca"; [ $rca -ne 0 ] && echo "$a" | tail -15
git apply "$out/patch.diff" || { echo "PATCH DOES NOT APPLY"; exit 2; }
go build ./... || { echo "DOES NOT BUILD"; exit 2; }
b=$(go test -vet=off -count=1 -timeout ${DEMO_TIMEOUT:-300s} ${DEMO_FLAGS:-} -run "$run" $pkg 2>&1); rcb=$?
echo "PATCHED demo rc=$rcb"; echo "$b" | grep -E "^\s+\S+\.go:[0-9]+:|FAIL|panic" | head -8
rm -f "$wt/$dest"
s=$(/verif/baseline.py $wt 2>&1); rcs=$?
if [ $rcs -ne 0 ]; then echo "suite run 1: $(echo "$s" | head -3 | tr '\n' ' ') -- repeating once (timing sensitive tests fail under load)"; s=$(/verif/baseline.py $wt 2>&1); rcs=$?; fi
echo "SUITE with patch rc=$rcs: $(echo "$s" | head -4 | tr '\n' ' ')"
[ $rca -eq 0 ] && [ $rcb -ne 0 ] && [ $rcs -eq 0 ] && echo CONFIRMED || echo NOT-CONFIRMED
