#!/bin/bash
# usage: tools/mut.sh <patch.diff> <Cxx> [<Cxx>...]   -- apply a mutant to /repo, run quick checks, revert
set -u
patch="$(readlink -f "$1")"; shift
cd /verif
if ! git -C /repo diff --quiet; then echo "repo dirty, abort"; exit 2; fi
if ! git -C /repo apply "$patch"; then echo "patch does not apply: $patch"; exit 2; fi
trap 'git -C /repo checkout -- . ' EXIT
( cd /repo && GOFLAGS=-mod=mod GOPROXY=off GOSUMDB=off GOTOOLCHAIN=local go build ./... ) || { echo "MUTANT DOES NOT COMPILE"; exit 2; }
for p in "$@"; do
  start=$(date +%s)
  out=$(./check "$p" "${TIER:-quick}" 2>&1); rc=$?
  end=$(date +%s)
  sig=$(echo "$out" | grep -m3 "signature:" | tr '\n' ' ')
  echo "$(basename $patch) $p rc=$rc $((end-start))s $sig"
done
