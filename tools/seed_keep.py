#!/usr/bin/env python3
"""usage: seed_keep.py <Cxx> <a|b> <demo dest relative to repo> <pkg> "<needs>"  -- copies a confirmed seeded change into /verif/seeded/<Cxx>-<v>/"""
import json, os, shutil, sys, subprocess
prop, v, dest, pkg, needs = sys.argv[1:6]
src = (os.environ.get("SEED_SRC_PREFIX") or "/tmp/seed/out-") + "%s/%s" % (prop, v)
dst = "/verif/seeded/%s-%s" % (prop, v)
os.makedirs(dst, exist_ok=True)
for f in ("patch.diff", "demo_test.go", "notes.md"):
    shutil.copy(os.path.join(src, f), os.path.join(dst, f))
head = subprocess.run(["git", "-C", "/repo", "rev-parse", "--short", "HEAD"], stdout=subprocess.PIPE, text=True).stdout.strip()
meta = {
    "id": "%s-%s" % (prop, v), "breaks_property": prop, "needs_to_manifest": needs,
    "origin": "independent sub-agent given only the property text and a scratch worktree",
    "repo_head_when_made": head,
    "demonstration": {"file": "demo_test.go", "place_at": dest, "run": "go test -vet=off -count=1 -run TestDemo %s" % pkg},
    "confirmed": "tools/seed_confirm.sh in a fresh scratch worktree: demo passes at HEAD, fails with patch.diff applied; go build ./... ok; pinned suite (baseline.py) 345/345 with the patch",
    "checks_run": {},
}
p = os.path.join(dst, "meta.json")
if os.path.exists(p):
    meta["checks_run"] = json.load(open(p)).get("checks_run", {})
json.dump(meta, open(p, "w"), indent=1)
print("kept", dst)
