#!/opt/veriftools/pyvenv/bin/python
"""validates MANIFEST.json and every evidence file against the schemas"""
import json, glob, sys, jsonschema
ok = True
m = json.load(open('/verif/MANIFEST.json'))
jsonschema.validate(m, json.load(open('/root/.vp/MANIFEST.schema.json')))
es = json.load(open('/root/.vp/EVIDENCE.schema.json'))
for c in m['checks']:
    p = c['evidence_file']
    try:
        jsonschema.validate(json.load(open(p)), es)
    except Exception as e:
        ok = False
        print('EVIDENCE', p, str(e)[:300])
print('manifest valid; claimed', [c['property_id'] for c in m['checks']], 'n/a', [x['property_id'] for x in m.get('not_applicable', [])])
sys.exit(0 if ok else 1)
