#!/usr/bin/env python3
"""prints the markdown table of seeded changes (from seeded/*/meta.json) and, with --write, replaces the block between the SEEDTABLE markers in DESIGN.md"""
import glob, json, os, sys
rows = []
for d in sorted(glob.glob('/verif/seeded/*/meta.json')):
    m = json.load(open(d))
    runs = m.get('checks_run', {})
    det = [k.split()[1] for k, v in runs.items() if v.get('detected')]
    miss = [k.split()[1] for k, v in runs.items() if not v.get('detected')]
    sigs = '; '.join(sorted({s for v in runs.values() if v.get('detected') for s in v.get('signatures', '').split(';') if s}))[:110]
    ident = m['id'] + (' (superseded, see meta.json)' if m.get('superseded') else '') + (' (ported)' if m.get('ported') else '')
    rows.append('| %s | %s | %s | %s | %s |' % (ident, m['needs_to_manifest'][:150].replace('|', '/'), ' '.join(sorted(set(det))) or '-', ' '.join(sorted(set(miss) - set(det))) or '-', sigs))
out = ['| seeded change | needs, in order to manifest | caught by (quick tier) | not caught by | signatures |', '|---|---|---|---|---|'] + rows
text = '\n'.join(out)
if '--write' in sys.argv:
    p = '/verif/DESIGN.md'
    s = open(p).read()
    a, b = s.index('<!-- SEEDTABLE -->'), s.index('<!-- /SEEDTABLE -->')
    s = s[:a] + '<!-- SEEDTABLE -->\n' + text + '\n' + s[b:]
    open(p, 'w').write(s)
else:
    print(text)
