#!/bin/bash
# usage: tools/seed_round2.sh <Cxx> <c|d> <pkgdir> "<needs>" [demo file name]   -- confirm, keep and run a round-2 seed from /tmp/seed/out2-<Cxx>/<v>
prop=$1; v=$2; pkg=$3; needs=$4; demo=${5:-demo_test.go}
pre=${SRC_PREFIX:-/tmp/seed/out2-}
src=$pre$prop/$v
[ -f $src/demo_test.go ] || cp $src/$demo $src/demo_test.go 2>/dev/null
res=$(tools/seed_confirm.sh $src $pkg/demo_test.go 'Test' ./$pkg 2>&1 | grep -E "CONFIRMED|DOES NOT|NOT PASSING")
echo "$prop-$v: $res"
case "$res" in
  CONFIRMED*) SEED_SRC_PREFIX=$pre tools/seed_keep.py $prop $v $pkg/demo_test.go ./$pkg "$needs" >/dev/null && python3 - <<PY
import json
p='/verif/seeded/$prop-$v/meta.json'; m=json.load(open(p)); m['origin']+=' (round ${ROUND:-2}: asked for interleaving/fault-point dependent or two-site/boundary changes)'; m['demonstration']['run']='go test -vet=off -count=1 -run Test ./$pkg'; json.dump(m,open(p,'w'),indent=1)
PY
  [ -n "${NORUN:-}" ] || tools/seed_run.sh $prop-$v ;;
esac
