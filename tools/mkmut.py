#!/usr/bin/env python3
"""Generates sensitivity mutants as unified diffs under /verif/mutants/.
Each mutant: (name, property ids it should break, file, old text, new text).
Diffs are produced against /repo HEAD contents (git show HEAD:file)."""
import difflib
import os
import subprocess
import sys

OUT = "/verif/mutants"
M = [
    # ---- C01
    ("c01_will_len", "C01", "packet/connect.go", "total += 2 + len(c.Will.Topic) + 2 + len(c.Will.Payload)", "total += 2 + len(c.Will.Topic) + len(c.Will.Payload)"),
    ("c01_retain_bit", "C01", "packet/publish.go", "\t\tflags |= 0x1 // 00000001", "\t\tflags |= 0x0 // 00000001"),
    ("c01_varint_boundary", "C01", "packet/coding.go", "\t} else if n < 16384 {", "\t} else if n <= 16384 {"),
    ("c01_userpass_swap", "C01", "packet/connect.go", "n, err = writeLPString(dst[total:], c.Username, CONNECT)", "n, err = writeLPString(dst[total:], c.Password, CONNECT)"),
    # ---- C02
    ("c02_lp_nocheck", "C02", "packet/coding.go", "\tif len(buf[n:]) < length {\n\t\treturn nil, n, insufficientBufferSize(t)\n\t}", "\tif false {\n\t\treturn nil, n, insufficientBufferSize(t)\n\t}"),
    ("c02_flags_nocheck", "C02", "packet/header.go", "if t != PUBLISH && flags != t.defaultFlags() {", "if false && t != PUBLISH && flags != t.defaultFlags() {"),
    ("c02_qos3", "C02", "packet/publish.go", "\tif !p.Message.QOS.Successful() {\n\t\treturn total, makeError(PUBLISH, \"invalid QOS level (%d)\", p.Message.QOS)", "\tif false {\n\t\treturn total, makeError(PUBLISH, \"invalid QOS level (%d)\", p.Message.QOS)"),
    ("c02_will_alias", "C02", "packet/connect.go", "c.Will.Payload, n, err = readLPBytes(src[total:], true, CONNECT)", "c.Will.Payload, n, err = readLPBytes(src[total:], false, CONNECT)"),
    ("c02_suback_code", "C02", "packet/suback.go", "\t\tif !returnCode.Successful() && returnCode != QOSFailure {\n\t\t\treturn total, makeError(SUBACK, \"invalid return code %d\", returnCode)", "\t\tif false {\n\t\t\treturn total, makeError(SUBACK, \"invalid return code %d\", returnCode)"),
    ("c02_unsub_noreset", "C02", "packet/unsubscribe.go", "\tu.Topics = u.Topics[:0]\n", "\t_ = u.Topics[:0]\n"),
    ("c02_suback_noreset", "C02", "packet/suback.go", "\ts.ReturnCodes = make([]QOS, 0, rcl)\n", "\tif s.ReturnCodes == nil {\n\t\ts.ReturnCodes = make([]QOS, 0, rcl)\n\t}\n"),
    # ---- C04
    ("c04_hash_parent", "C04 C05 C06 C11", "topic/tree.go", "if child, ok := node.children[t.wildcardSome]; ok && len(child.values) > 0 {", "if child, ok := node.children[t.wildcardSome]; ok && len(child.values) > 0 && topic != topicEnd {"),
    ("c04_search_plus_parent", "C04 C11", "topic/tree.go", "\t// continue with all children\n\tif segment == t.wildcardOne {\n", "\t// continue with all children\n\tif segment == t.wildcardOne {\n\t\tif len(node.values) > 0 {\n\t\t\tif !fn(node.values) {\n\t\t\t\treturn\n\t\t\t}\n\t\t}\n"),
    ("c04_noclean", "C04 C05", "topic/tree.go", "\treturn t.clean(list)\n}\n\n// MatchFirst", "\treturn list\n}\n\n// MatchFirst"),
    # ---- C05
    ("c05_noprune", "C05", "topic/tree.go", "\tif t.remove(value, topicShorten(topic, t.separator), child) {\n\t\tdelete(node.children, segment)\n\t}", "\tif t.remove(value, topicShorten(topic, t.separator), child) {\n\t}"),
    ("c05_add_dup", "C05", "topic/tree.go", "\t\t\tif v == value {\n\t\t\t\treturn\n\t\t\t}\n\t\t}\n\n\t\t// add value", "\t\t\tif v == value && false {\n\t\t\t\treturn\n\t\t\t}\n\t\t}\n\n\t\t// add value"),
    ("c05_get_alias", "C05", "topic/tree.go", "\treturn append([]interface{}{}, values...)\n", "\treturn values\n"),
    ("c05_match_nolock", "C05", "topic/tree.go", "func (t *Tree) Match(topic string) []interface{} {\n\tt.mutex.RLock()\n\tdefer t.mutex.RUnlock()\n", "func (t *Tree) Match(topic string) []interface{} {\n"),
    ("c05_clear_partial", "C05", "topic/tree.go", "\tfor segment, child := range node.children {\n\t\tif t.clear(value, child) {\n\t\t\tdelete(node.children, segment)\n\t\t}\n\t}", "\tfor segment, child := range node.children {\n\t\tif t.clear(value, child) {\n\t\t\tdelete(node.children, segment)\n\t\t\tbreak\n\t\t}\n\t}"),
    # ---- C06
    ("c06_qos_upgrade", "C06", "broker/backend.go", "\t\tif msg.QOS > sub.QOS {", "\t\tif msg.QOS != sub.QOS {"),
    ("c06_retain_kept", "C06 C11", "broker/backend.go", "\t// reset retained flag\n\tmsg.Retain = false\n", "\t// reset retained flag\n"),
    ("c06_unsub_first_only", "C06", "broker/backend.go", "\tfor _, t := range topics {\n\t\tsess.subscriptions.Empty(t)\n\t}", "\tfor _, t := range topics[:1] {\n\t\tsess.subscriptions.Empty(t)\n\t}"),
    ("c06_loopvar", "C06", "broker/backend.go", "\t\t// copy subscription as the loop variable is reused\n\t\tsub := sub\n", ""),
    # ---- C11
    ("c11_never_clear", "C11", "broker/backend.go", "\t\tif len(msg.Payload) > 0 {\n\t\t\t// retain message", "\t\tif len(msg.Payload) >= 0 {\n\t\t\t// retain message"),
    ("c11_replay_flag", "C11", "broker/backend.go", "\t\t\tm.retainedMessages.Set(msg.Topic, msg.Copy())", "\t\t\tcpy := msg.Copy()\n\t\t\tcpy.Retain = false\n\t\t\tm.retainedMessages.Set(msg.Topic, cpy)"),
    # ---- C18
    ("c18_wrap_zero", "C18", "session/id_counter.go", "\tif c.next == 0 {\n\t\tc.next++\n\t}", "\tif c.next == 0 && false {\n\t\tc.next++\n\t}"),
    ("c18_delete_dir", "C18", "session/memory_session.go", "\ts.storeForDirection(dir).Delete(id)", "\ts.storeForDirection(Outgoing).Delete(id)"),
    # ---- C07
    ("c07_puback_early", "C07", "broker/client.go", "\t\t// publish message and queue puback if ack is called\n\t\terr := c.backend.Publish(c, &publish.Message, ack)", "\t\t// publish message and queue puback if ack is called\n\t\tack()\n\t\terr := c.backend.Publish(c, &publish.Message, ack)"),
    ("c07_pubrec_before_save", "C07", "broker/client.go", "\t\t// store received publish packet in session\n\t\terr := c.session.SavePacket(session.Incoming, publish)\n\t\tif err != nil {\n\t\t\treturn c.die(SessionError, err)\n\t\t}\n\n\t\t// prepare pubrec packet\n\t\tpubrec := packet.NewPubrec()\n\t\tpubrec.ID = publish.ID\n\n\t\t// signal qos 2 pubrec\n\t\terr = c.send(pubrec, true)\n\t\tif err != nil {\n\t\t\treturn c.die(TransportError, err)\n\t\t}", "\t\t// prepare pubrec packet\n\t\tpubrec := packet.NewPubrec()\n\t\tpubrec.ID = publish.ID\n\n\t\t// signal qos 2 pubrec\n\t\terr := c.send(pubrec, true)\n\t\tif err != nil {\n\t\t\treturn c.die(TransportError, err)\n\t\t}\n\n\t\t// store received publish packet in session\n\t\terr = c.session.SavePacket(session.Incoming, publish)\n\t\tif err != nil {\n\t\t\treturn c.die(SessionError, err)\n\t\t}"),
    ("c07_no_pubcomp_unknown", "C07 C20", "broker/client.go", "\t\t// immediately send pubcomp for missing packets\n\t\terr = c.send(pubcomp, true)\n\t\tif err != nil {\n\t\t\treturn c.die(TransportError, err)\n\t\t}\n\n\t\treturn nil", "\t\treturn nil"),
    ("c07_delete_after_pubcomp", "C07", "broker/client.go", "\t\t\terr := c.session.DeletePacket(session.Incoming, id)\n\t\t\tif err != nil {\n\t\t\t\t_ = c.die(SessionError, err)\n\t\t\t\treturn\n\t\t\t}\n\n\t\t\t// queue pubcomp\n\t\t\tselect {\n\t\t\tcase c.ackQueue <- pubcomp:\n\t\t\tcase <-c.tomb.Dying():\n\t\t\t}", "\t\t\t// queue pubcomp\n\t\t\tselect {\n\t\t\tcase c.ackQueue <- pubcomp:\n\t\t\tcase <-c.tomb.Dying():\n\t\t\t}\n\t\t\tgo func() { time.Sleep(time.Millisecond); _ = c.session.DeletePacket(session.Incoming, id) }()"),
    # ---- C08
    ("c08_qos1_not_stored", "C08", "broker/client.go", "\t\t// store packet if at least qos 1\n\t\tif publish.Message.QOS > 0 {", "\t\t// store packet if at least qos 1\n\t\tif publish.Message.QOS > 1 {"),
    ("c08_no_dup", "C08", "broker/client.go", "\t\t\tpublish.Dup = true\n\t\t}\n\n\t\t// send packet\n\t\terr = c.send(pkt, true)", "\t\t\tpublish.Dup = false\n\t\t}\n\n\t\t// send packet\n\t\terr = c.send(pkt, true)"),
    ("c08_reuse_clears_stored", "C08", "broker/backend.go", "\ts.temporaryQueue = make(chan *packet.Message, cap(s.temporaryQueue))\n", "\ts.temporaryQueue = make(chan *packet.Message, cap(s.temporaryQueue))\n\ts.storedQueue = make(chan *packet.Message, cap(s.storedQueue))\n"),
    ("c08_session_present", "C08", "broker/client.go", "connack.SessionPresent = !pkt.CleanSession && resumed", "connack.SessionPresent = !pkt.CleanSession && (resumed || true)"),
    ("c08_pubrec_deletes", "C08", "broker/client.go", "\t// overwrite stored publish with the pubrel packet\n\terr := c.session.SavePacket(session.Outgoing, pubrel)", "\t// overwrite stored publish with the pubrel packet\n\terr := c.session.DeletePacket(session.Outgoing, pubrel.ID)"),
    ("c08_clean_keeps_stored", "C08", "broker/backend.go", "\t\t// delete any stored session\n\t\tdelete(m.storedSessions, id)\n\n\t\t// create new session", "\t\t// create new session"),
    # ---- C16
    ("c16_token_on_pubrec", "C16", "broker/client.go", "\t// overwrite stored publish with the pubrel packet\n", "\tselect {\n\tcase c.dequeueTokens <- struct{}{}:\n\tdefault:\n\t}\n\n\t// overwrite stored publish with the pubrel packet\n"),
    ("c16_resend_not_charged", "C16", "broker/client.go", "\t\tselect {\n\t\tcase <-c.dequeueTokens:\n\t\tdefault:\n\t\t\t// continue if depleted\n\t\t}\n", ""),
    ("c16_qos0_token_kept", "C16", "broker/client.go", "\t\tif publish.Message.QOS == 0 {\n\t\t\tselect {\n\t\t\tcase c.dequeueTokens <- struct{}{}:", "\t\tif publish.Message.QOS == 0 && false {\n\t\t\tselect {\n\t\t\tcase c.dequeueTokens <- struct{}{}:"),
    ("c16_pubcomp_no_token", "C16", "broker/client.go", "\tcase *packet.Pubcomp:\n\t\terr = c.processPubackAndPubcomp(typedPkt.ID)", "\tcase *packet.Pubcomp:\n\t\terr = c.session.DeletePacket(session.Outgoing, typedPkt.ID)"),
    # ---- C12
    ("c12_will_on_disconnect", "C12", "broker/client.go", "\t// clear will\n\tc.will = nil\n\n\t// mark client as cleanly disconnected\n\tatomic.StoreUint32(&c.state, clientDisconnected)\n", "\t// mark client as cleanly disconnected\n"),
    ("c12_cleanup_twice", "C12 C14", "broker/client.go", "\t\t_ = c.tomb.Wait()\n\t\tc.cleanup()\n", "\t\t_ = c.tomb.Wait()\n\t\tc.cleanup()\n\t\tc.cleanup()\n"),
    ("c12_will_retain_lost", "C12", "broker/client.go", "\t\tc.will = pkt.Will\n", "\t\tc.will = pkt.Will\n\t\tc.will.Retain = false\n"),
    ("c12_close_suppresses_will", "C12", "broker/client.go", "func (c *Client) Close() {\n", "func (c *Client) Close() {\n\tatomic.CompareAndSwapUint32(&c.state, clientConnected, clientDisconnected)\n"),
    ("c12_will_on_timeout_only", "C12", "broker/client.go", "\tif atomic.LoadUint32(&c.state) == clientConnected && c.will != nil {", "\tif atomic.LoadUint32(&c.state) == clientConnected && c.will != nil && c.tomb.Err() != ErrUnexpectedPacket {"),
    # ---- C13
    ("c13_setup_no_wait", "C13", "broker/backend.go", "\t\tcase <-activeClient.Closed():\n\t\t\t// continue\n", "\t\tcase <-activeClient.Closing():\n\t\t\t// continue\n"),
    ("c13_no_setup_mutex", "C13", "broker/backend.go", "\t// acquire setup mutex\n\tm.setupMutex.Lock()\n\tdefer m.setupMutex.Unlock()\n", ""),
    ("c13_clean_takeover_keeps_old", "C13", "broker/backend.go", "\t// kill existing client if session is taken\n\tif ok && existingSession.activeClient != nil {", "\t// kill existing client if session is taken\n\tif ok && existingSession.activeClient != nil && !clean {"),
    ("c13_reuse_drops_stored", "C13 C08", "broker/backend.go", "\t\t// reuse session\n\t\tstoredSession.reuse()\n", "\t\t// reuse session\n\t\tstoredSession.reuse()\n\t\tstoredSession.MemorySession.Reset()\n"),
    # ---- C14
    ("c14_terminate_assert", "C14 C12", "broker/backend.go", "\tsess, _ := client.Session().(*memorySession)\n\n\t// release session if available", "\tsess := client.Session().(*memorySession)\n\n\t// release session if available"),
    ("c14_terminate_only_clean", "C14", "broker/client.go", "\tif atomic.LoadUint32(&c.state) >= clientConnected {\n\t\terr := c.backend.Terminate(c)", "\tif atomic.LoadUint32(&c.state) > clientConnected {\n\t\terr := c.backend.Terminate(c)"),
    ("c14_closed_only_connected", "C14", "broker/client.go", "\t\t// close channel\n\t\tclose(c.closed)", "\t\t// close channel\n\t\tif atomic.LoadUint32(&c.state) >= clientConnected {\n\t\t\tclose(c.closed)\n\t\t}"),
    ("c14_dequeuer_no_token_timeout", "C14", "broker/client.go", "\t\t\tcase <-c.dequeueTokens:\n\t\t\t\t// continue\n\t\t\tcase <-time.After(c.TokenTimeout):\n\t\t\t\treturn c.die(ClientError, ErrTokenTimeout)\n", "\t\t\tcase <-c.dequeueTokens:\n\t\t\t\t// continue\n"),
    # ---- C15
    ("c15_store_map_order", "C15", "session/packet_store.go", "\t\treturn s.order[a] < s.order[b]\n", "\t\treturn false && s.order[a] < s.order[b]\n"),
    ("c15_two_dequeuers", "C15", "broker/client.go", "\tc.tomb.Go(c.dequeuer)\n", "\tc.tomb.Go(c.dequeuer)\n\tc.tomb.Go(c.dequeuer)\n"),
    ("c15_callback_async", "C15", "client/client.go", "\tif publish.Message.QOS <= 1 || c.earlyCallback {\n\t\tif c.Callback != nil {\n\t\t\terr := c.Callback(&publish.Message, nil)", "\tif publish.Message.QOS <= 1 || c.earlyCallback {\n\t\tif c.Callback != nil && publish.Message.QOS == 0 {\n\t\t\tgo c.Callback(&publish.Message, nil)\n\t\t} else if c.Callback != nil {\n\t\t\terr := c.Callback(&publish.Message, nil)"),
    ("c15_overwrite_keeps_slot", "C15", "session/packet_store.go", "\t\ts.counter++\n\t\ts.order[id] = s.counter\n", "\t\tif _, ok := s.order[id]; !ok {\n\t\t\ts.counter++\n\t\t\ts.order[id] = s.counter\n\t\t}\n"),
    ("c15_service_publish_async", "C15", "client/service.go", "\t\t\t\tf2, err := client.PublishMessage(cmd.message)\n", "\t\t\t\tif cmd.message.QOS == 0 {\n\t\t\t\t\tgo client.PublishMessage(cmd.message)\n\t\t\t\t\tcmd.future.Complete(nil)\n\t\t\t\t\tcontinue\n\t\t\t\t}\n\t\t\t\tf2, err := client.PublishMessage(cmd.message)\n"),
    ("c09_await_negative_timeout", "C09", "client/future/store.go", "\t\tremaining := deadline.Sub(time.Now())\n\t\tif remaining <= 0 {\n\t\t\treturn ErrTimeout\n\t\t}\n", "\t\tremaining := deadline.Sub(time.Now())\n"),
    # ---- C10
    ("c10_ignore_unknown_pubrel", "C10", "client/client.go", "\t\t// ignore a wrongly sent Pubrel packet if not connected\n\t\tif atomic.LoadUint32(&c.state) != clientConnected {\n\t\t\treturn nil\n\t\t}\n", "\t\t// ignore a wrongly sent Pubrel packet if not connected\n\t\tif atomic.LoadUint32(&c.state) <= clientDisconnected {\n\t\t\treturn nil\n\t\t}\n"),
    ("c10_delete_after_pubcomp", "C10", "client/client.go", "\terr = c.Session.DeletePacket(session.Incoming, id)\n\tif err != nil {\n\t\treturn c.die(err, true)\n\t}\n\n\t// prepare pubcomp packet\n\tpubcomp := packet.NewPubcomp()\n\tpubcomp.ID = publish.ID\n\n\t// acknowledge Publish packet\n\terr = c.send(pubcomp, true)\n\tif err != nil {\n\t\treturn c.die(err, false)\n\t}\n", "\t// prepare pubcomp packet\n\tpubcomp := packet.NewPubcomp()\n\tpubcomp.ID = publish.ID\n\n\t// acknowledge Publish packet\n\terr = c.send(pubcomp, true)\n\tif err != nil {\n\t\treturn c.die(err, false)\n\t}\n\n\terr = c.Session.DeletePacket(session.Incoming, id)\n\tif err != nil {\n\t\treturn c.die(err, true)\n\t}\n"),
    ("c10_dup_not_stored", "C10", "client/client.go", "\tif publish.Message.QOS == 2 {\n\t\t// store packet\n\t\terr := c.Session.SavePacket(session.Incoming, publish)\n\t\tif err != nil {\n\t\t\treturn c.die(err, true)\n\t\t}\n", "\tif publish.Message.QOS == 2 {\n\t\t// store packet\n\t\tvar err error\n\t\tif !publish.Dup {\n\t\t\terr = c.Session.SavePacket(session.Incoming, publish)\n\t\t}\n\t\tif err != nil {\n\t\t\treturn c.die(err, true)\n\t\t}\n"),
    ("c10_reject_still_acks", "C10", "client/client.go", "\t\t\terr := c.Callback(&publish.Message, nil)\n\t\t\tif err != nil {\n\t\t\t\treturn c.die(err, true)\n\t\t\t}\n\t\t}\n\t}\n\t// handle qos 1 flow", "\t\t\terr := c.Callback(&publish.Message, nil)\n\t\t\tif err != nil {\n\t\t\t\tif publish.Message.QOS == 1 {\n\t\t\t\t\t_ = c.send(&packet.Puback{ID: publish.ID}, false)\n\t\t\t\t}\n\t\t\t\treturn c.die(err, true)\n\t\t\t}\n\t\t}\n\t}\n\t// handle qos 1 flow"),
    ("c10_callback_on_publish_too", "C10", "client/client.go", "\tif publish.Message.QOS <= 1 || c.earlyCallback {", "\tif publish.Message.QOS <= 1 || c.earlyCallback || publish.Dup {"),
    ("c08_closing_drops_with_room", "C08 C13", "broker/backend.go", "\t\t\t\tselect {\n\t\t\t\tcase queue(sess) <- msg:\n\t\t\t\tdefault:\n\t\t\t\t\tselect {\n\t\t\t\t\tcase queue(sess) <- msg:\n\t\t\t\t\tcase <-sess.activeClient.Closing():\n\t\t\t\t\t}\n\t\t\t\t}\n", "\t\t\t\tselect {\n\t\t\t\tcase queue(sess) <- msg:\n\t\t\t\tcase <-sess.activeClient.Closing():\n\t\t\t\t}\n"),
    # ---- C09
    ("c09_accessor_assert", "C09", "client/futures.go", "\tsuback, _ := f.Result().(*packet.Suback)", "\tsuback := f.Result().(*packet.Suback)"),
    ("c09_close_waits", "C09 C17", "client/client.go", "\tif c.started {\n\t\tc.tomb.Kill(nil)", "\tif c.started || true {\n\t\tc.tomb.Kill(nil)"),
    ("c09_ack_err_no_die", "C09", "client/client.go", "\terr := c.Session.DeletePacket(session.Outgoing, id)\n\tif err != nil {\n\t\treturn c.die(err, true)\n\t}", "\terr := c.Session.DeletePacket(session.Outgoing, id)\n\tif err != nil {\n\t\treturn err\n\t}"),
    ("c09_send_before_save", "C09", "client/client.go", "\t// store packet if at least qos 1\n\tif msg.QOS > 0 {\n\t\terr := c.Session.SavePacket(session.Outgoing, publish)\n\t\tif err != nil {\n\t\t\treturn nil, c.cleanup(err, true, false)\n\t\t}\n\t}\n\n\t// send packet\n\terr := c.send(publish, true)\n\tif err != nil {\n\t\treturn nil, c.cleanup(err, false, false)\n\t}\n", "\t// send packet\n\terr := c.send(publish, true)\n\tif err != nil {\n\t\treturn nil, c.cleanup(err, false, false)\n\t}\n\n\t// store packet if at least qos 1\n\tif msg.QOS > 0 {\n\t\terr := c.Session.SavePacket(session.Outgoing, publish)\n\t\tif err != nil {\n\t\t\treturn nil, c.cleanup(err, true, false)\n\t\t}\n\t}\n"),
    ("c09_complete_on_pubrec", "C09", "client/client.go", "\t// prepare pubrel packet\n\tpubrel := packet.NewPubrel()\n\tpubrel.ID = id\n", "\t// prepare pubrel packet\n\tpubrel := packet.NewPubrel()\n\tpubrel.ID = id\n\tif f := c.futureStore.Get(id); f != nil {\n\t\tf.Complete(nil)\n\t}\n"),
    ("c09_no_future_clear", "C09", "client/client.go", "\t// cancel all futures\n\tc.futureStore.Clear()\n", "\t// cancel all futures\n\tif closeConn {\n\t\tc.futureStore.Clear()\n\t}\n"),
    ("c09_delete_on_pubrec", "C09", "client/client.go", "\t// overwrite stored Publish with the Pubrel packet\n\terr := c.Session.SavePacket(session.Outgoing, pubrel)", "\t// overwrite stored Publish with the Pubrel packet\n\terr := c.Session.DeletePacket(session.Outgoing, id)"),
    ("c09_resend_no_dup", "C09", "client/client.go", "\t\t\t// set the dup flag on a publish packet\n\t\t\tpublish.Dup = true\n\t\t}\n\n\t\t// resend packet", "\t\t\t// set the dup flag on a publish packet\n\t\t\tpublish.Dup = false\n\t\t}\n\n\t\t// resend packet"),
    # ---- C17
    ("c17_no_resubscribe", "C17", "client/service.go", "\t\tif s.ResubscribeAllSubscriptions {\n", "\t\tif s.ResubscribeAllSubscriptions && false {\n"),
    ("c17_stop_keeps_futures", "C17", "client/service.go", "\tif clearFutures {\n\t\ts.futureStore.Protect(false)\n\t\ts.futureStore.Clear()\n\t}", "\tif clearFutures {\n\t\ts.futureStore.Protect(false)\n\t}"),
    ("c17_suback_no_die", "C17", "client/client.go", "\t\t\t\treturn c.die(ErrFailedSubscription, true)", "\t\t\t\treturn ErrFailedSubscription"),
    ("c17_put_no_cancel", "C17", "client/future/store.go", "\tif existing, ok := s.store[id]; ok && existing != future {\n\t\texisting.Cancel(nil)\n\t}\n", ""),
    ("c17_unsub_not_forgotten", "C17", "client/service.go", "\t\t\t\tfor _, v := range cmd.topics {\n\t\t\t\t\ts.subscriptions.Empty(v)\n\t\t\t\t}\n", ""),
    ("c17_gives_up", "C17", "client/service.go", "\t\tclient, resumed := s.connect(kill)\n\t\tif client == nil {\n\t\t\tcontinue\n\t\t}", "\t\tclient, resumed := s.connect(kill)\n\t\tif client == nil {\n\t\t\tif s.backoff.Attempt() > 2 {\n\t\t\t\treturn nil\n\t\t\t}\n\t\t\tcontinue\n\t\t}"),
    ("c17_connack_race", "C17 C09 C15", "client/client.go", "\t// set state to connected\n\tatomic.StoreUint32(&c.state, clientConnected)\n\n\t// complete future\n\tc.connectFuture.Complete(connack)\n", "\t// set state to connected\n\tatomic.StoreUint32(&c.state, clientConnected)\n\n\t// complete future\n\tc.connectFuture.Complete(connack)\n\tpackets, _ = c.Session.AllPackets(session.Outgoing)\n"),
    # ---- C03
    ("c03_detection_4", "C03", "packet/stream.go", "\t\tif detectionLength > 5 {", "\t\tif detectionLength > 4 {"),
    ("c03_limit_ge", "C03", "packet/stream.go", "\t\tif limit > 0 && int64(packetLength) > limit {", "\t\tif limit > 0 && int64(packetLength) >= limit {"),
    ("c03_ws_text_messages", "C03", "transport/websocket_conn.go", "\twriter, err := s.conn.NextWriter(websocket.BinaryMessage)", "\twriter, err := s.conn.NextWriter(websocket.TextMessage)"),
    ("c03_torn_is_eof", "C03", "packet/stream.go", "\t\tif err == io.EOF && len(header) != 0 {\n\t\t\t// an EOF with some data is unexpected\n\t\t\treturn nil, io.ErrUnexpectedEOF\n\t\t} else if err != nil {", "\t\tif err != nil {"),
    ("c03_encoder_no_flush", "C03 C19", "packet/stream.go", "\t} else {\n\t\t_, err = e.writer.WriteAndFlush(buf)\n\t}", "\t} else {\n\t\t_, err = e.writer.Write(buf)\n\t}"),
    ("c03_close_no_flush", "C03 C19", "transport/base_conn.go", "\t// flush buffer\n\terr1 := c.stream.Flush()\n", "\t// flush buffer\n\tvar err1 error\n"),
    # ---- C19
    ("c19_no_close_on_recv_error", "C19", "transport/base_conn.go", "\tpkt, err := c.stream.Read()\n\tif err != nil {\n\t\t// ensure carrier gets closed\n\t\t_ = c.carrier.Close()\n", "\tpkt, err := c.stream.Read()\n\tif err != nil {\n"),
    ("c19_close_keeps_carrier", "C19", "transport/base_conn.go", "\t// close carrier\n\terr2 := c.carrier.Close()\n", "\t// close carrier\n\tvar err2 error\n\tgo func() { time.Sleep(20 * time.Second); _ = c.carrier.Close() }()\n"),
    ("c19_recv_error_flushes", "C19", "transport/base_conn.go", "\tpkt, err := c.stream.Read()\n\tif err != nil {\n\t\t// ensure carrier gets closed\n\t\t_ = c.carrier.Close()\n", "\tpkt, err := c.stream.Read()\n\tif err != nil {\n\t\t// ensure carrier gets closed\n\t\t_ = c.Close()\n"),
    # ---- C20
    ("c20_suback_reversed", "C20", "broker/client.go", "\t\tsuback.ReturnCodes[i] = subscription.QOS", "\t\tsuback.ReturnCodes[len(pkt.Subscriptions)-1-i] = subscription.QOS"),
    ("c20_ignore_unexpected", "C20 C14", "broker/client.go", "\tdefault:\n\t\terr = c.die(ClientError, ErrUnexpectedPacket)\n\t}\n\n\t// return eventual error", "\tdefault:\n\t}\n\n\t// return eventual error"),
    ("c20_auth_continue", "C20", "broker/client.go", "\t\t// close client\n\t\treturn c.die(ClientError, ErrNotAuthorized)\n\t}", "\t}"),
]

os.makedirs(OUT, exist_ok=True)
only = sys.argv[1:]
for name, props, path, old, new in M:
    if only and not any(name.startswith(o) for o in only):
        continue
    src = subprocess.run(["git", "-C", "/repo", "show", "HEAD:" + path], stdout=subprocess.PIPE, text=True, check=True).stdout
    if src.count(old) != 1:
        print("!! %s: old text occurs %d times in %s" % (name, src.count(old), path))
        continue
    dst = src.replace(old, new)
    diff = "".join(difflib.unified_diff(src.splitlines(True), dst.splitlines(True), "a/" + path, "b/" + path))
    open(os.path.join(OUT, name + ".diff"), "w").write(diff)
    open(os.path.join(OUT, name + ".props"), "w").write(props + "\n")
print("ok")
