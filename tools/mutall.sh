#!/bin/bash
# runs every mutant in /verif/mutants (or those matching $1 prefix) against the properties it should break
cd /verif
for d in mutants/${1:-}*.diff; do
  props=$(cat "${d%.diff}.props")
  tools/mut.sh "$d" $props 2>&1 | grep -v "^claimed" 
done
