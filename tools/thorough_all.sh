#!/bin/bash
# runs the thorough tier of every claimed check (or those given), one after the other; prints one line each
cd "$(dirname "$0")/.."
props=${@:-$(python3 -c "import json; print(' '.join(c['property_id'] for c in json.load(open('MANIFEST.json'))['checks']))")}
for p in $props; do
  s=$(date +%s); out=$(./check $p thorough 2>&1); rc=$?; e=$(date +%s)
  echo "$p thorough rc=$rc $((e-s))s :: $(echo "$out" | grep -E "VIOLATION|signature:|KNOWN-FINDING|INFRA|FUZZ-" | head -5 | tr '\n' ' ' | cut -c1-400)"
done
