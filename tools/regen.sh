#!/bin/bash
# re-runs the quick tier of every claimed check (or those given) on the current tree, in parallel batches, to refresh evidence
cd /verif
props=${@:-$(python3 -c "import json; print(' '.join(c['property_id'] for c in json.load(open('MANIFEST.json'))['checks']))")}
for p in $props; do
  ( out=$(./check $p quick 2>&1); rc=$?; echo "$p rc=$rc $(echo "$out" | tail -1)" ) &
  while [ $(jobs -r | wc -l) -ge ${PAR:-3} ]; do sleep 1; done
done
wait
