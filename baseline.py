#!/usr/bin/env python3
"""Runs the repository's pinned test suite (guard tag OFF) and compares the
result with /root/.vp/BASELINE.json: every stable_pass test must pass.

usage: baseline.py [repo-dir]      (default /repo)
"""
import json
import os
import subprocess
import sys

repo = sys.argv[1] if len(sys.argv) > 1 else "/repo"
base = json.load(open("/root/.vp/BASELINE.json"))
want = set(base["stable_pass"])
env = dict(os.environ, GOFLAGS="-mod=mod", GOPROXY="off", GOSUMDB="off", GOTOOLCHAIN="local")
p = subprocess.run(["go", "test", "-mod=mod", "-json", "-vet=off", "-count=1", "-timeout", "25m", "./..."],
                   cwd=repo, env=env, stdout=subprocess.PIPE, stderr=subprocess.DEVNULL, text=True)
status = {}
for line in p.stdout.splitlines():
    try:
        e = json.loads(line)
    except ValueError:
        continue
    if e.get("Test") and e.get("Action") in ("pass", "fail", "skip"):
        status["%s::%s" % (e["Package"], e["Test"])] = e["Action"]
passed = {k for k, v in status.items() if v == "pass"}
missing = sorted(want - passed)
print("baseline: %d/%d stable tests pass" % (len(want & passed), len(want)))
for m in missing:
    print("  NOT PASSING:", m, status.get(m, "absent"))
sys.exit(1 if missing else 0)
