#!/usr/bin/env python3
"""Regenerates MANIFEST.json from the table below (claimed checks = those whose
harness package exists)."""
import json
import os

ROOT = os.path.dirname(os.path.abspath(__file__))

T = {
    "C01": ("exploration", "bounded-exhaustive enumeration + rapid generation vs. independent reference codec (round-trip, Len, exact layout)",
            "All ids, all flag/code combinations and every remaining-length boundary +-2 are enumerated completely; field mixes and encoder sequences are generated (rapid), all judged against an independently written reference encoder and by decode round-trip. Complete for the enumerated sub-spaces, sampling beyond them.",
            "trusts verif/internal/refcodec (written from the OASIS text); sizes above 2 MiB are sampled, the 256 MiB maximum is tried once in the thorough tier", "4 C01"),
    "C02": ("exploration", "differential fuzzing of the decoder vs. reference decoder: exhaustive short inputs, structure-aware mutation battery, rapid mutations, native go fuzzing; framed/embedded/stream metamorphic relations",
            "Every input is decoded by the library and by an independent strict reference decoder (leniencies L1-L4), framed to its declared length, embedded before adversarial tails and through packet.Decoder; verdict, fields, consumed count, buffer ownership, second use of a list-carrying object and re-encodability are compared. Exhaustive for all inputs up to 2 (quick) / 3 (thorough) bytes and all short headers.",
            "trusts the reference decoder and the leniency criterion of DESIGN.md section 3; absence of panics is shown only for the inputs tried", "4 C02"),
    "C03": ('exploration', 'rapid-generated packet sequences x fragmentation plans through Decoder/Encoder/BaseConn/TCP/WebSocket/concurrent connections, bounded-exhaustive split and truncation points for short streams, metamorphic chunking relation on arbitrary byte streams (rapid mutations + native go fuzzing), all compared with reference encodings',
            'Generated packet sequences are pushed through every stream layer under generated chunk plans (every split point and truncation offset for short streams), read limits, async/flush mixes, several connections at once; received packets and wire bytes are compared with the reference encodings; arbitrary byte streams must decode identically in one piece and in chunks.',
            'real TCP segmentation is whatever loopback does with the write plan; timer-driven flush points are sampled; trusts internal/refcodec for the wire bytes (C01 checks it against the library)', '4 C03, 9'),
    "C04": ("exploration", "bounded-exhaustive (filter,name) enumeration + rapid sets vs. independent reference matcher, both directions",
            "All filter/name pairs over levels {a,b,empty,+,#} up to depth 4 are enumerated in both directions (Match with stored filters, Search with stored names) and compared with an independent MQTT 4.7 matcher; larger random sets cover interference and duplicates.",
            "trusts verif/internal/reftopic; names exclude wildcards, U+0000 and a leading $", "4 C04"),
    "C05": ("exploration", "model-based stateful testing (rapid state machine + bounded-exhaustive op sequences) vs. map model; concurrent histories checked for linearizability (porcupine) and confluent concurrent writes compared with the model at quiescence, under the race detector",
            "Every query is compared with a map model after every step of generated and enumerated operation sequences, the printed structure with a freshly built tree, returned slices with their snapshot; concurrent histories are checked for linearizability against the model; commuting idempotent writes issued by up to 16 goroutines at once (the same Add/Remove by several) must leave exactly the model's contents.",
            "schedules are sampled (Go scheduler), not enumerated", "4 C05"),
    "C06": ('exploration', 'model-based stateful testing of the broker (rapid op histories over scripted raw peers on in-memory connections) vs. subscription model with quiescence barriers; plus generated fan-out scenarios under back-pressure',
            "Generated histories of connect/subscribe/unsubscribe/publish over 1-6 raw peers are run against the real engine+memory backend; after each publish a marker barrier establishes quiescence and every peer's inbox is compared with the model (exactly the matching subscribers, once, intact, QoS of a matching filter). Fan-out under back-pressure: a stalled subscriber leaving while a publish waits behind it, and a client filling its own queue.",
            'in-memory transport instead of TCP; schedules of the concurrent phase are sampled', '4 C06, 9.6'),
    "C07": ('fault_enumeration', 'generated publisher scripts x enumerated connection-fault positions x backend ack modes x publish window x bystander, judged on the recorded event history; plus enumerated broker-side session-operation faults against a minimal accepting backend',
            'For every generated publisher script the connection is failed before/after every single packet the broker sends or receives (enumerated, not sampled) and the recorded history is judged: ack after acceptance, PUBREC after recording, QoS 2 accepted exactly once, every PUBREL answered.',
            'scripts bounded to depth 8 and 2 packet ids; ack modes sync/late/other goroutine/never; publish window default, 1 or 2', '4 C07, 9.6'),
    "C08": ("fault_enumeration", "generated subscriber scripts x enumerated fault positions on the subscriber connection; receiver-side protocol model + session probes",
            "Subscriber behaviours are generated, each re-run with the connection cut before/after every packet; the history is judged against a correct-receiver model (retransmission with DUP / PUBREL, no fresh re-offer of QoS 2, nothing lost, session-present truthful) and the live session is probed for recorded-before-sent.",
            "window between connection loss and Terminate excluded (backend documents the drop); bounded scripts", "4 C08"),
    "C09": ('fault_enumeration', 'generated API/fake-broker scripts over client lives sharing one session x enumerated connection-fault positions and session-call faults; map model of the outgoing store + future state oracle + event-history invariant',
            'API calls (Publish QoS 0-2, Subscribe, Unsubscribe, concurrent publishes) and fake-broker behaviour (acks in any order, PUBREC only, stray acks, drop, denied/wrong first packet) are generated; every connection operation and every session call is failed in turn; the outgoing store is compared with a map model after every step, everything recorded must be re-sent after CONNACK, futures must be pending before and complete after their acknowledgement, resolved after every end, accessors never panic, Close/Disconnect return.',
            'after an injected fault only the state-independent clauses are judged; hang = no return within 10 s', '4 C09, 9'),
    "C10": ('fault_enumeration', 'generated fake-broker scripts interpreted against the MQTT sender rules x application verdicts x callback modes x clean/persistent session x enumerated connection-fault positions; sender-side handshake model with QoS 1 barriers',
            "Scripts of PUBLISH/PUBREL (also duplicated / repeated), QoS 0/1 messages, drop+resume, a broker that loses its session and reuses ids, an application that closes the client while its callback runs, and the application's own Subscribe/Unsubscribe/Publish calls (colliding packet ids), over 1-3 ids, are generated with accept/reject verdicts; every send and receive on the client's connection and every operation of the client's session store is failed in turn; judged against the sender-side handshake model (every PUBLISH/PUBREL answered, exactly one accepted delivery per handshake, no ack after a rejected delivery).",
            'default callback mode for exactly-once; early mode only ordering clauses', '4 C10, 9'),
    "C11": ("exploration", "model-based stateful testing of retained messages (rapid histories x bounded-exhaustive filter set) vs. map model + reference matcher; generated publish/subscribe races behind a held backend mutex (atomicity oracle) and enumerated own-queue-full completions",
            "Histories of retained/non-retained/empty publishes, wills and subscriptions with every filter of the depth-3 exhaustive filter set are run; each SUBSCRIBE's replay is compared with the model.",
            "bounded topic universe; in-memory transport", "4 C11"),
    "C12": ('fault_enumeration', 'bounded-exhaustive termination cause x protocol state x will flags matrix, re-sampled with generated surrounding traffic; count of will publications at the backend boundary + observers',
            "The valid cause x variant x state x will QoS x retain matrix (19 causes, 5 states) is enumerated completely; the will's publications are counted at the backend and at four observers (online clean, online persistent, online with full window and queue, offline persistent) and a late subscriber (retained replay).",
            "'accepted' = the backend's Setup returned a session; keep-alive expiry with a shortened maximum keep-alive", '4 C12, 9.6'),
    "C13": ("exploration", "generated concurrent takeover scenarios (2-8 contenders, skew/jitter, GOMAXPROCS) under the race detector; ordering invariants over the recorded backend/connection history",
            "Many generated takeover races are run; the recorded history must show the start of Terminate(old) and the old will before the newcomer's Setup return and CONNACK, exactly one survivor, no leaked goroutine; a deterministic variant checks the session hand-over content.",
            "schedules are sampled, not enumerated", "4 C13"),
    "C14": ('exploration', 'rapid-generated hostile frame streams + native go fuzzing against a live engine with witness clients; resource-release invariants (Terminate once per Setup, Closed fires, goroutine census)',
            'Hostile connections (admissible packets with hostile values, out-of-protocol packets, mutated/truncated frames, garbage, oversize declarations; storms sharing client ids; KillTimeout 1 ns, backend shutdown race, failing backend hooks, a subscriber that never acknowledges and then leaves, one that never acknowledges, keeps publishing and stays until the token timeout removes it) run against the engine while two witnesses receive a numbered stream; process survival, closing of the offender only, witness traffic, termination accounting and goroutine census are judged.',
            "hostile peers' inbound data is drained (a non-reading subscriber is a documented backend limitation) except in the slow-subscriber / stalled-publisher environments, which end by that subscriber leaving or by the broker's token timeout (3 s in all C14 runs)", '4 C14, 9'),
    "C15": ('exploration', 'generated concurrent publisher/subscriber scenarios, resume scenarios with backlog on broker and client side, client inbound streams and service command sequences; per-stream monotonicity oracle',
            'Numbered messages from 1-8 concurrent publishers to 1-4 subscribers: every (publisher, QoS, subscriber) stream must arrive in order; resume bursts (PUBLISH and PUBREL) must keep their original order and precede fresh deliveries; client callback order per QoS and service command order likewise.',
            'schedules sampled (with per-operation jitter on the resumed connection)', '4 C15, 9'),
    "C16": ('exploration', 'generated acknowledgement plans x window sizes (concurrent publisher, reconnects, idle periods with shortened token timeout); subscriber-side inflight counter invariant + progress',
            'Generated ack plans (immediate, batched, full-window batches, sliding delay, reversed, PUBCOMP withheld, drop + unclean reconnect, idle then full window, QoS 0 bursts) over streams of up to 20x window messages: the unacknowledged count at the subscriber never exceeds the window, everything arrives, QoS 0 holds no slot, the connection is never closed on a client that acknowledges.',
            'only valid acknowledgements generated; stall = no arrival for 10 s', '4 C16'),
    "C17": ('fault_enumeration', 'generated service scripts x failure modes injected into successive connection attempts (scripted fake broker/dialer, slow session store); subscription-set model + future oracle',
            "Service scripts (Subscribe/Unsubscribe/Publish, concurrent calls, Stop/Start) with up to 6 injected failures (dial refused, CONNECT unsendable, no CONNACK, denied, drop after k packets, SUBACK failure, drop before PUBACK): the service must come online again, the broker's subscription view must equal what all calls imply, publish futures must survive a resumed session, Stop must return and cancel, a restart must come online. One recorded finding (UNSUBSCRIBE lost on a persistent session is never repeated) is classified, counted and reported as KNOWN-FINDING.",
            'service time-outs shortened; liveness judged by a 10 s ceiling', '4 C17, 9'),
    "C18": ("exploration", "exhaustive enumeration of all 65536 counter states + model-based stateful testing of the packet store (rapid + bounded-exhaustive) + concurrent callers",
            "All counter states are enumerated (next id, successor, 65535 distinct), the store is compared with two maps over generated and enumerated histories, concurrent callers are checked under the race detector.",
            "QoS 0 publishes with id 0 are not stored by any caller and are not generated", "4 C18"),
    "C19": ('fault_enumeration', 'generated concurrent send/close scenarios on BaseConn over an instrumented in-memory carrier, net.Pipe, TCP and WebSocket loopback, with enumerated carrier fault positions; stream-integrity and after-close oracles',
            '1-16 senders with self-checking packets, Close from another goroutine, carrier failures at every operation position (in-memory carrier): decoded packets intact, per-sender ordered, never duplicated; nothing accepted before Close is lost; after close / peer close / read timeout every call fails promptly; Close unblocks Receive; a failing Receive (read timeout, decode / read-limit error) releases a Send that is stuck because the peer stopped reading, on the in-memory carrier, net.Pipe, TCP and WebSocket loopback; hangs are judged by absence of progress for 10 s.',
            'schedules sampled; fault positions enumerated up to 150 per side; net.Pipe wrapped with socket deadline semantics', '4 C19, 9'),
    "C20": ('exploration', 'rapid-generated pipelined packet sequences (incl. request-only sequences beyond the token pools) vs. protocol response model (multiset of owed responses) on the real engine',
            'Sequences over all 14 types with valid/invalid credentials are sent in one burst; responses and backend hook calls are compared with the protocol model; long request-only sequences check that every request is still answered when the per-connection token pools are exceeded.',
            'in-memory transport; sequence length up to 45', '4 C20'),
}

checks = []
na = []
for pid in sorted(T):
    cat, tech, text, note, ref = T[pid]
    if os.path.isdir(os.path.join(ROOT, "harness", pid.lower())):
        checks.append({
            "property_id": pid,
            "quick_cmd": "./check %s quick" % pid,
            "thorough_cmd": "./check %s thorough" % pid,
            "evidence_file": "/verif/evidence/%s.json" % pid,
            "replay_cmd_template": "./check --replay {path}",
            "engine": "go-pbt",
            "level_claimed": {"category": cat, "text": text, "design_ref": "DESIGN.md section " + ref},
            "level_note": note,
            "technique": tech,
        })
    else:
        na.append({"property_id": pid, "reason": "check not built yet in this round (design in DESIGN.md section %s); the technique applies" % ref})

hooks = []
hp = os.path.join(ROOT, "HOOK_COMMITS.txt")
if os.path.exists(hp):
    hooks = [l.split()[0] for l in open(hp) if l.strip() and not l.startswith("#")]

m = {
    "version": 1,
    "setup_cmd": "./check --build-all",
    "hooks": {
        "guard": "verif",
        "enable": "go test -tags verif (the harness module under /verif/harness replaces github.com/256dpi/gomqtt by /repo)",
        "baseline_off_cmd": "./baseline.py",
        "source_commits": hooks,
        "add_only": True,
    },
    "engines": [{
        "name": "go-pbt", "path": "/verif/harness",
        "serves_properties": [c["property_id"] for c in checks],
        "kind_free_text": "property-based testing (pgregory.net/rapid v1.3.0), bounded-exhaustive enumeration, native go fuzzing, porcupine linearizability checking of recorded histories; independent reference codec/matcher/protocol models as oracles",
    }],
    "checks": checks,
    "not_applicable": na,
    "notes": "driver: ./check <id> <quick|thorough>; known findings: KNOWN_FINDINGS.txt; design: DESIGN.md",
}
json.dump(m, open(os.path.join(ROOT, "MANIFEST.json"), "w"), indent=1)
print("claimed:", [c["property_id"] for c in checks])
