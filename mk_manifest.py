#!/usr/bin/env python3
"""Regenerates MANIFEST.json from the table below (claimed checks = those whose
harness package exists)."""
import json
import os

ROOT = os.path.dirname(os.path.abspath(__file__))

T = {
    "C01": ("exploration", "bounded-exhaustive enumeration + rapid generation vs. independent reference codec (round-trip, Len, exact layout)",
            "All ids, all flag/code combinations and every remaining-length boundary +-2 are enumerated completely; field mixes and encoder sequences are generated (rapid), all judged against an independently written reference encoder and by decode round-trip. Complete for the enumerated sub-spaces, sampling beyond them.",
            "trusts verif/internal/refcodec (written from the OASIS text); sizes above 2 MiB are sampled, the 256 MiB maximum is tried once in the thorough tier", "4 C01"),
    "C02": ("exploration", "differential fuzzing of the decoder vs. reference decoder: exhaustive short inputs, structure-aware mutation battery, rapid mutations, native go fuzzing; framed/embedded/stream metamorphic relations",
            "Every input is decoded by the library and by an independent strict reference decoder (leniencies L1-L4), framed to its declared length, embedded before adversarial tails and through packet.Decoder; verdict, fields, consumed count, buffer ownership and re-encodability are compared. Exhaustive for all inputs up to 2 (quick) / 3 (thorough) bytes and all short headers.",
            "trusts the reference decoder and the leniency criterion of DESIGN.md section 3; absence of panics is shown only for the inputs tried", "4 C02"),
    "C03": ("exploration", "rapid-generated packet sequences x fragmentation plans through Decoder/Encoder/BaseConn/TCP/WebSocket, compared with reference encodings (metamorphic: any chunking gives the same packets)",
            "Generated packet sequences are pushed through every stream layer under generated chunk plans (every split point for short streams), truncations and read limits; received packets and wire bytes are compared with the reference encodings.",
            "real TCP segmentation is whatever loopback does with the write plan; timer-driven flush points are sampled", "4 C03"),
    "C04": ("exploration", "bounded-exhaustive (filter,name) enumeration + rapid sets vs. independent reference matcher, both directions",
            "All filter/name pairs over levels {a,b,empty,+,#} up to depth 4 are enumerated in both directions (Match with stored filters, Search with stored names) and compared with an independent MQTT 4.7 matcher; larger random sets cover interference and duplicates.",
            "trusts verif/internal/reftopic; names exclude wildcards, U+0000 and a leading $", "4 C04"),
    "C05": ("exploration", "model-based stateful testing (rapid state machine + bounded-exhaustive op sequences) vs. map model; concurrent histories checked for linearizability (porcupine) under the race detector",
            "Every query is compared with a map model after every step of generated and enumerated operation sequences, the printed structure with a freshly built tree, returned slices with their snapshot; concurrent histories are checked for linearizability against the model.",
            "schedules are sampled (Go scheduler), not enumerated", "4 C05"),
    "C06": ("exploration", "model-based stateful testing of the broker (rapid op histories over scripted raw peers on in-memory connections) vs. subscription model with quiescence barriers",
            "Generated histories of connect/subscribe/unsubscribe/publish over 1-6 raw peers are run against the real engine+memory backend; after each publish a marker barrier establishes quiescence and every peer's inbox is compared with the model (exactly the matching subscribers, once, intact, QoS of a matching filter).",
            "in-memory transport instead of TCP; schedules of the concurrent phase are sampled", "4 C06"),
    "C07": ("fault_enumeration", "generated publisher scripts x enumerated connection-fault positions x backend ack modes, judged on the recorded event history",
            "For every generated publisher script the connection is failed before/after every single packet the broker sends or receives (enumerated, not sampled) and the recorded history is judged: ack after acceptance, PUBREC after recording, QoS 2 accepted exactly once, every PUBREL answered.",
            "scripts bounded to depth 8 and 2 packet ids; ack modes sync/late/other goroutine/never", "4 C07"),
    "C08": ("fault_enumeration", "generated subscriber scripts x enumerated fault positions on the subscriber connection; receiver-side protocol model + session probes",
            "Subscriber behaviours are generated, each re-run with the connection cut before/after every packet; the history is judged against a correct-receiver model (retransmission with DUP / PUBREL, no fresh re-offer of QoS 2, nothing lost, session-present truthful) and the live session is probed for recorded-before-sent.",
            "window between connection loss and Terminate excluded (backend documents the drop); bounded scripts", "4 C08"),
    "C09": ("fault_enumeration", "generated fake-broker scripts x API sequences x enumerated connection/session fault positions against client.Client; event-log invariants",
            "Fake-broker behaviours and API call sequences are generated; every connection operation and session call is failed in turn; the event log is judged (saved before sent, kept until acked, resent with DUP, futures truthful, everything cancelled and returned at the end, accessors never panic).",
            "bounded scripts; hang = no return within 10 s with a goroutine dump", "4 C09"),
    "C10": ("fault_enumeration", "generated broker scripts (sender-rule abiding) x callback verdicts x enumerated ack-write faults against client.Client; handshake model",
            "Scripts of PUBLISH/PUBREL/drop+resume over 1-3 ids are generated with callback verdicts and a write fault at every acknowledgement; judged against the sender-side handshake model (exactly one accepted callback per handshake, every PUBLISH/PUBREL answered, no ack after an error verdict).",
            "default callback mode for exactly-once; early mode only ordering clauses", "4 C10"),
    "C11": ("exploration", "model-based stateful testing of retained messages (rapid histories x bounded-exhaustive filter set) vs. map model + reference matcher",
            "Histories of retained/non-retained/empty publishes, wills and subscriptions with every filter of the depth-3 exhaustive filter set are run; each SUBSCRIBE's replay is compared with the model.",
            "bounded topic universe; in-memory transport", "4 C11"),
    "C12": ("fault_enumeration", "enumerated termination cause x protocol state x will flags matrix with generated surrounding traffic; count of will publications at the backend boundary",
            "The cause x state x will matrix is enumerated completely; the will's publications are counted at the backend and at observers (online, offline persistent, late subscriber).",
            "keep-alive expiry exercised with a shortened maximum keep-alive on a real net.Pipe carrier", "4 C12"),
    "C13": ("exploration", "generated concurrent takeover scenarios (2-8 contenders, skew/jitter, GOMAXPROCS) under the race detector; ordering invariants over the recorded backend/connection history",
            "Many generated takeover races are run; the recorded history must show Terminate(old) and the old will before the newcomer's Setup return and CONNACK, exactly one survivor, no leaked goroutine; a deterministic variant checks the session hand-over content.",
            "schedules are sampled, not enumerated", "4 C13"),
    "C14": ("exploration", "generated hostile packet/byte streams + native fuzzing against a live engine with witness clients; resource-release invariants (Terminate once per Setup, Closed fires, goroutine census)",
            "Hostile streams (valid packets out of protocol, mutated frames, oversize lengths, storms, backend shutdown races, failing backend hooks) run against the engine while two witnesses exchange numbered traffic; process survival, witness traffic, termination accounting and goroutine census are judged.",
            "hostile peers' inbound data is drained (non-reading subscriber is a documented backend limitation)", "4 C14"),
    "C15": ("exploration", "generated concurrent publisher/subscriber scenarios and resume scenarios; per-stream monotonicity oracle over received sequence numbers",
            "Numbered messages from 1-8 concurrent publishers to 1-4 subscribers: every (publisher, QoS, subscriber) stream must arrive in order; resume bursts must keep original order; client callback order and service command order likewise.",
            "schedules sampled", "4 C15"),
    "C16": ("exploration", "generated acknowledgement plans x window sizes; subscriber-side inflight counter invariant + progress",
            "Generated ack plans (immediate, batched, delayed, reversed, reconnect) over streams of up to 20x window messages: unacknowledged count at the subscriber never exceeds the window, everything arrives, QoS 0 holds no slot.",
            "only valid acknowledgements generated", "4 C16"),
    "C17": ("fault_enumeration", "generated failure schedules x API call sequences against client.Service with a scripted fake broker/dialer; subscription-set model",
            "Failure schedules (dial refused, CONNECT unsendable, no CONNACK, denied, drop after k, SUBACK failure, drop during resubscribe) are generated and the service's resulting subscription set, command order, future completion and Stop/Start behaviour are compared with the model.",
            "service time-outs shortened; bounded schedules", "4 C17"),
    "C18": ("exploration", "exhaustive enumeration of all 65536 counter states + model-based stateful testing of the packet store (rapid + bounded-exhaustive) + concurrent callers",
            "All counter states are enumerated (next id, successor, 65535 distinct), the store is compared with two maps over generated and enumerated histories, concurrent callers are checked under the race detector.",
            "QoS 0 publishes with id 0 are not stored by any caller and are not generated", "4 C18"),
    "C19": ("fault_enumeration", "generated concurrent send/close scenarios on BaseConn over instrumented carriers with enumerated carrier fault positions; stream-integrity oracle",
            "1-16 senders with checksummed packets, close from a third goroutine, carrier failures at every call position: decoded packets intact and per-sender ordered, nothing accepted before Close is lost, no call blocks or panics afterwards.",
            "schedules sampled; fault positions enumerated", "4 C19"),
    "C20": ("exploration", "rapid-generated pipelined packet sequences vs. protocol response model (multiset of owed responses) on the real engine",
            "Sequences over all 14 types with valid/invalid credentials are sent in one burst; responses and backend hook calls are compared with the protocol model.",
            "in-memory transport; bounded sequence length 12", "4 C20"),
}

checks = []
na = []
for pid in sorted(T):
    cat, tech, text, note, ref = T[pid]
    if os.path.isdir(os.path.join(ROOT, "harness", pid.lower())):
        checks.append({
            "property_id": pid,
            "quick_cmd": "./check %s quick" % pid,
            "thorough_cmd": "./check %s thorough" % pid,
            "evidence_file": "/verif/evidence/%s.json" % pid,
            "replay_cmd_template": "./check --replay {path}",
            "engine": "go-pbt",
            "level_claimed": {"category": cat, "text": text, "design_ref": "DESIGN.md section " + ref},
            "level_note": note,
            "technique": tech,
        })
    else:
        na.append({"property_id": pid, "reason": "check not built yet in this round (design in DESIGN.md section %s); the technique applies" % ref})

hooks = []
hp = os.path.join(ROOT, "HOOK_COMMITS.txt")
if os.path.exists(hp):
    hooks = [l.split()[0] for l in open(hp) if l.strip() and not l.startswith("#")]

m = {
    "version": 1,
    "setup_cmd": "./check --build-all",
    "hooks": {
        "guard": "verif",
        "enable": "go test -tags verif (the harness module under /verif/harness replaces github.com/256dpi/gomqtt by /repo)",
        "baseline_off_cmd": "./baseline.py",
        "source_commits": hooks,
        "add_only": True,
    },
    "engines": [{
        "name": "go-pbt", "path": "/verif/harness",
        "serves_properties": [c["property_id"] for c in checks],
        "kind_free_text": "property-based testing (pgregory.net/rapid v1.3.0), bounded-exhaustive enumeration, native go fuzzing, porcupine linearizability checking of recorded histories; independent reference codec/matcher/protocol models as oracles",
    }],
    "checks": checks,
    "not_applicable": na,
    "notes": "driver: ./check <id> <quick|thorough>; known findings: KNOWN_FINDINGS.txt; design: DESIGN.md",
}
json.dump(m, open(os.path.join(ROOT, "MANIFEST.json"), "w"), indent=1)
print("claimed:", [c["property_id"] for c in checks])
