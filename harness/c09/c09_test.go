// C09 — the client keeps publishes until acknowledged; futures are truthful and always resolved.
package c09

import (
	"encoding/json"
	"fmt"
	"os"
	"sort"
	"strings"
	"sync"
	"testing"
	"time"

	"github.com/256dpi/gomqtt/client"
	"github.com/256dpi/gomqtt/client/future"
	"github.com/256dpi/gomqtt/packet"
	"github.com/256dpi/gomqtt/session"
	"pgregory.net/rapid"

	"verif/internal/bk"
	"verif/internal/ev"
	"verif/internal/fb"
	"verif/internal/memconn"
)

// Op is one step of the script.
//
//	pub0 pub1 pub2 sub unsub   API call on the live client (a client is connected first if none is live)
//	burst N                    N goroutines publish at QoS 1 at the same time
//	ack N                      the fake broker fully acknowledges the (N mod n)-th oldest outstanding request
//	rec N                      the fake broker sends only PUBREC for the (N mod n)-th outstanding QoS 2 publish
//	stray N                    the fake broker sends an acknowledgement for an id nobody uses (N picks the type)
//	drop                       the fake broker cuts the connection
//	close                      Client.Close
//	disconnect N               Client.Disconnect (N=0: no timeout, else timeout N ms)
//	deny / wrongfirst          the next connection attempt is answered by CONNACK(5) / by a PUBACK instead of CONNACK
type Op struct {
	Kind string `json:"k"`
	N    int    `json:"n,omitempty"`
}

// Case is a script plus at most one connection fault and one session fault.
type Case struct {
	Ops        []Op  `json:"ops"`
	FailAt     int64 `json:"fail_at,omitempty"` // k-th operation on the client's connections fails
	After      bool  `json:"after,omitempty"`
	SessFailAt int64 `json:"sess_fail_at,omitempty"` // k-th session call fails
}

type verdict struct{ sig, msg string }

type req struct {
	kind  string // pub sub unsub
	qos   int
	id    packet.ID
	fut   client.GenericFuture
	sfut  client.SubscribeFuture
	state string // sent | rec
	life  int
	tag   string
}

type runner struct {
	c         *Case
	log       *memconn.Log
	d         *fb.Dialer
	sess      *fb.Session
	cl        *client.Client
	link      *fb.Link
	life      int
	out       []*req               // outstanding requests of the live client
	all       []*req               // every request ever made
	model     map[packet.ID]string // expected content of the outgoing store: id -> Publish|Pubrel
	nextConn  string               // "", deny, wrongfirst
	tainted   bool                 // a fault was injected: state dependent clauses are no longer judged
	consumed  int64
	faultDone bool
	scan      int
	nmsg      int
	pending   *verdict
	stats     map[string]int
}

func (r *runner) fail(sig, format string, a ...interface{}) *verdict {
	v := &verdict{sig, fmt.Sprintf(format, a...) + "\n--- event log ---\n" + r.log.Dump()}
	if r.pending == nil {
		r.pending = v
	}
	return v
}

// t reports whether an injected fault has fired (or any earlier irregularity
// was seen): from then on only the state independent clauses are judged.
func (r *runner) t() bool {
	if r.tainted {
		return true
	}
	if r.c.SessFailAt > 0 && r.sess.Ops() >= r.c.SessFailAt {
		r.tainted = true
	}
	if r.c.FailAt > 0 {
		n := r.consumed
		if r.link != nil {
			n += r.link.ClientEnd.Ops()
		}
		if r.faultDone || n >= r.c.FailAt {
			r.tainted = true
		}
	}
	return r.tainted
}

func guard(f func()) (panicked interface{}) {
	defer func() { panicked = recover() }()
	f()
	return nil
}

func within(f func()) bool {
	done := make(chan struct{})
	go func() { f(); close(done) }()
	select {
	case <-done:
		return true
	case <-time.After(ev.Ceiling()):
		return false
	}
}

// accessors calls every accessor of the futures under a panic guard.
func (r *runner) accessors(when string, cf client.ConnectFuture) {
	if cf != nil {
		if p := guard(func() { _ = cf.SessionPresent(); _ = cf.ReturnCode() }); p != nil {
			r.fail("future/accessor-panics:connect", "ConnectFuture accessor panicked (%s): %v", when, p)
		}
	}
	for _, q := range r.all {
		if q.sfut != nil {
			q := q
			if p := guard(func() { _ = q.sfut.ReturnCodes() }); p != nil {
				r.fail("future/accessor-panics:subscribe", "SubscribeFuture.ReturnCodes panicked (%s): %v", when, p)
			}
		}
	}
}

func (r *runner) storeContent() map[packet.ID]string {
	m := map[packet.ID]string{}
	pkts, _ := r.sess.Inner.AllPackets(session.Outgoing)
	for _, g := range pkts {
		id, _ := packet.GetID(g)
		m[id] = g.Type().String()
	}
	return m
}

func fmtStore(m map[packet.ID]string) string {
	var l []string
	for id, t := range m {
		l = append(l, fmt.Sprintf("%d:%s", id, t))
	}
	sort.Strings(l)
	return strings.Join(l, " ")
}

func (r *runner) checkStore(when string) {
	if r.t() || r.pending != nil {
		return
	}
	got := r.storeContent()
	if fmtStore(got) != fmtStore(r.model) {
		r.fail("store/content", "%s: the session's outgoing store holds [%s], expected [%s] (QoS 1/2 publishes until PUBACK/PUBCOMP, PUBREL once PUBREC arrived)", when, fmtStore(got), fmtStore(r.model))
	}
}

// connFault reports whether the injected connection fault has fired on the live link.
func (r *runner) linkDead() bool {
	return r.link == nil || r.link.ClientEnd.Closed() || r.link.Broker.EOF
}

// connect brings up a new client on the shared session.
func (r *runner) connect() bool {
	for attempt := 0; attempt < 6; attempt++ {
		if r.pending != nil {
			return false
		}
		expect := r.storeContent()
		remaining := int64(0)
		if r.c.FailAt > 0 && !r.faultDone && r.c.FailAt > r.consumed {
			remaining = r.c.FailAt - r.consumed
		}
		r.d.Plan = func(int) (bool, func(*memconn.Conn)) {
			return false, func(ce *memconn.Conn) {
				if remaining > 0 {
					ce.FailAt, ce.FailAfter = remaining, r.c.After
				}
			}
		}
		cfg := client.NewConfigWithClientID("mem://b", "c09")
		cfg.CleanSession = false
		cfg.Dialer = r.d
		cfg.KeepAlive = "0s"
		cl := client.New()
		cl.Session = r.sess
		cl.Callback = func(m *packet.Message, err error) error {
			if err != nil {
				r.log.Add(memconn.Event{Actor: "app", Op: "callback-error", Note: err.Error()})
			}
			return nil
		}
		r.life++
		mode := r.nextConn
		r.nextConn = ""
		cf, err := cl.Connect(cfg)
		if err != nil {
			// CONNECT could not be sent. Closing such a client must still return.
			r.tainted = true
			if l := r.d.Next(time.Millisecond); l != nil {
				r.book(l)
			}
			if !within(func() { _ = cl.Close() }) {
				r.fail("liveness/close-hangs:connect-failed", "Client.Connect returned %q; Client.Close on that client did not return\n--- library goroutines ---\n%s", err, strings.Join(bk.LibGoroutines(), "\n\n"))
				return false
			}
			continue
		}
		r.cl = cl
		r.accessors("connect future pending", cf)
		l := r.d.Next(ev.Ceiling())
		if l == nil {
			r.fail("harness/accept", "no connection")
			return false
		}
		r.link = l
		r.scan = 0
		i := l.Broker.WaitFor(0, func(packet.Generic) bool { return true }, ev.Ceiling())
		if i < 0 {
			// CONNECT lost by the fault
			r.tainted = true
			r.endLife("connect-lost", cf)
			continue
		}
		switch mode {
		case "deny":
			_ = l.Broker.Send(fb.Connack(packet.NotAuthorized, false))
			if err := cf.Wait(ev.Ceiling()); err != future.ErrCanceled && !r.t() {
				r.fail("future/connect-denied", "CONNACK(5): the connect future's Wait returned %v, expected cancellation", err)
			}
			if rc := cf.ReturnCode(); rc != packet.NotAuthorized && !r.t() && r.pending == nil {
				r.fail("future/connect-denied", "CONNACK(5): ReturnCode() = %d", rc)
			}
			r.endLife("denied", cf)
			continue
		case "wrongfirst":
			_ = l.Broker.Send(&packet.Puback{ID: 1})
			if err := cf.Wait(ev.Ceiling()); err != future.ErrCanceled && !r.t() {
				r.fail("future/connect-wrong-first-packet", "first packet PUBACK: the connect future's Wait returned %v, expected cancellation", err)
			}
			r.endLife("wrong-first-packet", cf)
			continue
		}
		sp := r.life > 1
		_ = l.Broker.Send(fb.Connack(packet.ConnectionAccepted, sp))
		if err := cf.Wait(ev.Ceiling()); err != nil {
			if !r.linkDead() && !r.t() {
				r.fail("future/connect", "CONNACK sent, connect future: %v", err)
			}
			r.tainted = true
			r.endLife("connack-lost", cf)
			continue
		}
		if !r.t() && (cf.SessionPresent() != sp || cf.ReturnCode() != 0) {
			r.fail("future/connect-result", "connect future reports session-present=%v code=%d, CONNACK had %v/0", cf.SessionPresent(), cf.ReturnCode(), sp)
		}
		// everything still recorded must be re-sent now (PUBLISH with DUP, PUBREL as is)
		got := map[packet.ID]string{}
		for len(got) < len(expect) {
			j := l.Broker.WaitFor(1+len(got), func(packet.Generic) bool { return true }, ev.Ceiling())
			if j < 0 {
				break
			}
			g := l.Broker.Inbox[j]
			id, _ := packet.GetID(g)
			if p, ok := g.(*packet.Publish); ok && !p.Dup && !r.t() {
				r.fail("resume/retransmission-without-dup", "PUBLISH id=%d re-sent after reconnect without DUP", id)
			}
			got[id] = g.Type().String()
		}
		if fmtStore(got) != fmtStore(expect) {
			if !r.linkDead() && !r.t() {
				r.fail("resume/not-retransmitted", "the session held [%s] when the client connected (clean session off); it re-sent [%s]", fmtStore(expect), fmtStore(got))
			}
			r.tainted = true
			r.endLife("resend-failed", cf)
			continue
		}
		// the fake broker completes the re-sent handshakes; nothing stays recorded
		for id, typ := range got {
			if typ == "Publish" {
				var q packet.QOS
				for _, g := range l.Broker.Inbox {
					if p, ok := g.(*packet.Publish); ok && p.ID == id {
						q = p.Message.QOS
					}
				}
				if q == 1 {
					_ = l.Broker.Send(&packet.Puback{ID: id})
				} else {
					_ = l.Broker.Send(&packet.Pubrec{ID: id})
					id := id
					if l.Broker.WaitFor(1, func(g packet.Generic) bool { x, ok := g.(*packet.Pubrel); return ok && x.ID == id }, ev.Ceiling()) < 0 && !r.linkDead() {
						// (judged after an earlier injected fault too: this is a new, live connection)
						r.fail("resume/pubrec-not-answered", "the QoS 2 PUBLISH id=%d re-sent after the reconnect was answered with PUBREC, but the client never sent PUBREL (connection alive): the handshake of the recorded packet cannot finish", id)
						return false
					}
					_ = l.Broker.Send(&packet.Pubcomp{ID: id})
				}
			} else {
				_ = l.Broker.Send(&packet.Pubcomp{ID: id})
			}
			delete(r.model, id)
		}
		r.scan = len(l.Broker.Inbox)
		// a SUBSCRIBE round trip: the client has finished its CONNACK handling when it completes
		if !r.sync() {
			r.tainted = true
			r.endLife("sync-failed", cf)
			continue
		}
		r.checkStore("after the resumed handshakes were completed")
		r.accessors("connected", cf)
		return r.pending == nil
	}
	if r.pending == nil {
		r.fail("harness/connect-loop", "could not establish a connection")
	}
	return false
}

func (r *runner) sync() bool {
	sf, err := r.cl.Subscribe("c09/sync", 0)
	if err != nil {
		return false
	}
	i := r.link.Broker.WaitFor(r.scan, func(g packet.Generic) bool { return g.Type() == packet.SUBSCRIBE }, ev.Ceiling())
	if i < 0 {
		return false
	}
	r.scan = i + 1
	_ = r.link.Broker.Send(&packet.Suback{ID: r.link.Broker.Inbox[i].(*packet.Subscribe).ID, ReturnCodes: []packet.QOS{0}})
	return sf.Wait(ev.Ceiling()) == nil
}

func (r *runner) book(l *fb.Link) {
	r.consumed += l.ClientEnd.Ops()
	if r.c.FailAt > 0 && r.consumed >= r.c.FailAt {
		r.faultDone = true
	}
}

// endLife: the live client's connection is over (or is being ended now by
// how = close/disconnect). Afterwards every future is resolved and Close returned.
func (r *runner) endLife(how string, cf client.ConnectFuture) {
	cl, l := r.cl, r.link
	if cl == nil {
		return
	}
	switch {
	case how == "close":
		if !within(func() { _ = cl.Close() }) {
			r.fail("liveness/close-hangs", "Client.Close did not return\n--- library goroutines ---\n%s", strings.Join(bk.LibGoroutines(), "\n\n"))
		}
	case strings.HasPrefix(how, "disconnect"):
		var idx int
		fmt.Sscanf(how, "disconnect-%d", &idx)
		// no timeout, 1 ms, 2 ms, and one that has expired before the wait begins
		d := []time.Duration{0, time.Millisecond, 2 * time.Millisecond, time.Nanosecond}[idx%4]
		ok := within(func() {
			if d > 0 {
				_ = cl.Disconnect(d)
			} else {
				_ = cl.Disconnect()
			}
		})
		if !ok {
			r.fail("liveness/disconnect-hangs", "Client.Disconnect did not return\n--- library goroutines ---\n%s", strings.Join(bk.LibGoroutines(), "\n\n"))
		}
		if ok && !r.t() && l != nil {
			// DISCONNECT must be the last packet the broker sees
			l.Broker.WaitEOF(ev.Ceiling())
			if n := len(l.Broker.Inbox); n == 0 || l.Broker.Inbox[n-1].Type() != packet.DISCONNECT {
				r.fail("disconnect/packet-missing", "Disconnect returned but the broker's last packet is not DISCONNECT")
			}
		}
	case how == "drop":
		l.Broker.Drop()
	}
	// every future of this life is resolved now (completed earlier or cancelled)
	for _, q := range r.all {
		if q.life != r.life || q.fut == nil {
			continue
		}
		err := q.fut.Wait(ev.Ceiling())
		if err == future.ErrTimeout {
			r.fail("future/unresolved-after-end", "the connection ended (%s) but the future of %s id=%d is neither completed nor cancelled: a caller would block forever", how, q.kind, q.id)
			break
		}
	}
	if how != "close" {
		if !within(func() { _ = cl.Close() }) {
			r.fail("liveness/close-hangs", "Client.Close did not return after the connection ended (%s)\n--- library goroutines ---\n%s", how, strings.Join(bk.LibGoroutines(), "\n\n"))
		}
	}
	// ... and so is the connect future of this client (state independent: judged after faults too)
	if cf != nil && r.pending == nil {
		if err := cf.Wait(ev.Ceiling()); err == future.ErrTimeout {
			r.fail("future/unresolved-after-end:connect", "the client ended (%s) and Close returned, but its connect future is neither completed nor cancelled: a caller waiting for it would block forever", how)
		}
	}
	if l != nil {
		l.Broker.Drop()
		r.book(l)
	}
	r.accessors("after "+how, cf)
	r.out = nil
	r.cl, r.link = nil, nil
	r.checkStore("after the client ended (" + how + ")")
}

func (r *runner) live() bool {
	if r.cl != nil && r.linkDead() {
		r.tainted = r.tainted || r.c.FailAt > 0
		r.endLife("connection-lost", nil)
	}
	if r.cl == nil {
		return r.connect()
	}
	return r.pending == nil
}

// api performs one API call and waits until the packet reached the broker.
func (r *runner) api(kind string, qos int) {
	if !r.live() {
		return
	}
	r.nmsg++
	q := &req{kind: kind, qos: qos, life: r.life, state: "sent", tag: fmt.Sprintf("r%d", r.nmsg)}
	var err error
	switch kind {
	case "pub":
		q.fut, err = r.cl.Publish("c09/t", []byte(q.tag), packet.QOS(qos), false)
	case "sub":
		q.sfut, err = r.cl.Subscribe("c09/"+q.tag, 1)
		q.fut = q.sfut
	case "unsub":
		q.fut, err = r.cl.Unsubscribe("c09/" + q.tag)
	}
	if err != nil {
		if !r.t() && !r.linkDead() && r.c.SessFailAt == 0 {
			r.fail("api/error", "%s returned %v on a live connection", kind, err)
		}
		r.tainted = true
		q.fut, q.sfut = nil, nil
		r.endLife("api-error", nil)
		return
	}
	r.all = append(r.all, q)
	want := map[string]packet.Type{"pub": packet.PUBLISH, "sub": packet.SUBSCRIBE, "unsub": packet.UNSUBSCRIBE}[kind]
	i := r.link.Broker.WaitFor(r.scan, func(g packet.Generic) bool { return g.Type() == want }, ev.Ceiling())
	if i < 0 {
		if !r.linkDead() && !r.t() {
			r.fail("api/packet-not-sent", "%s returned nil but the packet never reached the broker", kind)
		}
		r.tainted = true
		r.endLife("connection-lost", nil)
		return
	}
	r.scan = i + 1
	q.id, _ = packet.GetID(r.link.Broker.Inbox[i])
	if kind == "pub" && qos == 0 {
		if err := q.fut.Wait(ev.Ceiling()); err != nil && !r.t() {
			r.fail("future/qos0", "a QoS 0 publish that was handed to the connection has future state %v", err)
		}
		return
	}
	if kind == "pub" {
		r.model[q.id] = "Publish"
	}
	r.out = append(r.out, q)
	r.notYet(q, "before any acknowledgement")
	r.checkStore("after " + kind)
}

func (r *runner) notYet(q *req, when string) {
	if r.t() || r.pending != nil {
		return
	}
	if err := q.fut.Wait(300 * time.Microsecond); err != future.ErrTimeout && !r.t() && !r.linkDead() {
		r.fail("future/completed-early", "%s: the future of %s id=%d reports %v although the broker has not acknowledged it", when, q.kind, q.id, err)
	}
}

func (r *runner) done(q *req) {
	if r.t() || r.pending != nil {
		return
	}
	if err := q.fut.Wait(ev.Ceiling()); err != nil {
		if r.linkDead() || r.t() { // the injected fault may have fired while waiting
			return
		}
		r.fail("future/not-completed", "the broker acknowledged %s id=%d but its future reports %v", q.kind, q.id, err)
	}
}

func (r *runner) remove(q *req) {
	var keep []*req
	for _, x := range r.out {
		if x != q {
			keep = append(keep, x)
		}
	}
	r.out = keep
}

func (r *runner) ack(n int, recOnly bool) {
	if r.cl == nil || len(r.out) == 0 || r.linkDead() {
		return
	}
	q := r.out[n%len(r.out)]
	b := r.link.Broker
	switch {
	case q.kind == "sub":
		if recOnly {
			return
		}
		_ = b.Send(&packet.Suback{ID: q.id, ReturnCodes: []packet.QOS{1}})
		r.done(q)
		if !r.t() && r.pending == nil {
			if rc := q.sfut.ReturnCodes(); len(rc) != 1 || rc[0] != 1 {
				r.fail("future/subscribe-result", "ReturnCodes() = %v, SUBACK had [1]", rc)
			}
		}
		r.remove(q)
	case q.kind == "unsub":
		if recOnly {
			return
		}
		_ = b.Send(&packet.Unsuback{ID: q.id})
		r.done(q)
		r.remove(q)
	case q.qos == 1:
		if recOnly {
			return
		}
		_ = b.Send(&packet.Puback{ID: q.id})
		delete(r.model, q.id)
		r.done(q)
		r.remove(q)
	default: // QoS 2
		if q.state == "sent" {
			_ = b.Send(&packet.Pubrec{ID: q.id})
			id := q.id
			i := b.WaitFor(r.scan, func(g packet.Generic) bool { x, ok := g.(*packet.Pubrel); return ok && x.ID == id }, ev.Ceiling())
			if i < 0 {
				if !r.linkDead() && !r.t() {
					r.fail("qos2/no-pubrel", "PUBREC id=%d was not answered by PUBREL", q.id)
				}
				return
			}
			q.state = "rec"
			r.model[q.id] = "Pubrel"
			r.notYet(q, "after PUBREC, before PUBCOMP")
			r.checkStore("after PUBREC")
		}
		if recOnly {
			return
		}
		_ = b.Send(&packet.Pubcomp{ID: q.id})
		delete(r.model, q.id)
		r.done(q)
		r.remove(q)
	}
	if !r.linkDead() {
		// the deletion happens before the future completes; a sync makes the store check race free
		r.checkStore("after the acknowledgement")
	}
}

func runCase(c *Case) (*verdict, *runner) {
	log := memconn.NewLog()
	r := &runner{c: c, log: log, d: fb.NewDialer(log), sess: fb.NewSession(log), model: map[packet.ID]string{}, stats: map[string]int{}}
	if c.SessFailAt > 0 {
		r.sess.FailAt(c.SessFailAt)
	}
	defer func() {
		if r.cl != nil {
			cl := r.cl
			go cl.Close()
		}
	}()
	for _, op := range c.Ops {
		if r.pending != nil {
			break
		}
		if c.SessFailAt > 0 && r.sess.Ops() >= c.SessFailAt {
			r.tainted = true
		}
		switch op.Kind {
		case "pub0", "pub1", "pub2":
			r.api("pub", int(op.Kind[3]-'0'))
		case "sub", "unsub":
			r.api(op.Kind, 0)
		case "burst":
			if !r.live() {
				continue
			}
			n := 2 + op.N%3
			var wg sync.WaitGroup
			qs := make([]*req, n)
			errs := make([]error, n)
			for k := 0; k < n; k++ {
				k := k
				r.nmsg++
				qs[k] = &req{kind: "pub", qos: 1, life: r.life, state: "sent", tag: fmt.Sprintf("r%d", r.nmsg)}
				wg.Add(1)
				go func() {
					defer wg.Done()
					qs[k].fut, errs[k] = r.cl.Publish("c09/t", []byte(qs[k].tag), 1, false)
				}()
			}
			wg.Wait()
			bad := false
			for k := 0; k < n; k++ {
				if errs[k] != nil {
					bad = true
				}
			}
			if bad {
				r.tainted = true
				r.endLife("api-error", nil)
				continue
			}
			got := 0
			for got < n {
				i := r.link.Broker.WaitFor(r.scan, func(g packet.Generic) bool { return g.Type() == packet.PUBLISH }, ev.Ceiling())
				if i < 0 {
					break
				}
				r.scan = i + 1
				p := r.link.Broker.Inbox[i].(*packet.Publish)
				for _, q := range qs {
					if q.tag == string(p.Message.Payload) {
						q.id = p.ID
					}
				}
				got++
			}
			if got < n {
				r.tainted = true
				r.endLife("connection-lost", nil)
				continue
			}
			ids := map[packet.ID]bool{}
			for _, q := range qs {
				if ids[q.id] && !r.t() {
					r.fail("ids/duplicate", "concurrent publishes were sent with the same packet id %d", q.id)
				}
				ids[q.id] = true
				r.model[q.id] = "Publish"
				r.all = append(r.all, q)
				r.out = append(r.out, q)
			}
			r.checkStore("after concurrent publishes")
			r.stats["concurrent-publishes"]++
		case "ack":
			r.ack(op.N, false)
		case "rec":
			var q2 []*req
			for _, q := range r.out {
				if q.kind == "pub" && q.qos == 2 && q.state == "sent" {
					q2 = append(q2, q)
				}
			}
			if len(q2) > 0 && r.cl != nil && !r.linkDead() {
				q := q2[op.N%len(q2)]
				for i, x := range r.out {
					if x == q {
						r.ack(i, true)
					}
				}
			}
		case "stray":
			if r.cl != nil && !r.linkDead() {
				pkts := []packet.Generic{&packet.Puback{ID: 4242}, &packet.Pubcomp{ID: 4243}, &packet.Suback{ID: 4244, ReturnCodes: []packet.QOS{0}}, &packet.Unsuback{ID: 4245}, &packet.Pubrec{ID: 4246}, packet.NewPingresp()}
				_ = r.link.Broker.Send(pkts[op.N%len(pkts)])
				if op.N%len(pkts) == 4 {
					// the client answers an unknown PUBREC with PUBREL and records it; complete that flow
					i := r.link.Broker.WaitFor(r.scan, func(g packet.Generic) bool { x, ok := g.(*packet.Pubrel); return ok && x.ID == 4246 }, ev.Ceiling())
					if i >= 0 {
						_ = r.link.Broker.Send(&packet.Pubcomp{ID: 4246})
					}
				}
				if r.sync() {
					for _, q := range r.out {
						r.notYet(q, "after an acknowledgement for an unrelated id")
					}
					r.checkStore("after a stray acknowledgement")
				}
				r.stats["stray-acks"]++
			}
		case "drop":
			if r.cl != nil {
				r.endLife("drop", nil)
				r.stats["ends"]++
			}
		case "close":
			if r.cl != nil {
				r.endLife("close", nil)
				r.stats["ends"]++
			}
		case "disconnect":
			if r.cl != nil {
				r.endLife(fmt.Sprintf("disconnect-%d", op.N%4), nil)
				r.stats["ends"]++
			}
		case "deny", "wrongfirst":
			if r.cl == nil {
				r.nextConn = op.Kind
				r.stats["refused-connects"]++
			}
		}
	}
	if r.pending == nil && r.cl != nil {
		r.endLife("close", nil)
	}
	if r.pending == nil {
		// history: a PUBLISH (QoS>0) or PUBREL leaves the client only while the session holds it
		saved := map[uint16]bool{}
		for _, e := range log.Events() {
			switch {
			case e.Actor == "session" && e.Op == "SavePacket" && e.Note == "outgoing":
				saved[e.ID] = true
			case e.Actor == "session" && e.Op == "DeletePacket" && e.Note == "outgoing":
				delete(saved, e.ID)
			case e.Actor == "session" && e.Op == "Reset":
				saved = map[uint16]bool{}
			case strings.HasPrefix(e.Actor, "client#") && e.Op == "send" && ((e.Type == "Publish" && e.QoS > 0) || e.Type == "Pubrel"):
				if !saved[e.ID] && !r.t() {
					r.fail("store/sent-before-recorded", "%s id=%d left the client (event #%d) while the session did not hold it", e.Type, e.ID, e.Seq)
				}
			}
		}
	}
	return r.pending, r
}

func genCase(rt *rapid.T) *Case {
	c := &Case{}
	n := rapid.IntRange(1, 12).Draw(rt, "n")
	for i := 0; i < n; i++ {
		k := rapid.SampledFrom([]string{"pub0", "pub1", "pub1", "pub2", "pub2", "sub", "unsub", "burst", "ack", "ack", "ack", "rec", "stray", "drop", "close", "disconnect", "deny", "wrongfirst"}).Draw(rt, "kind")
		c.Ops = append(c.Ops, Op{Kind: k, N: rapid.IntRange(0, 5).Draw(rt, "n_arg")})
	}
	return c
}

func nontrivial(c *Case) bool {
	if c.FailAt > 0 || c.SessFailAt > 0 {
		return true
	}
	for i, op := range c.Ops {
		switch op.Kind {
		case "drop", "close", "disconnect", "deny", "wrongfirst", "rec", "stray", "burst":
			return true
		case "ack":
			if op.N > 0 && i > 1 {
				return true
			}
		}
	}
	return false
}

func TestC09(t *testing.T) {
	run := ev.Start("C09", "fault_enumeration")
	run.ShrinkTime = "3s" // a failing run re-enumerates every fault position; hangs cost a ceiling each
	run.Rule("scripts of 1-12 steps over {Publish QoS 0/1/2, Subscribe, Unsubscribe, 2-4 goroutines publishing at once; fake broker: acknowledge the k-th outstanding request (any order), PUBREC only, acknowledgement for an unrelated id, drop; Close; Disconnect without timeout / with 1-2 ms / with a timeout that has already expired when the wait begins (1 ns); next connect denied / answered by a wrong first packet}; each ended client is followed by a new client on the same session (clean session off, up to 6 lives). Every script runs fault free, then once per (operation k, before/after) on the client's connections and once per session call k failing. Oracle: a map model of the outgoing store compared after every step (PUBLISH until PUBACK/PUBCOMP, PUBREL once PUBREC arrived), everything recorded is re-sent after CONNACK (PUBLISH with DUP), history: nothing leaves the client unless the session holds it; futures: Wait times out before the acknowledgement for that id and returns nil after it, QoS 0 completes when handed over, after every connection end / Close / Disconnect all futures of that client are resolved and Close/Disconnect returned; accessors are called in every state under a panic guard. non-trivial = a drop, an out-of-order or missing acknowledgement, a reconnect with recorded packets, or a fault; distinct by (script, fault)")
	run.Assume("after an injected fault only the state independent clauses are judged (no panic, no hang, all futures resolved after Close)", "API calls are issued only after a SUBSCRIBE round trip following CONNACK (the client re-sends session content while handling CONNACK; a Publish racing with that is re-sent once more with DUP, which no listed property forbids)")
	defer run.Finish(t)
	faultRuns := 0
	exec := func(c *Case, report func(*verdict, *Case)) {
		run.Eval(1)
		run.Inflight(c)
		v, r := runCase(c)
		run.ClearInflight()
		if nontrivial(c) {
			run.NonTrivialJSON(c)
		}
		for k, n := range r.stats {
			run.ClassN(k, n)
		}
		if v != nil {
			report(v, c)
			return
		}
		connOps, sessOps := r.consumed, r.sess.Ops()
		for k := int64(1); k <= connOps; k++ {
			for _, after := range []bool{false, true} {
				fc := &Case{Ops: c.Ops, FailAt: k, After: after}
				faultRuns++
				run.Eval(1)
				run.Inflight(fc)
				t0 := time.Now()
				fv, _ := runCase(fc)
				if d := time.Since(t0); d > 500*time.Millisecond && os.Getenv("VERIF_SLOWLOG") != "" {
					b, _ := json.Marshal(fc)
					fmt.Printf("SLOW %v %s\n", d, b)
				}
				run.ClearInflight()
				run.NonTrivialJSON(fc)
				if fv != nil {
					report(fv, fc)
					return
				}
			}
		}
		for k := int64(1); k <= sessOps; k++ {
			fc := &Case{Ops: c.Ops, SessFailAt: k}
			faultRuns++
			run.Eval(1)
			run.Inflight(fc)
			fv, _ := runCase(fc)
			run.ClearInflight()
			run.NonTrivialJSON(fc)
			if fv != nil {
				report(fv, fc)
				return
			}
		}
	}
	fixed := []*Case{
		{Ops: []Op{{"pub1", 0}, {"pub2", 0}, {"rec", 0}, {"drop", 0}, {"pub1", 0}, {"ack", 0}}},
		{Ops: []Op{{"sub", 0}, {"pub2", 0}, {"ack", 1}, {"ack", 0}, {"close", 0}, {"deny", 0}, {"pub0", 0}}},
		{Ops: []Op{{"burst", 2}, {"ack", 2}, {"stray", 4}, {"disconnect", 1}, {"wrongfirst", 0}, {"unsub", 0}, {"ack", 0}}},
		{Ops: []Op{{"pub1", 0}, {"pub2", 0}, {"disconnect", 3}, {"pub1", 0}, {"ack", 0}}}, // F18: Disconnect(1ns) with unacknowledged publishes
	}
	if shard, _ := ev.Shard(); shard == 0 {
		for _, c := range fixed {
			exec(c, func(v *verdict, fc *Case) { run.Violation(v.sig, v.msg, fc) })
		}
	}
	run.Rapid(t, "scripts", ev.Pick(200, 8000), func(rt *rapid.T) {
		c := genCase(rt)
		exec(c, func(v *verdict, fc *Case) {
			if run.Open(v.sig) {
				run.Excluded(v.sig)
				return
			}
			run.Candidate(v.sig, v.msg, fc)
			rt.Fatalf("%s: %s", v.sig, v.msg)
		})
	})
	run.Set("fault_positions_enumerated", faultRuns)
}

func TestReplay(t *testing.T) {
	var c Case
	ok, err := ev.ReplayCase(&c)
	if !ok {
		t.Skip("no VERIF_REPLAY")
	}
	if err != nil {
		t.Fatal(err)
	}
	for i := 0; i < 5; i++ {
		if v, _ := runCase(&c); v != nil {
			t.Fatalf("VIOLATION reproduced: %s: %s", v.sig, v.msg)
		}
	}
	t.Log("case passes")
}
