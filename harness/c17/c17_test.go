// C17 — the service survives any failure sequence.
package c17

import (
	"fmt"
	"os"
	"sort"
	"strings"
	"sync"
	"testing"
	"time"

	"github.com/256dpi/gomqtt/client"
	"github.com/256dpi/gomqtt/client/future"
	"github.com/256dpi/gomqtt/packet"
	"pgregory.net/rapid"

	"verif/internal/bk"
	"verif/internal/ev"
	"verif/internal/fb"
	"verif/internal/memconn"
)

// Step of a service script.
//
//	sub T Q / unsub T     Service.Subscribe / Unsubscribe on topic number T
//	pub0 / pub1           Service.Publish
//	burst                 three goroutines issue a subscribe, a publish and an unsubscribe at once (distinct topics)
//	fail M                the next connection attempt (or the live connection, for drop modes) fails in mode M:
//	                      refuse | unsendable | no-connack | denied | drop-after-K | suback-fail | drop-on-pub1
//	kick                  the fake broker drops the live connection now
//	reconnect             kick, then wait until online
//	online                wait until the service is online again and answers a QoS 1 round trip
//	stop / stopclear      Service.Stop(false) / Stop(true)
//	start                 Service.Start
type Step struct {
	Kind string `json:"k"`
	T    int    `json:"t,omitempty"`
	Q    int    `json:"q,omitempty"`
	M    string `json:"m,omitempty"`
}

// Case is a script and the session mode.
type Case struct {
	Clean bool   `json:"clean"`
	Steps []Step `json:"steps"`
}

type verdict struct{ sig, msg string }

type call struct {
	kind  string // sub unsub pub0 pub1
	topic string
	qos   int
	tag   string
	fut   client.GenericFuture
	epoch int  // number of Stop(true) calls before it
	sync  bool // an online barrier passed after the call: the command has been dispatched
}

type world struct {
	c   *Case
	log *memconn.Log
	d   *fb.Dialer
	svc *client.Service

	lostUnsub int // topics left subscribed by an unacknowledged UNSUBSCRIBE (finding F17)

	mu        sync.Mutex
	queue     []string       // pending failure modes for coming connection attempts
	modeOf    map[int]string // mode chosen for link n
	subs      map[string]int // the fake broker's view of the session's subscriptions
	hadSess   bool
	live      *fb.Link // the latest connection that was accepted with CONNACK(0)
	liveN     int
	seenPub   map[string]int  // payload tag -> times received
	seenFirst map[string]bool // payload tag -> first transmission (DUP=0) received
	seenSub   map[string]bool // topic seen in a SUBSCRIBE
	seenUnsub map[string]bool
	errors    []string
	attempts  int
	twice     string // a command that was carried out twice on one connection

	calls    []*call
	started  bool
	epoch    int
	nsent    int
	quit     chan struct{}
	wg       sync.WaitGroup
	failures int
}

func (w *world) fail(sig, format string, a ...interface{}) *verdict {
	d := w.log.Dump()
	if len(d) > 16000 {
		d = d[:3000] + "\n...\n" + d[len(d)-13000:]
	}
	w.mu.Lock()
	errs := strings.Join(w.errors, " | ")
	w.mu.Unlock()
	return &verdict{sig, fmt.Sprintf(format, a...) + "\nservice errors: " + errs + "\n--- event log ---\n" + d}
}

// topic 3 lies below topic 0, so that the subscription record has a parent and a child
func topic(t int) string {
	if t == 3 {
		return "c17/t0/x"
	}
	return fmt.Sprintf("c17/t%d", t)
}

// plan is the Dialer's hook: it picks the failure mode of connection attempt n.
func (w *world) plan(n int) (bool, func(*memconn.Conn)) {
	w.mu.Lock()
	defer w.mu.Unlock()
	w.attempts++
	mode := ""
	if len(w.queue) > 0 {
		mode, w.queue = w.queue[0], w.queue[1:]
	}
	w.modeOf[n] = mode
	switch mode {
	case "refuse":
		return true, nil
	case "unsendable":
		return false, func(ce *memconn.Conn) { ce.FailAt, ce.FailAfter = 1, false }
	}
	return false, nil
}

func (w *world) acceptor() {
	defer w.wg.Done()
	for {
		select {
		case <-w.quit:
			return
		default:
		}
		l := w.d.Next(2 * time.Millisecond)
		if l == nil {
			continue
		}
		w.wg.Add(1)
		go w.serve(l)
	}
}

func (w *world) serve(l *fb.Link) {
	defer w.wg.Done()
	w.mu.Lock()
	mode := w.modeOf[l.N]
	w.mu.Unlock()
	b := l.Broker
	done := func() bool {
		select {
		case <-w.quit:
			return true
		default:
			return b.EOF
		}
	}
	scan, post := 0, 0
	idsSeen := map[packet.ID]string{}
	accepted := false
	subackFailed := false
	for !done() {
		b.PumpWait(time.Millisecond)
		for ; scan < len(b.Inbox); scan++ {
			switch g := b.Inbox[scan].(type) {
			case *packet.Connect:
				w.mu.Lock()
				if l.N < w.liveN {
					// a connection the service has long given up (this goroutine lagged
					// behind): a real broker would see its CONNECT before the newer one
					w.mu.Unlock()
					b.Drop()
					return
				}
				if g.CleanSession {
					w.subs = map[string]int{}
					w.hadSess = false
				}
				sp := !g.CleanSession && w.hadSess
				if !g.CleanSession {
					w.hadSess = true
				}
				w.mu.Unlock()
				switch mode {
				case "no-connack":
					continue
				case "denied":
					_ = b.Send(fb.Connack(packet.NotAuthorized, false))
					continue
				}
				_ = b.Send(fb.Connack(packet.ConnectionAccepted, sp))
				accepted = true
				w.mu.Lock()
				w.live, w.liveN = l, l.N
				w.mu.Unlock()
				if mode == "drop-after-0" {
					b.Drop()
					return
				}
				continue
			case *packet.Subscribe:
				codes := make([]packet.QOS, len(g.Subscriptions))
				if mode == "suback-fail" && !subackFailed {
					subackFailed = true
					for i := range codes {
						codes[i] = packet.QOSFailure
					}
				} else {
					w.mu.Lock()
					for i, s := range g.Subscriptions {
						if l.N == w.liveN {
							w.subs[s.Topic] = int(s.QOS)
						}
						w.seenSub[s.Topic] = true
						codes[i] = s.QOS
					}
					w.mu.Unlock()
				}
				_ = b.Send(&packet.Suback{ID: g.ID, ReturnCodes: codes})
			case *packet.Unsubscribe:
				w.mu.Lock()
				for _, t := range g.Topics {
					if l.N == w.liveN {
						delete(w.subs, t)
					}
					w.seenUnsub[t] = true
				}
				w.mu.Unlock()
				_ = b.Send(&packet.Unsuback{ID: g.ID})
			case *packet.Publish:
				w.mu.Lock()
				w.seenPub[string(g.Message.Payload)]++
				if !g.Dup {
					w.seenFirst[string(g.Message.Payload)] = true
				}
				if g.Message.QOS > 0 {
					if prev, dup := idsSeen[g.ID]; dup && prev == string(g.Message.Payload) && w.twice == "" {
						w.twice = fmt.Sprintf("publish %s (id %d) was transmitted twice on connection %d (second time dup=%v)", prev, g.ID, l.N, g.Dup)
					}
					idsSeen[g.ID] = string(g.Message.Payload)
				}
				w.mu.Unlock()
				if g.Message.QOS == 1 {
					if mode == "drop-on-pub1" && !strings.HasPrefix(string(g.Message.Payload), "probe") {
						b.Drop()
						return
					}
					_ = b.Send(&packet.Puback{ID: g.ID})
				}
			case *packet.Pingreq:
				_ = b.Send(packet.NewPingresp())
			}
			if accepted {
				post++
				var k int
				if n, _ := fmt.Sscanf(mode, "drop-after-%d", &k); n == 1 && post >= k {
					b.Drop()
					return
				}
			}
		}
	}
}

func (w *world) kick() {
	w.mu.Lock()
	l := w.live
	w.mu.Unlock()
	if l != nil {
		l.Broker.C.Close()
	}
}

// online: the schedule of failures is finite, so the service must come back:
// a QoS 1 probe published through the service must complete.
func (w *world) online() *verdict {
	deadline := time.Now().Add(ev.Ceiling())
	for {
		w.mu.Lock()
		w.nsent++
		n := w.nsent
		w.mu.Unlock()
		f := w.svc.Publish("c17/probe", []byte(fmt.Sprintf("probe-%d", n)), 1, false)
		left := time.Until(deadline)
		if left > 150*time.Millisecond {
			left = 150 * time.Millisecond
		}
		if left <= 0 {
			left = time.Millisecond
		}
		if err := f.Wait(left); err == nil {
			w.mu.Lock()
			for _, cl := range w.calls {
				cl.sync = true
			}
			w.mu.Unlock()
			return nil
		}
		if time.Now().After(deadline) {
			w.mu.Lock()
			q, att := len(w.queue), w.attempts
			w.mu.Unlock()
			return w.fail("service/not-online", "all injected failures are used up (%d left in the schedule, %d connection attempts so far) but a QoS 1 publish through the service is not acknowledged within %v\n--- library goroutines ---\n%s", q, att, ev.Ceiling(), strings.Join(bk.LibGoroutines(), "\n\n"))
		}
	}
}

func within(f func()) bool {
	done := make(chan struct{})
	go func() { f(); close(done) }()
	select {
	case <-done:
		return true
	case <-time.After(ev.Ceiling()):
		return false
	}
}

func (w *world) do(kind string, t, q int) {
	c := &call{kind: kind, topic: topic(t), qos: q, epoch: w.epoch}
	switch kind {
	case "sub":
		c.fut = w.svc.Subscribe(c.topic, packet.QOS(q))
	case "unsub":
		c.fut = w.svc.Unsubscribe(c.topic)
	case "pub0", "pub1":
		w.mu.Lock()
		w.nsent++
		c.tag = fmt.Sprintf("msg-%d", w.nsent)
		w.mu.Unlock()
		c.fut = w.svc.Publish("c17/data", []byte(c.tag), packet.QOS(int(kind[3]-'0')), false)
	}
	w.mu.Lock()
	w.calls = append(w.calls, c)
	w.mu.Unlock()
}

func runCase(c *Case) (*verdict, *world) {
	log := memconn.NewLog()
	w := &world{c: c, log: log, d: fb.NewDialer(log), modeOf: map[int]string{}, subs: map[string]int{}, seenPub: map[string]int{}, seenFirst: map[string]bool{}, seenSub: map[string]bool{}, seenUnsub: map[string]bool{}, quit: make(chan struct{})}
	w.d.Plan = w.plan
	cfg := client.NewConfigWithClientID("mem://b", "c17")
	cfg.Dialer = w.d
	cfg.KeepAlive = "0s"
	cfg.CleanSession = c.Clean
	svc := client.NewService(200)
	svc.MinReconnectDelay = time.Millisecond
	svc.MaxReconnectDelay = 4 * time.Millisecond
	svc.ConnectTimeout = 40 * time.Millisecond * ev.Slow()
	svc.ResubscribeTimeout = 40 * time.Millisecond * ev.Slow()
	svc.DisconnectTimeout = 20 * time.Millisecond * ev.Slow()
	sess := fb.NewSession(log)
	sess.Slow = func(op string) {
		if op == "AllPackets" {
			time.Sleep(150 * time.Microsecond) // a session store that is not instantaneous
		}
	}
	svc.Session = sess
	svc.ErrorCallback = func(err error) {
		w.mu.Lock()
		w.errors = append(w.errors, err.Error())
		w.mu.Unlock()
		time.Sleep(300 * time.Microsecond) // an application that logs its errors
	}
	w.svc = svc
	w.wg.Add(1)
	go w.acceptor()
	defer func() {
		if w.started {
			within(func() { svc.Stop(true) })
		}
		close(w.quit)
		w.kick()
		w.wg.Wait()
	}()
	svc.Start(cfg)
	w.started = true
	for _, st := range c.Steps {
		switch st.Kind {
		case "sub", "unsub", "pub0", "pub1":
			w.do(st.Kind, st.T, st.Q)
		case "burst":
			var wg sync.WaitGroup
			for i, k := range []string{"sub", "pub1", "unsub"} {
				i, k := i, k
				wg.Add(1)
				go func() { defer wg.Done(); w.do(k, 10+i, 1) }()
			}
			wg.Wait()
		case "fail":
			w.mu.Lock()
			w.queue = append(w.queue, st.M)
			w.mu.Unlock()
			w.failures++
		case "kick":
			w.kick()
		case "reconnect":
			w.kick()
			if w.started {
				if v := w.online(); v != nil {
					return v, w
				}
			}
		case "online":
			if w.started {
				if v := w.online(); v != nil {
					return v, w
				}
			}
		case "stop", "stopclear":
			if w.started {
				clear := st.Kind == "stopclear"
				if !within(func() { svc.Stop(clear) }) {
					return w.fail("liveness/stop-hangs", "Service.Stop(%v) did not return\n--- library goroutines ---\n%s", clear, strings.Join(bk.LibGoroutines(), "\n\n")), w
				}
				w.started = false
				if clear {
					// every future that was pending is cancelled now
					w.mu.Lock()
					calls := append([]*call{}, w.calls...)
					w.mu.Unlock()
					for _, cl := range calls {
						if cl.epoch != w.epoch || !cl.sync {
							continue // commands still waiting in the queue keep their futures (they run after the next Start)
						}
						if err := cl.fut.Wait(ev.Ceiling() / 4); err == future.ErrTimeout {
							return w.fail("stop/futures-not-cancelled", "Stop(true) returned but the future of %s %s%s is still pending", cl.kind, cl.topic, cl.tag), w
						}
					}
					w.epoch++
				}
			}
		case "start":
			if !w.started {
				svc.Start(cfg)
				w.started = true
			}
		}
	}
	// ---- final judgement: force one more reconnect (so that the subscription
	// record is what gets re-established), bring the service online and compare
	if !w.started {
		svc.Start(cfg)
		w.started = true
	}
	if v := w.online(); v != nil {
		return v, w
	}
	w.kick()
	if v := w.online(); v != nil {
		return v, w
	}
	w.mu.Lock()
	twice := w.twice
	w.mu.Unlock()
	if twice != "" {
		return w.fail("commands/carried-out-twice", "%s", twice), w
	}
	// expected final state per topic: every call counts, in call order (the queue
	// never fills up here, so no call is dropped before the dispatcher has
	// recorded it). One history is a recorded finding (KNOWN_FINDINGS.txt,
	// lostUnsubSig): with a persistent session an UNSUBSCRIBE whose
	// acknowledgement never arrived is not repeated after the reconnect, and
	// re-subscribing cannot undo it - the broker may be left with whatever an
	// earlier Subscribe call for that topic established.
	type opt struct {
		on  bool
		qos int
	}
	allowed := map[string][]opt{}
	lostUnsub := map[string][]opt{}
	earlier := map[string][]opt{}
	w.mu.Lock()
	calls := append([]*call{}, w.calls...)
	w.mu.Unlock()
	for _, cl := range calls {
		if cl.kind != "sub" && cl.kind != "unsub" {
			continue
		}
		// the probe round trip ordered every earlier acknowledgement before this point
		err := cl.fut.Wait(50 * time.Millisecond)
		nw := opt{on: cl.kind == "sub", qos: cl.qos}
		allowed[cl.topic] = []opt{nw}
		switch {
		case cl.kind == "sub":
			earlier[cl.topic] = append(earlier[cl.topic], nw)
			delete(lostUnsub, cl.topic)
		case err == nil:
			earlier[cl.topic] = nil
			delete(lostUnsub, cl.topic)
		case !c.Clean:
			// not acknowledged (lost with its connection, or cancelled)
			lostUnsub[cl.topic] = append([]opt{}, earlier[cl.topic]...)
		}
	}
	// the probe round trip above proves that every earlier command was dispatched
	w.mu.Lock()
	view := map[string]int{}
	for t, q := range w.subs {
		view[t] = q
	}
	seenPub := map[string]int{}
	for k, v := range w.seenPub {
		seenPub[k] = v
	}
	seenFirst := map[string]bool{}
	for k, v := range w.seenFirst {
		seenFirst[k] = v
	}
	w.mu.Unlock()
	topics := map[string]bool{}
	for t := range allowed {
		topics[t] = true
	}
	for t := range view {
		topics[t] = true
	}
	var names []string
	for t := range topics {
		names = append(names, t)
	}
	sort.Strings(names)
	for _, t := range names {
		q, on := view[t]
		opts := allowed[t]
		if opts == nil {
			opts = []opt{{on: false}}
		}
		ok := false
		for _, o := range opts {
			if o.on == on && (!on || o.qos == q) {
				ok = true
			}
		}
		if !ok && on {
			for _, o := range lostUnsub[t] {
				if o.qos == q {
					ok = true
					w.lostUnsub++
				}
			}
		}
		if !ok {
			return w.fail("subscriptions/mismatch", "after %d connection attempts the broker holds for topic %s: subscribed=%v qos=%d; the calls made so far allow %+v (broker view %v)", w.attempts, t, on, q, opts, view), w
		}
	}
	for _, cl := range calls {
		if cl.kind != "pub1" && cl.kind != "pub0" {
			continue
		}
		err := cl.fut.Wait(50 * time.Millisecond)
		switch {
		case err == nil && seenPub[cl.tag] == 0 && cl.kind == "pub1": // (a QoS 0 future completes when the packet is handed to the connection)
			return w.fail("future/completed-without-delivery", "the future of publish %s completed but the broker never received it", cl.tag), w
		case err == future.ErrCanceled && !c.Clean && cl.kind == "pub1" && cl.epoch == w.epoch && seenFirst[cl.tag]:
			return w.fail("future/cancelled-despite-resume", "clean session is off and the broker received QoS 1 publish %s, so the packet is recorded and was retransmitted and acknowledged through the resumed session, but its future reports cancellation", cl.tag), w
		case err == future.ErrTimeout && !c.Clean && cl.kind == "pub1" && cl.epoch == w.epoch:
			return w.fail("future/not-completed-after-resume", "clean session is off, the service is online and the broker acknowledges everything, but the future of QoS 1 publish %s never completed (broker received it %d times)", cl.tag, seenPub[cl.tag]), w
		}
	}
	// Stop(true) always returns and leaves nothing pending; a restart comes online again
	if !within(func() { svc.Stop(true) }) {
		return w.fail("liveness/stop-hangs", "final Service.Stop(true) did not return\n--- library goroutines ---\n%s", strings.Join(bk.LibGoroutines(), "\n\n")), w
	}
	w.started = false
	for _, cl := range calls {
		if err := cl.fut.Wait(ev.Ceiling() / 4); err == future.ErrTimeout && cl.epoch == w.epoch {
			return w.fail("stop/futures-not-cancelled", "Stop(true) returned but the future of %s %s%s is still pending", cl.kind, cl.topic, cl.tag), w
		}
	}
	w.epoch++
	svc.Start(cfg)
	w.started = true
	if v := w.online(); v != nil {
		v.sig = "restart/" + v.sig
		return v, w
	}
	return nil, w
}

var modes = []string{"refuse", "unsendable", "no-connack", "denied", "drop-after-0", "drop-after-1", "drop-after-2", "drop-after-3", "suback-fail", "drop-on-pub1"}

func genCase(rt *rapid.T) *Case {
	c := &Case{Clean: rapid.Bool().Draw(rt, "clean")}
	n := rapid.IntRange(2, 14).Draw(rt, "n")
	fails := 0
	for i := 0; i < n; i++ {
		k := rapid.SampledFrom([]string{"sub", "sub", "sub", "unsub", "pub0", "pub1", "pub1", "fail", "fail", "kick", "kick", "reconnect", "reconnect", "online", "burst", "stop", "stopclear", "start"}).Draw(rt, "kind")
		st := Step{Kind: k}
		switch k {
		case "sub":
			st.T, st.Q = rapid.IntRange(0, 3).Draw(rt, "t"), rapid.IntRange(0, 2).Draw(rt, "q")
		case "unsub":
			st.T = rapid.IntRange(0, 3).Draw(rt, "t")
		case "fail":
			if fails >= 6 {
				continue
			}
			fails++
			st.M = rapid.SampledFrom(modes).Draw(rt, "mode")
		}
		c.Steps = append(c.Steps, st)
	}
	// most scripts get what makes them interesting by construction: an injected
	// failure and, somewhere behind it, a forced reconnect
	if !nontrivial(c) && rapid.IntRange(0, 4).Draw(rt, "plain") > 0 {
		at := rapid.IntRange(0, len(c.Steps)).Draw(rt, "fail_at")
		ins := []Step{{Kind: "fail", M: rapid.SampledFrom(modes).Draw(rt, "mode2")}}
		rest := append([]Step{}, c.Steps[at:]...)
		c.Steps = append(append(c.Steps[:at:at], ins...), rest...)
		at2 := rapid.IntRange(at+1, len(c.Steps)).Draw(rt, "kick_at")
		rest = append([]Step{}, c.Steps[at2:]...)
		c.Steps = append(append(c.Steps[:at2:at2], Step{Kind: rapid.SampledFrom([]string{"kick", "reconnect"}).Draw(rt, "kick_kind")}), rest...)
	}
	return c
}

func nontrivial(c *Case) bool {
	fail, kick := false, false
	for _, st := range c.Steps {
		if st.Kind == "fail" {
			fail = true
		}
		if st.Kind == "kick" || st.Kind == "reconnect" || st.Kind == "stop" || st.Kind == "stopclear" {
			kick = true
		}
	}
	return fail && kick
}

// lostUnsubSig names the recorded finding F17 (see KNOWN_FINDINGS.txt).
const lostUnsubSig = "subscriptions/lost-unsubscribe-persistent"

func TestC17(t *testing.T) {
	run := ev.Start("C17", "fault_enumeration")
	run.ShrinkTime = "5s"
	run.Rule("service scripts of 2-14 steps over {Subscribe/Unsubscribe on 4 topics (one nested below another), Publish QoS 0/1, three goroutines calling at once, push a failure mode for the next connection attempt, drop the live connection now, wait until online, Stop(false), Stop(true), Start}, clean session on and off; failure modes: dial refused, CONNECT unsendable, no CONNACK, CONNACK denied, drop after 0-3 packets (0 = during resubscribe), SUBACK with failure code, drop on the first QoS 1 publish before its PUBACK (at most 6 per script, then the fake broker is healthy). Oracle: the service comes online again (a QoS 1 probe completes within 10 s), the fake broker's subscription view for the session equals what all Subscribe/Unsubscribe calls so far imply (every call counts, in call order; the one recorded exception - an UNSUBSCRIBE that was not acknowledged before its connection ended, on a persistent session - is classified, counted and reported as KNOWN-FINDING), a completed publish future implies the broker received it, with clean session off every QoS 1 publish future completes once the resumed session's retransmission is acknowledged, Stop returns, Stop(true) leaves no future pending, a later Start comes online again. non-trivial = at least one injected failure and one forced reconnect or stop; distinct by script")
	run.Assume("service time-outs shortened (connect/resubscribe 40 ms, disconnect 20 ms, reconnect delay 1-4 ms)", "liveness is judged by a 10 s ceiling")
	defer run.Finish(t)
	exec := func(c *Case) *verdict {
		run.Eval(1)
		run.Inflight(c)
		v, w := runCase(c)
		run.ClearInflight()
		if v == nil && w.lostUnsub > 0 {
			if run.Open(lostUnsubSig) {
				run.Excluded(lostUnsubSig)
			} else {
				v = &verdict{lostUnsubSig, fmt.Sprintf("persistent session: an UNSUBSCRIBE that was not acknowledged before its connection ended was never repeated; after the reconnect the broker still holds the subscription (%d topic(s))\n%s", w.lostUnsub, w.log.Dump())}
			}
		}
		if nontrivial(c) {
			run.NonTrivialJSON(c)
		}
		for _, m := range w.modeOf {
			if m != "" {
				run.Class("mode=" + strings.TrimRight(m, "0123456789"))
			}
		}
		if c.Clean {
			run.Class("clean-session")
		} else {
			run.Class("persistent-session")
		}
		return v
	}
	fixed := []*Case{
		{Clean: true, Steps: []Step{{Kind: "sub", T: 0, Q: 1}, {Kind: "online"}, {Kind: "fail", M: "unsendable"}, {Kind: "fail", M: "refuse"}, {Kind: "kick"}, {Kind: "sub", T: 1, Q: 2}, {Kind: "unsub", T: 0}}},
		{Clean: false, Steps: []Step{{Kind: "sub", T: 0, Q: 1}, {Kind: "fail", M: "drop-on-pub1"}, {Kind: "kick"}, {Kind: "pub1"}, {Kind: "online"}, {Kind: "stop"}, {Kind: "sub", T: 2}, {Kind: "start"}}},
		{Clean: true, Steps: []Step{{Kind: "sub", T: 0, Q: 1}, {Kind: "sub", T: 1, Q: 0}, {Kind: "online"}, {Kind: "fail", M: "drop-after-0"}, {Kind: "fail", M: "no-connack"}, {Kind: "fail", M: "denied"}, {Kind: "kick"}, {Kind: "unsub", T: 1}, {Kind: "burst"}}},
		{Clean: false, Steps: []Step{{Kind: "online"}, {Kind: "stopclear"}, {Kind: "start"}, {Kind: "online"}, {Kind: "fail", M: "drop-on-pub1"}, {Kind: "reconnect"}, {Kind: "pub1"}, {Kind: "online"}}},
		{Clean: true, Steps: []Step{{Kind: "sub", T: 0, Q: 1}, {Kind: "sub", T: 1, Q: 1}, {Kind: "online"}, {Kind: "kick"}, {Kind: "unsub", T: 0}, {Kind: "sub", T: 2, Q: 2}, {Kind: "online"}, {Kind: "kick"}, {Kind: "sub", T: 3, Q: 0}}},
		{Clean: true, Steps: []Step{{Kind: "online"}, {Kind: "fail", M: "suback-fail"}, {Kind: "kick"}, {Kind: "sub", T: 3, Q: 1}, {Kind: "pub1"}, {Kind: "stopclear"}, {Kind: "start"}}},
	}
	// F17: the UNSUBSCRIBE of t2 leaves on a connection that drops after its third packet
	fixed = append(fixed, &Case{Clean: false, Steps: []Step{{Kind: "pub1"}, {Kind: "sub", T: 0, Q: 2}, {Kind: "fail", M: "drop-after-1"}, {Kind: "sub", T: 2, Q: 1}, {Kind: "sub", T: 0, Q: 2}, {Kind: "fail", M: "drop-after-3"}, {Kind: "start"}, {Kind: "stop"}, {Kind: "kick"}, {Kind: "sub", T: 0, Q: 2}, {Kind: "sub", T: 2, Q: 2}, {Kind: "sub", T: 2, Q: 2}, {Kind: "pub0"}, {Kind: "unsub", T: 2}}})
	if shard, _ := ev.Shard(); shard == 0 {
		for _, c := range fixed {
			if v := exec(c); v != nil {
				run.Violation(v.sig, v.msg, c)
			}
		}
	}
	run.Rapid(t, "scripts", ev.Pick(300, 8000), func(rt *rapid.T) {
		c := genCase(rt)
		if v := exec(c); v != nil {
			run.Candidate(v.sig, v.msg, c)
			rt.Fatalf("%s: %s", v.sig, v.msg)
		}
	})
}

func TestReplay(t *testing.T) {
	var c Case
	ok, err := ev.ReplayCase(&c)
	if !ok {
		t.Skip("no VERIF_REPLAY")
	}
	if err != nil {
		t.Fatal(err)
	}
	for i := 0; i < 5; i++ {
		v, w := runCase(&c)
		if v != nil {
			t.Fatalf("VIOLATION reproduced: %s: %s", v.sig, v.msg)
		}
		if os.Getenv("VERIF_FULLLOG") != "" && i == 0 {
			t.Log(w.log.Dump())
		}
	}
	t.Log("case passes")
}
