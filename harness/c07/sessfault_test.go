package c07

// Session faults on the broker side. The memory backend cannot be given a
// failing session (it asserts its own session type), so these runs use a
// minimal Backend of their own: it accepts every publish (and records that it
// did), never delivers anything, and hands each client id a session that
// wraps the library's MemorySession and fails its k-th operation - for EVERY k
// up to the operation count of the fault-free run of the same script.
//
// Oracle (the statement's clauses that do not depend on who the backend is):
// PUBACK / PUBCOMP for a message only after the backend accepted it, PUBREC
// only after the PUBLISH was recorded in the session, each QoS 2 message
// accepted exactly once in the end, every PUBREL answered in the end.

import (
	"errors"
	"fmt"
	"sync"
	"sync/atomic"
	"testing"
	"time"

	"github.com/256dpi/gomqtt/broker"
	"github.com/256dpi/gomqtt/packet"
	"github.com/256dpi/gomqtt/session"
	"pgregory.net/rapid"

	"verif/internal/ev"
	"verif/internal/memconn"
	"verif/internal/peer"
)

var errSession = errors.New("injected session failure")

type sfBackend struct {
	mu       sync.Mutex
	log      *memconn.Log
	sess     map[string]*sfSession
	accepted map[string]int
	ops      int64
	failAt   int64
	failed   int32
	// a DeletePacket that fails after the backend accepted the message leaves
	// the PUBLISH recorded: the resumed handshake hands it on once more. With a
	// store that cannot delete, exactly-once is out of reach; that one repeat
	// is not judged (failedDelete = id of such a failure).
	failedDelete uint16
}

type sfSession struct {
	inner *session.MemorySession
	b     *sfBackend
}

func (s *sfSession) op(name string, id packet.ID) error {
	n := atomic.AddInt64(&s.b.ops, 1)
	if s.b.failAt > 0 && n == s.b.failAt {
		atomic.StoreInt32(&s.b.failed, 1)
		if name == "DeletePacket" {
			s.b.mu.Lock()
			s.b.failedDelete = uint16(id)
			s.b.mu.Unlock()
		}
		s.b.log.Add(memconn.Event{Actor: "session", Op: name + "-FAILS", ID: uint16(id), Note: fmt.Sprintf("operation %d", n)})
		return errSession
	}
	s.b.log.Add(memconn.Event{Actor: "session", Op: name, ID: uint16(id)})
	return nil
}

func (s *sfSession) NextID() packet.ID { return s.inner.NextID() }
func (s *sfSession) SavePacket(d session.Direction, p packet.Generic) error {
	id, _ := packet.GetID(p)
	if err := s.op("SavePacket:"+p.Type().String(), id); err != nil {
		return err
	}
	return s.inner.SavePacket(d, p)
}
func (s *sfSession) LookupPacket(d session.Direction, id packet.ID) (packet.Generic, error) {
	if err := s.op("LookupPacket", id); err != nil {
		return nil, err
	}
	return s.inner.LookupPacket(d, id)
}
func (s *sfSession) DeletePacket(d session.Direction, id packet.ID) error {
	if err := s.op("DeletePacket", id); err != nil {
		return err
	}
	return s.inner.DeletePacket(d, id)
}
func (s *sfSession) AllPackets(d session.Direction) ([]packet.Generic, error) {
	if err := s.op("AllPackets", 0); err != nil {
		return nil, err
	}
	return s.inner.AllPackets(d)
}

func (b *sfBackend) Authenticate(*broker.Client, string, string) (bool, error) { return true, nil }
func (b *sfBackend) Setup(c *broker.Client, id string, clean bool) (broker.Session, bool, error) {
	b.mu.Lock()
	defer b.mu.Unlock()
	s, ok := b.sess[id]
	if !ok || clean {
		s = &sfSession{inner: session.NewMemorySession(), b: b}
		b.sess[id] = s
		ok = false
	}
	return s, ok, nil
}
func (b *sfBackend) Restore(*broker.Client) error { return nil }
func (b *sfBackend) Subscribe(c *broker.Client, subs []packet.Subscription, ack broker.Ack) error {
	if ack != nil {
		ack()
	}
	return nil
}
func (b *sfBackend) Unsubscribe(c *broker.Client, topics []string, ack broker.Ack) error {
	if ack != nil {
		ack()
	}
	return nil
}
func (b *sfBackend) Publish(c *broker.Client, msg *packet.Message, ack broker.Ack) error {
	tag := string(msg.Payload)
	b.mu.Lock()
	b.accepted[tag]++
	b.mu.Unlock()
	b.log.Add(memconn.Event{Actor: "backend", Op: "Publish-accepted", Tag: tag, QoS: int(msg.QOS)})
	if ack != nil {
		ack()
	}
	return nil
}
func (b *sfBackend) Dequeue(c *broker.Client) (*packet.Message, broker.Ack, error) {
	<-c.Closing()
	return nil, nil, nil
}
func (b *sfBackend) Terminate(*broker.Client) error { return nil }
func (b *sfBackend) Log(broker.LogEvent, *broker.Client, packet.Generic, *packet.Message, error) {
}

// SFCase is a publisher script for the session-fault runs: ops "P1" "P2"
// (QoS 2 PUBLISH on id 1/2: fresh, or again with DUP while unanswered), "R1"
// "R2" (PUBREL, also repeated), "Q" (a fresh QoS 1 PUBLISH), "D" (drop and
// resume); SessFailAt = the session operation that fails (0 = none).
type SFCase struct {
	SF         bool     `json:"sf"`
	Ops        []string `json:"ops"`
	SessFailAt int64    `json:"sess_fail_at,omitempty"`
}

type sfRunner struct {
	c     *SFCase
	b     *sfBackend
	eng   *broker.Engine
	log   *memconn.Log
	p     *peer.Peer
	n     int
	state [3]int
	tag   [3]string
	q1    map[packet.ID]string
	nmsg  int
	v     *verdict
	done  []doneMsg
}

type doneMsg struct {
	tag string
	id  int
}

func (r *sfRunner) fail(sig, format string, a ...interface{}) {
	if r.v == nil {
		r.v = &verdict{sig, fmt.Sprintf(format, a...) + "\n--- event log ---\n" + r.log.Dump()}
	}
}

// onceOK: was the message of this id accepted exactly once - or twice, when
// the deletion of its record was the injected failure?
func (r *sfRunner) onceOK(id int, n int) bool {
	r.b.mu.Lock()
	fd := r.b.failedDelete
	r.b.mu.Unlock()
	return n == 1 || (n == 2 && int(fd) == id)
}

func (r *sfRunner) acceptedOf(tag string) int {
	r.b.mu.Lock()
	defer r.b.mu.Unlock()
	return r.b.accepted[tag]
}

// connect (re)establishes the connection and retransmits per sender rules.
func (r *sfRunner) connect() bool {
	for attempt := 0; attempt < 10 && r.v == nil; attempt++ {
		r.n++
		brokerEnd, peerEnd := memconn.Pair(fmt.Sprintf("broker<pub#%d>", r.n), fmt.Sprintf("pub#%d", r.n), r.log)
		r.eng.Handle(brokerEnd)
		r.p = peer.New("pub", peerEnd)
		if _, err := r.p.ConnectID("c07-sf", false); err != nil {
			continue // (a session operation failed while the broker handled CONNECT)
		}
		ok := true
		for id := 1; id <= 2 && ok; id++ {
			switch r.state[id] {
			case pubSent:
				ok = r.publish(id, true)
			case recGot, relSent:
				ok = r.release(id)
			}
		}
		for id, tag := range r.q1 {
			if !ok {
				break
			}
			ok = r.q1send(id, tag, true)
		}
		if ok {
			return true
		}
	}
	if r.v == nil {
		r.fail("harness/reconnect-loop", "no working connection after 10 attempts")
	}
	return false
}

// answered waits for want or the end of the connection: (got the answer,
// connection alive). PUBACK / PUBCOMP leave through the broker's acker
// goroutine, so no later round trip can prove them missing; a missing answer
// on a live connection shows as the expiry of the ceiling.
func (r *sfRunner) answered(from int, want func(packet.Generic) bool) (bool, bool) {
	i := r.p.WaitFor(from, want, ev.Ceiling())
	if i >= 0 {
		return true, !r.p.EOF
	}
	return false, !r.p.EOF
}

func (r *sfRunner) publish(id int, dup bool) bool {
	from := len(r.p.Inbox)
	_ = r.p.Send(&packet.Publish{ID: packet.ID(id), Dup: dup, Message: packet.Message{Topic: "c07/sf", QOS: 2, Payload: []byte(r.tag[id])}})
	r.state[id] = pubSent
	got, alive := r.answered(from, func(g packet.Generic) bool { a, ok := g.(*packet.Pubrec); return ok && a.ID == packet.ID(id) })
	if got {
		r.state[id] = recGot
		// PUBREC only after the PUBLISH was recorded
		recorded := false
		for _, e := range r.log.Events() {
			if e.Actor == "session" && e.Op == "SavePacket:Publish" && e.ID == uint16(id) {
				recorded = true
			}
		}
		if !recorded {
			r.fail("qos2/pubrec-without-record", "PUBREC id=%d was sent although no SavePacket for that PUBLISH succeeded", id)
		}
	} else if alive && r.v == nil {
		r.fail("qos2/publish-not-answered", "QoS 2 PUBLISH id=%d (%s) was not answered by PUBREC within the ceiling on a live connection", id, r.tag[id])
	}
	return alive && r.v == nil
}

func (r *sfRunner) release(id int) bool {
	from := len(r.p.Inbox)
	_ = r.p.Send(&packet.Pubrel{ID: packet.ID(id)})
	r.state[id] = relSent
	got, alive := r.answered(from, func(g packet.Generic) bool { a, ok := g.(*packet.Pubcomp); return ok && a.ID == packet.ID(id) })
	if got {
		r.state[id] = idle
		if n := r.acceptedOf(r.tag[id]); n == 0 {
			r.fail("qos2/pubcomp-without-acceptance", "PUBCOMP id=%d completed the handshake of %s, which the backend never accepted", id, r.tag[id])
		} else if !r.onceOK(id, n) {
			r.fail("qos2/forwarded-not-exactly-once", "PUBCOMP id=%d completed the handshake of %s, which the backend has accepted %d times", id, r.tag[id], n)
		}
		r.done = append(r.done, doneMsg{r.tag[id], id})
	} else if alive && r.v == nil {
		r.fail("qos2/pubrel-not-answered", "PUBREL id=%d was not answered by PUBCOMP within the ceiling on a live connection", id)
	}
	return alive && r.v == nil
}

func (r *sfRunner) q1send(id packet.ID, tag string, dup bool) bool {
	from := len(r.p.Inbox)
	_ = r.p.Send(&packet.Publish{ID: id, Dup: dup, Message: packet.Message{Topic: "c07/sf", QOS: 1, Payload: []byte(tag)}})
	got, alive := r.answered(from, func(g packet.Generic) bool { a, ok := g.(*packet.Puback); return ok && a.ID == id })
	if got {
		delete(r.q1, id)
		if r.acceptedOf(tag) == 0 {
			r.fail("qos1/puback-without-acceptance", "PUBACK id=%d for %s although the backend never accepted it", id, tag)
		}
	} else if alive && r.v == nil {
		r.fail("qos1/publish-not-answered", "QoS 1 PUBLISH id=%d was not answered by PUBACK within the ceiling on a live connection", id)
	}
	return alive && r.v == nil
}

func runSessionFault(c *SFCase) (*verdict, int64) {
	log := memconn.NewLog()
	b := &sfBackend{log: log, sess: map[string]*sfSession{}, accepted: map[string]int{}, failAt: c.SessFailAt}
	eng := broker.NewEngine(b)
	eng.ConnectTimeout = ev.Ceiling() * 3
	r := &sfRunner{c: c, b: b, eng: eng, log: log, q1: map[packet.ID]string{}}
	defer func() {
		if r.p != nil {
			r.p.Drop()
		}
	}()
	var all []string
	// step runs f on a live connection and, when the connection died under it,
	// reconnects (the retransmissions in connect carry the handshakes forward)
	step := func(f func() bool) {
		if r.v != nil {
			return
		}
		if f() || r.v != nil {
			return
		}
		r.connect()
	}
	if !r.connect() {
		return r.v, 0
	}
	for _, op := range c.Ops {
		if r.v != nil {
			break
		}
		switch op {
		case "P1", "P2":
			id := int(op[1] - '0')
			switch r.state[id] {
			case idle:
				r.nmsg++
				r.tag[id] = fmt.Sprintf("sf-%d-q2", r.nmsg)
				all = append(all, r.tag[id])
				step(func() bool { return r.publish(id, false) })
			case pubSent:
				step(func() bool { return r.publish(id, true) })
			}
		case "R1", "R2":
			id := int(op[1] - '0')
			if r.state[id] == recGot || r.state[id] == relSent {
				step(func() bool { return r.release(id) })
			}
		case "Q":
			r.nmsg++
			id, tag := packet.ID(100+r.nmsg), fmt.Sprintf("sf-%d-q1", r.nmsg)
			r.q1[id] = tag
			step(func() bool { return r.q1send(id, tag, false) })
		case "D":
			r.p.Drop()
			r.connect()
		}
	}
	// drive everything to its end
	for guard := 0; guard < 12 && r.v == nil; guard++ {
		open := false
		for id := 1; id <= 2 && r.v == nil; id++ {
			switch r.state[id] {
			case pubSent:
				open = true
				step(func() bool { return r.publish(id, true) })
			case recGot, relSent:
				open = true
				step(func() bool { return r.release(id) })
			}
		}
		for id, tag := range r.q1 {
			open = true
			id, tag := id, tag
			step(func() bool { return r.q1send(id, tag, true) })
			break
		}
		if !open {
			break
		}
	}
	if r.v != nil {
		return r.v, 0
	}
	for id := 1; id <= 2; id++ {
		if r.state[id] != idle {
			r.fail("harness/final-loop", "handshake of id %d did not finish", id)
		}
	}
	_ = all
	for _, d := range r.done {
		if n := r.acceptedOf(d.tag); !r.onceOK(d.id, n) {
			r.fail("qos2/forwarded-not-exactly-once", "QoS 2 message %s: handshake completed, the backend accepted it %d times", d.tag, n)
		}
	}
	if r.v != nil {
		return r.v, 0
	}
	// let the broker side settle before the next run
	r.p.Drop()
	r.p = nil
	time.Sleep(200 * time.Microsecond)
	return nil, atomic.LoadInt64(&b.ops)
}

func genSF(rt *rapid.T) *SFCase {
	c := &SFCase{SF: true}
	for n := rapid.IntRange(1, 7).Draw(rt, "n"); n > 0; n-- {
		c.Ops = append(c.Ops, rapid.SampledFrom([]string{"P1", "P1", "P2", "R1", "R1", "R2", "Q", "D"}).Draw(rt, "op"))
	}
	return c
}

func sessionFaults(t *testing.T, run *ev.Run) {
	runs := 0
	exec := func(c *SFCase, report func(*verdict, *SFCase)) {
		run.Eval(1)
		v, ops := runSessionFault(c)
		if v != nil {
			report(v, c)
			return
		}
		for k := int64(1); k <= ops; k++ {
			fc := &SFCase{SF: true, Ops: c.Ops, SessFailAt: k}
			run.Eval(1)
			runs++
			run.NonTrivialJSON(fc)
			if fv, _ := runSessionFault(fc); fv != nil {
				report(fv, fc)
				return
			}
		}
	}
	if shard, _ := ev.Shard(); shard == 0 {
		for _, c := range []*SFCase{{SF: true, Ops: []string{"P1", "R1"}}, {SF: true, Ops: []string{"P1", "P2", "R2", "D", "R1", "Q"}}, {SF: true, Ops: []string{"Q", "P1", "P1", "R1", "R1"}}} {
			exec(c, func(v *verdict, fc *SFCase) { run.Violation("session-fault:"+v.sig, v.msg, fc) })
		}
	}
	run.Rapid(t, "session-faults", ev.Pick(40, 1500), func(rt *rapid.T) {
		c := genSF(rt)
		run.Class("session-fault-scripts")
		exec(c, func(v *verdict, fc *SFCase) {
			run.Candidate("session-fault:"+v.sig, v.msg, fc)
			rt.Fatalf("%s: %s", v.sig, v.msg)
		})
	})
	run.Set("session_fault_positions_enumerated", runs)
}
