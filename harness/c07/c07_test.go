// C07 — broker acks a publisher only after acceptance; QoS 2 is forwarded exactly once.
package c07

import (
	"fmt"
	"strings"
	"testing"

	"github.com/256dpi/gomqtt/broker"
	"github.com/256dpi/gomqtt/packet"
	"github.com/256dpi/gomqtt/session"
	"pgregory.net/rapid"

	"verif/internal/bk"
	"verif/internal/ev"
	"verif/internal/memconn"
	"verif/internal/peer"
)

// Case: a publisher script interpreted by a correct MQTT sender, an ack mode
// of the backend and one fault position on the broker side of the publisher's
// connection(s) (operations are counted over all successive connections).
//
// Ops: "P0" "P1" start a new message on slot 0/1 (or retransmit the PUBLISH
// with DUP while the slot still waits for PUBACK/PUBREC); "A0" "A1" await the
// slot's PUBACK/PUBREC; "R0" "R1" send the slot's PUBREL (a PUBREL for an id
// that was never used when the slot is idle; a repeated PUBREL when already
// sent); "C0" "C1" await the PUBCOMP; "D" drop the connection and resume the
// session (retransmitting what is unacknowledged).
type Case struct {
	Mode   string   `json:"mode"` // "" sync | "goroutine" | "late" | "never"
	Ops    []string `json:"ops"`
	QoS    []int    `json:"qos"` // qos of the n-th new message (cyclic)
	FailAt int64    `json:"fail_at,omitempty"`
	After  bool     `json:"after,omitempty"`
	Window int      `json:"window,omitempty"` // ClientParallelPublishes (0 = default 10); the script never opens more handshakes than that

	// Bystander "offline-full": a persistent subscriber to the publisher's topic
	// is offline with a full session queue (size 2) - the memory backend skips
	// such a session, which must not affect the publisher's handshakes
	Bystander string `json:"bystander,omitempty"`

	// set in replay files of the session-fault runs (see sessfault_test.go)
	SF         bool  `json:"sf,omitempty"`
	SessFailAt int64 `json:"sess_fail_at,omitempty"`
}

type verdict struct{ sig, msg string }

const (
	idle = iota
	pubSent
	recGot
	relSent
)

type slot struct {
	id    packet.ID
	qos   int
	tag   string
	state int
}

type runner struct {
	c         *Case
	b         *bk.Broker
	p         *peer.Peer
	bconn     *memconn.Conn
	consumed  int64 // broker-side ops of earlier connections
	slots     [2]*slot
	msgN      int
	used      map[string]int // consumed acks of the current connection
	unknown   map[packet.ID]int
	tags      map[string]int // tag -> qos
	done      map[string]bool
	retrans   bool
	resumes   int
	faultHit  bool
	released  bool
	relOnConn map[packet.ID]int // PUBRELs sent on the current connection
}

func (r *runner) dial() {
	remaining := int64(0)
	if r.c.FailAt > 0 && !r.faultHit {
		remaining = r.c.FailAt - r.consumed
		if remaining <= 0 {
			remaining = 0
		}
	}
	r.p, r.bconn = r.b.DialPlan("pub", remaining, r.c.After, func(bc *memconn.Conn) {
		bc.OnSend = func(c *memconn.Conn, pkt packet.Generic) {
			rec, ok := pkt.(*packet.Pubrec)
			if !ok {
				return
			}
			cl := r.b.Rec.ClientOf(c)
			stored := false
			if cl != nil && cl.Session() != nil {
				got, _ := cl.Session().LookupPacket(session.Incoming, rec.ID)
				_, stored = got.(*packet.Publish)
			}
			r.b.Log.Add(memconn.Event{Actor: "probe", Op: "pubrec-check", ID: uint16(rec.ID), Note: fmt.Sprintf("stored=%v", stored)})
		}
	})
	r.p.AutoAck = false
	r.used = map[string]int{}
	r.relOnConn = map[packet.ID]int{}
}

func (r *runner) count(typ packet.Type, id packet.ID) int {
	n := 0
	for _, g := range r.p.Inbox {
		if g.Type() == typ {
			if gid, _ := packet.GetID(g); gid == id {
				n++
			}
		}
	}
	return n
}

// await waits for the next not yet consumed packet (typ,id). ok=false,eof=true
// means the connection ended first; ok=false,eof=false means the ceiling expired.
func (r *runner) await(typ packet.Type, id packet.ID) (ok, eof bool) {
	k := fmt.Sprintf("%d/%d", typ, id)
	i := r.p.WaitFor(0, func(packet.Generic) bool { return r.count(typ, id) > r.used[k] }, ev.Ceiling())
	if i >= 0 {
		r.used[k]++
		return true, false
	}
	return false, r.p.EOF
}

// connect performs CONNECT (unclean) and retransmits; returns a verdict on protocol failure.
func (r *runner) connect(first bool) *verdict {
	for attempt := 0; attempt < 6; attempt++ {
		r.dial()
		cp := packet.NewConnect()
		cp.ClientID, cp.CleanSession = "pub", false
		ack, err := r.p.Connect(cp)
		if err != nil {
			if r.p.EOF || r.bconn.Closed() {
				r.afterLoss()
				continue
			}
			return &verdict{"connect/no-connack", err.Error()}
		}
		if !first && !ack.SessionPresent {
			return &verdict{"resume/session-not-present", "unclean reconnect of a known client id was answered with session-present=false"}
		}
		// retransmit
		ok := true
		for _, s := range r.slots {
			if s == nil || s.state == idle {
				continue
			}
			r.retrans = true
			var e error
			if s.state == pubSent {
				e = r.p.Send(&packet.Publish{ID: s.id, Dup: true, Message: packet.Message{Topic: "c07/t", Payload: []byte(s.tag), QOS: packet.QOS(s.qos)}})
			} else {
				s.state = relSent
				e = r.p.Send(&packet.Pubrel{ID: s.id})
				if e == nil {
					r.relOnConn[s.id]++
				}
			}
			if e != nil {
				ok = false
				break
			}
		}
		if !ok {
			r.afterLoss()
			continue
		}
		return nil
	}
	return &verdict{"harness/reconnect-loop", "could not re-establish the connection in 6 attempts"}
}

// afterLoss accounts the ended connection.
func (r *runner) afterLoss() {
	r.p.Drop()
	r.b.WaitClosed(r.bconn)
	r.consumed += r.bconn.Ops()
	if r.c.FailAt > 0 && r.consumed >= r.c.FailAt {
		r.faultHit = true
	}
	r.resumes++
}

func (r *runner) resume() *verdict {
	r.afterLoss()
	return r.connect(false)
}

func (r *runner) send(pkt packet.Generic) *verdict {
	if err := r.p.Send(pkt); err != nil {
		return r.resume() // retransmission covers the lost packet
	}
	if rel, ok := pkt.(*packet.Pubrel); ok {
		r.relOnConn[rel.ID]++
	}
	return nil
}

func (r *runner) lateOrNever() bool {
	return !r.released && (r.c.Mode == "late" || r.c.Mode == "never")
}

func (r *runner) step(op string) *verdict {
	if op == "D" {
		return r.resume()
	}
	i := int(op[1] - '0')
	s := r.slots[i]
	switch op[0] {
	case 'P':
		switch s.state {
		case idle:
			if r.c.Window > 0 {
				open := 0
				for _, x := range r.slots {
					if x.state != idle {
						open++
					}
				}
				if open >= r.c.Window {
					return nil // a well behaved publisher respects the broker's flow control
				}
			}
			r.msgN++
			s.qos = r.c.QoS[(r.msgN-1)%len(r.c.QoS)]
			s.tag = fmt.Sprintf("m%d-q%d", r.msgN, s.qos)
			s.id = packet.ID(10 + r.msgN) // a fresh id per message keeps late acknowledgements of retransmissions unambiguous
			s.state = pubSent
			r.tags[s.tag] = s.qos
			return r.send(&packet.Publish{ID: s.id, Message: packet.Message{Topic: "c07/t", Payload: []byte(s.tag), QOS: packet.QOS(s.qos)}})
		case pubSent:
			if r.c.Window > 0 {
				// every PUBLISH, a duplicate too, takes a slot of the broker's publish
				// window until a PUBCOMP returns one; with a small window a publisher
				// that repeats a PUBLISH on a live connection only blocks itself
				// (documented flow control), so these scripts do not do that
				return nil
			}
			r.retrans = true
			return r.send(&packet.Publish{ID: s.id, Dup: true, Message: packet.Message{Topic: "c07/t", Payload: []byte(s.tag), QOS: packet.QOS(s.qos)}})
		}
	case 'A':
		if s.state != pubSent {
			return nil
		}
		if s.qos == 1 {
			if r.lateOrNever() {
				return nil
			}
			return r.awaitOr(packet.PUBACK, s, idle)
		}
		return r.awaitOr(packet.PUBREC, s, recGot)
	case 'R':
		switch s.state {
		case recGot, relSent:
			if s.state == relSent {
				r.retrans = true
			}
			s.state = relSent
			return r.send(&packet.Pubrel{ID: s.id})
		case idle:
			id := packet.ID(77 + i)
			r.unknown[id]++
			return r.send(&packet.Pubrel{ID: id})
		}
	case 'C':
		if s.state == relSent && !r.lateOrNever() {
			return r.awaitOr(packet.PUBCOMP, s, idle)
		}
	}
	return nil
}

func (r *runner) awaitOr(typ packet.Type, s *slot, next int) *verdict {
	for tries := 0; tries < 8; tries++ {
		ok, eof := r.await(typ, s.id)
		if ok {
			if next == idle {
				r.done[s.tag] = true
			}
			s.state = next
			return nil
		}
		if !eof {
			return &verdict{"liveness/no-" + strings.ToLower(typ.String()), fmt.Sprintf("no %s for id %d within the ceiling although the connection is alive (mode %q)", typ, s.id, r.c.Mode)}
		}
		if v := r.resume(); v != nil {
			return v
		}
		if s.state == idle {
			return nil
		}
		// after the resume the slot may wait for another packet type
		if s.state == relSent && typ != packet.PUBCOMP {
			typ, next = packet.PUBCOMP, idle
			if r.lateOrNever() {
				return nil
			}
		}
	}
	// (the fault plan cuts one connection at most: eight losses in a row are the broker's doing)
	return &verdict{"handshake/never-terminates", fmt.Sprintf("the broker ended the connection 8 times in a row while the publisher awaited %s for id %d (resumed and retransmitted each time): the handshake never terminates", typ, s.id)}
}

// roundTrip proves through the broker's FIFO ack queue that no acknowledgement is pending.
func (r *runner) roundTrip() (ok bool, v *verdict) {
	for tries := 0; tries < 6; tries++ {
		if _, err := r.p.Subscribe([]packet.Subscription{{Topic: "c07/barrier", QOS: 0}}); err == nil {
			return true, nil
		}
		if !r.p.EOF && !r.bconn.Closed() {
			return false, &verdict{"liveness/no-suback", "SUBSCRIBE barrier not answered"}
		}
		if v := r.resume(); v != nil {
			return false, v
		}
	}
	return false, &verdict{"harness/roundtrip-loop", "too many resumes"}
}

func (r *runner) finish() *verdict {
	if r.lateOrNever() {
		// bring every slot to the point where only the backend acknowledgement is missing
		for _, s := range r.slots {
			for guard := 0; s.state != idle && guard < 8; guard++ {
				if s.state == pubSent && s.qos == 2 {
					if v := r.awaitOr(packet.PUBREC, s, recGot); v != nil {
						return v
					}
				}
				if s.state == recGot {
					s.state = relSent
					if v := r.send(&packet.Pubrel{ID: s.id}); v != nil {
						return v
					}
				}
				if s.state == relSent || (s.state == pubSent && s.qos == 1) {
					break
				}
			}
		}
		if _, v := r.roundTrip(); v != nil {
			return v
		}
		for _, s := range r.slots {
			if s.state == idle {
				continue
			}
			typ := packet.PUBCOMP
			if s.qos == 1 {
				typ = packet.PUBACK
			}
			r.p.Pump()
			if n := r.count(typ, s.id); n > r.used[fmt.Sprintf("%d/%d", typ, s.id)] {
				return &verdict{"ack/sent-before-backend-accepted:" + strings.ToLower(typ.String()), fmt.Sprintf("%s id=%d arrived although the backend has not acknowledged message %s (ack mode %q)", typ, s.id, s.tag, r.c.Mode)}
			}
		}
		if r.c.Mode == "never" {
			return r.allAnswered(true)
		}
		// from here on the backend acknowledges: later hand-overs (after a
		// resume) synchronously, the withheld ones now
		r.released = true
		r.b.Rec.SetAckMode("")
		r.b.Rec.ReleaseAcks()
	}
	for _, s := range r.slots {
		for guard := 0; s.state != idle; guard++ {
			if guard > 12 {
				return &verdict{"harness/finish-loop", "slot does not complete"}
			}
			var v *verdict
			switch s.state {
			case pubSent:
				if s.qos == 1 {
					v = r.awaitOr(packet.PUBACK, s, idle)
				} else {
					v = r.awaitOr(packet.PUBREC, s, recGot)
				}
			case recGot:
				s.state = relSent
				v = r.send(&packet.Pubrel{ID: s.id})
			case relSent:
				v = r.awaitOr(packet.PUBCOMP, s, idle)
			}
			if v != nil {
				return v
			}
		}
	}
	return r.allAnswered(false)
}

// allAnswered: after a SUBSCRIBE round trip on the live connection (the
// processor handles packets in order and acknowledgements leave through one
// FIFO queue) every PUBREL sent on this connection must have its PUBCOMP.
func (r *runner) allAnswered(unknownOnly bool) *verdict {
	for attempt := 0; attempt < 6; attempt++ {
		if _, v := r.roundTrip(); v != nil {
			return v
		}
		r.p.Pump()
		lost := false
		for id, n := range r.relOnConn {
			if unknownOnly && id < 77 {
				continue
			}
			if r.c.Mode == "goroutine" {
				// acknowledgements come from other goroutines: the round trip is no barrier, wait for them
				id, n := id, n
				r.p.WaitFor(0, func(packet.Generic) bool { return r.count(packet.PUBCOMP, id) >= n }, ev.Ceiling())
			}
			if r.p.EOF {
				lost = true // the connection ended meanwhile: nothing can be demanded of it
				break
			}
			if got := r.count(packet.PUBCOMP, id); got != n {
				sig := "pubrel/unanswered"
				if id >= 77 {
					sig = "pubrel/unknown-id-unanswered"
				}
				if got > n {
					sig = "pubcomp/more-than-pubrels"
				}
				return &verdict{sig, fmt.Sprintf("%d PUBREL id=%d were sent on the live connection, %d PUBCOMP came back", n, id, got)}
			}
		}
		if !lost {
			return nil
		}
		if v := r.resume(); v != nil {
			return v
		}
	}
	return &verdict{"harness/answered-loop", "too many resumes"}
}

type result struct {
	ops        int64
	nontrivial bool
}

func runCase(c *Case) (*verdict, result) {
	b := bk.New(func(m *broker.MemoryBackend, e *broker.Engine) {
		if c.Window > 0 {
			m.ClientParallelPublishes = c.Window
		}
		if c.Bystander == "offline-full" {
			m.SessionQueueSize = 2
		}
	})
	defer b.Shutdown()
	if c.Bystander == "offline-full" {
		o, oc := b.Dial("off")
		if _, err := o.ConnectID("c07-off", false); err != nil {
			return &verdict{"harness/bystander", err.Error()}, result{}
		}
		if _, err := o.Subscribe([]packet.Subscription{{Topic: "c07/t", QOS: 2}}); err != nil {
			return &verdict{"harness/bystander", err.Error()}, result{}
		}
		o.Disconnect()
		b.WaitClosed(oc)
		f, _ := b.Dial("fill")
		if _, err := f.ConnectID("c07-fill", true); err != nil {
			return &verdict{"harness/bystander", err.Error()}, result{}
		}
		for i := 0; i < 2; i++ {
			if err := f.Publish("c07/t", []byte(fmt.Sprintf("fill-%d", i)), 1, false); err != nil {
				return &verdict{"harness/bystander", err.Error()}, result{}
			}
		}
	}
	b.Rec.SetAckMode(c.Mode)
	r := &runner{c: c, b: b, unknown: map[packet.ID]int{}, tags: map[string]int{}, done: map[string]bool{}}
	r.slots = [2]*slot{{}, {}}
	fail := func(v *verdict) (*verdict, result) {
		return &verdict{v.sig, v.msg + "\n--- event log ---\n" + b.Log.Dump()}, result{}
	}
	if v := r.connect(true); v != nil {
		return fail(v)
	}
	for _, op := range c.Ops {
		if v := r.step(op); v != nil {
			return fail(v)
		}
	}
	if v := r.finish(); v != nil {
		return fail(v)
	}
	total := r.consumed + r.bconn.Ops()

	// ---- history oracle
	curTag, curQoS := map[uint16]string{}, map[uint16]int{}
	acks, pubacks, acksDone := map[string]int{}, map[string]int{}, map[string]int{}
	ackedAtRel := map[string]int{}
	for _, e := range b.Log.Events() {
		pubSide := strings.HasPrefix(e.Actor, "broker<pub")
		switch {
		case pubSide && e.Op == "recv" && e.Type == "Publish" && e.QoS > 0:
			curTag[e.ID], curQoS[e.ID] = e.Tag, e.QoS
		case pubSide && e.Op == "recv" && e.Type == "Pubrel":
			if t, ok := curTag[e.ID]; ok {
				ackedAtRel[t] = acksDone[t] // acknowledgements the broker had been told about when this PUBREL arrived
			}
		case e.Actor == "backend" && e.Op == "Publish":
			// exactly once: a PUBREL that the broker received after the backend had accepted the
			// message must not lead to another hand-over (a hand-over decided while an earlier one
			// was still unacknowledged is a retry that an asynchronous backend has to tolerate)
			if q, ok := r.tags[e.Tag]; ok && q == 2 && ackedAtRel[e.Tag] > 0 {
				return fail(&verdict{"qos2/forwarded-not-exactly-once", fmt.Sprintf("event #%d: QoS 2 message %s was handed to the backend again although the backend had accepted it before the PUBREL arrived", e.Seq, e.Tag)})
			}
		case e.Actor == "backend" && e.Op == "ack":
			acks[e.Tag]++
		case e.Actor == "backend" && e.Op == "ack-done":
			acksDone[e.Tag]++
		case e.Actor == "probe" && e.Op == "pubrec-check":
			if e.Note != "stored=true" {
				return fail(&verdict{"pubrec/sent-before-recorded", fmt.Sprintf("PUBREC id=%d was sent while the publisher's session did not hold the PUBLISH", e.ID)})
			}
		case pubSide && e.Op == "send" && e.Type == "Puback":
			t, ok := curTag[e.ID]
			if !ok || curQoS[e.ID] != 1 {
				return fail(&verdict{"puback/for-no-qos1-publish", fmt.Sprintf("PUBACK id=%d without a QoS 1 PUBLISH of that id", e.ID)})
			}
			pubacks[t]++
			if pubacks[t] > acks[t] {
				return fail(&verdict{"ack/sent-before-backend-accepted:puback", fmt.Sprintf("event #%d: PUBACK id=%d for %s sent, backend acknowledged it %d times so far", e.Seq, e.ID, t, acks[t])})
			}
		case pubSide && e.Op == "send" && e.Type == "Pubcomp":
			if t, ok := curTag[e.ID]; ok && curQoS[e.ID] == 2 && acks[t] == 0 {
				return fail(&verdict{"ack/sent-before-backend-accepted:pubcomp", fmt.Sprintf("event #%d: PUBCOMP id=%d for %s sent, backend never acknowledged it", e.Seq, e.ID, t)})
			}
		}
	}
	for tag, q := range r.tags {
		if r.done[tag] && acks[tag] < 1 {
			return fail(&verdict{fmt.Sprintf("qos%d/completed-without-acceptance", q), fmt.Sprintf("message %s completed its handshake but the backend never acknowledged it", tag)})
		}
	}
	return nil, result{ops: total, nontrivial: r.retrans || r.resumes > 0}
}

func genScript(rt *rapid.T) *Case {
	c := &Case{Mode: rapid.SampledFrom([]string{"", "", "goroutine", "late", "never"}).Draw(rt, "mode")}
	n := rapid.IntRange(1, 8).Draw(rt, "n")
	for i := 0; i < n; i++ {
		c.Ops = append(c.Ops, rapid.SampledFrom([]string{"P0", "P0", "P1", "A0", "A1", "R0", "R1", "C0", "C1", "D"}).Draw(rt, "op"))
	}
	for i := 0; i < 4; i++ {
		c.QoS = append(c.QoS, rapid.SampledFrom([]int{1, 2, 2}).Draw(rt, "qos"))
	}
	if c.Mode == "" || c.Mode == "goroutine" {
		c.Window = rapid.SampledFrom([]int{0, 0, 1, 2}).Draw(rt, "window") // a small publish window that the script fills completely
	}
	if rapid.IntRange(0, 3).Draw(rt, "bystander") == 0 {
		c.Bystander = "offline-full"
	}
	return c
}

func TestC07(t *testing.T) {
	run := ev.Start("C07", "fault_enumeration")
	run.Rule("publisher scripts of depth <= 8 over {PUBLISH/retransmit, await ack, PUBREL (also repeated and for unused ids), await PUBCOMP, drop+resume} for 2 packet ids, interpreted by a correct MQTT sender, x backend ack mode {sync, other goroutine, late, never} x bystander {none, an offline persistent subscriber to the same topic whose session queue is full}; each script is first run fault free and then once per (operation k, before/after) for EVERY packet the broker sends or receives on the publisher's connection(s). Oracle: recorded event history (ack precedes PUBACK/PUBCOMP, session holds the PUBLISH when PUBREC leaves, accepted hand-overs per QoS 2 message == 1, every PUBREL answered). Session faults: publisher scripts over {QoS 2 PUBLISH on 2 ids (fresh / DUP), PUBREL (also repeated), fresh QoS 1 PUBLISH, drop+resume} against a minimal accepting Backend whose per-client session (a wrapper of the library's MemorySession) fails its k-th operation, for EVERY k of the fault-free run; same oracle, judged at the publisher. non-trivial = a retransmission or resume happened, or a session fault; distinct by (script, mode, fault)")
	run.Assume("exactly-once = no hand-over of a QoS 2 message after the backend acknowledged an earlier hand-over of it; a repeated hand-over while the earlier one is still unacknowledged (asynchronous backends) is a retry the backend must tolerate and is not judged")
	defer run.Finish(t)

	runs, faultRuns := 0, 0
	exec := func(c *Case, candidate func(v *verdict, c *Case)) bool {
		runs++
		run.Eval(1)
		v, res := runCase(c)
		if res.nontrivial {
			run.NonTrivialJSON(c)
		}
		if v != nil {
			candidate(v, c)
			return false
		}
		if c.FailAt == 0 {
			for k := int64(1); k <= res.ops; k++ {
				for _, after := range []bool{false, true} {
					fc := &Case{Mode: c.Mode, Ops: c.Ops, QoS: c.QoS, Window: c.Window, Bystander: c.Bystander, FailAt: k, After: after}
					faultRuns++
					run.Eval(1)
					fv, fres := runCase(fc)
					if fres.nontrivial {
						run.NonTrivialJSON(fc)
					}
					if fv != nil {
						candidate(fv, fc)
						return false
					}
				}
			}
		}
		return true
	}

	// a few fixed scripts that must always be part of the run
	fixed := []*Case{
		{Ops: []string{"P0", "A0", "R0", "C0"}, QoS: []int{2}},
		{Ops: []string{"P0", "A0"}, QoS: []int{1}},
		{Ops: []string{"P0", "P1", "D", "P0", "A0", "P1", "A1", "R0", "C0", "R1", "C1"}, QoS: []int{2, 2}, Window: 2},
		{Ops: []string{"P0", "D", "P0", "A0", "R0", "C0", "P0", "A0"}, QoS: []int{2, 1}, Window: 1},
		{Ops: []string{"P0", "P1", "A1", "A0", "R1", "R0", "C0", "C1"}, QoS: []int{2, 2}},
		{Ops: []string{"P0", "P0", "A0", "A0", "R0", "R0", "C0", "C0"}, QoS: []int{2}},
		{Ops: []string{"R0", "P0", "A0", "D", "R0", "C0", "R0"}, QoS: []int{2}},
		{Mode: "goroutine", Ops: []string{"P0", "A0", "R0", "D", "C0", "P0"}, QoS: []int{2, 1}},
		{Mode: "late", Ops: []string{"P0", "P1", "A1", "R1"}, QoS: []int{1, 2}},
		{Mode: "never", Ops: []string{"P0", "P1", "A1", "R1"}, QoS: []int{1, 2}},
	}
	shard, _ := ev.Shard()
	if shard == 0 {
		for _, c := range fixed {
			exec(c, func(v *verdict, fc *Case) { run.Violation(v.sig, v.msg, fc) })
		}
	}
	run.Rapid(t, "scripts", ev.Pick(300, 12000), func(rt *rapid.T) {
		c := genScript(rt)
		run.Class("mode:" + map[string]string{"": "sync"}[c.Mode] + c.Mode)
		exec(c, func(v *verdict, fc *Case) {
			run.Candidate(v.sig, v.msg, fc)
			rt.Fatalf("%s: %s", v.sig, v.msg)
		})
	})
	run.Set("fault_positions_enumerated", faultRuns)
	run.Set("runs", runs)

	sessionFaults(t, run)
}

func TestReplay(t *testing.T) {
	var c Case
	ok, err := ev.ReplayCase(&c)
	if !ok {
		t.Skip("no VERIF_REPLAY")
	}
	if err != nil {
		t.Fatal(err)
	}
	for i := 0; i < 5; i++ {
		if c.SF {
			if v, _ := runSessionFault(&SFCase{SF: true, Ops: c.Ops, SessFailAt: c.SessFailAt}); v != nil {
				t.Fatalf("VIOLATION reproduced: %s: %s", v.sig, v.msg)
			}
			continue
		}
		if v, _ := runCase(&c); v != nil {
			t.Fatalf("VIOLATION reproduced: %s: %s", v.sig, v.msg)
		}
	}
	t.Log("case passes")
}
