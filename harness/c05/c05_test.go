// C05 — topic tree equals a topic->value-set map after any history; ops are atomic.
package c05

import (
	"encoding/json"
	"fmt"
	"reflect"
	"runtime"
	"sort"
	"strings"
	"sync"
	"sync/atomic"
	"testing"
	"time"

	"github.com/256dpi/gomqtt/topic"
	"github.com/anishathalye/porcupine"
	"pgregory.net/rapid"

	"verif/internal/ev"
	"verif/internal/reftopic"
)

// Op is one tree operation. Kind: add set remove empty clear reset (writes);
// get match search matchfirst searchfirst all count (queries, concurrent half).
type Op struct {
	Kind  string `json:"k"`
	Topic string `json:"t,omitempty"`
	Value int    `json:"v,omitempty"`
}

// Case: Mode "filters" (stored topics are filters, probed by Match) or
// "names" (stored topics are names, probed by Search). Threads != nil makes
// it a concurrent case (one op list per goroutine).
type Case struct {
	Mode    string `json:"mode"`
	Ops     []Op   `json:"ops,omitempty"`
	Threads [][]Op `json:"threads,omitempty"`
	Procs   int    `json:"procs,omitempty"`
	// herd: after Ops (sequential prefix) every goroutine of Herd issues its one
	// write at the same moment; the writes commute and are idempotent (adds and
	// removes, no (topic,value) both added and removed), so the final contents
	// are the same for every interleaving. Repeated Rounds times on fresh trees.
	Herd   []Op `json:"herd,omitempty"`
	Rounds int  `json:"rounds,omitempty"`
}

type verdict struct{ sig, msg string }

var filterUniverse = []string{"a", "a/b", "a/b/c", "a/+", "a/#", "+/b", "#", "a//b", "/a", "a/", "+"}
var matchProbes = []string{"a", "a/b", "a/b/c", "a//b", "/a", "a/", "b", "a/c", "a/b/c/d"}
var nameUniverse = []string{"a", "a/b", "a/b/c", "a//b", "/a", "a/", "b", "b/c", "a/c"}
var searchProbes = []string{"#", "a/#", "a/+", "+/b", "+", "a/+/c", "+/+", "/+", "a//+", "a/b/#", "+/#", "a", "a/b"}

func universe(mode string) []string {
	if mode == "names" {
		return nameUniverse
	}
	return filterUniverse
}
func probes(mode string) []string {
	if mode == "names" {
		return searchProbes
	}
	return matchProbes
}

func apply(tr *topic.Tree, m reftopic.Model, o Op) {
	switch o.Kind {
	case "add":
		tr.Add(o.Topic, o.Value)
		m.Add(o.Topic, o.Value)
	case "set":
		tr.Set(o.Topic, o.Value)
		m.Set(o.Topic, o.Value)
	case "remove":
		tr.Remove(o.Topic, o.Value)
		m.Remove(o.Topic, o.Value)
	case "empty":
		tr.Empty(o.Topic)
		m.Empty(o.Topic)
	case "clear":
		tr.Clear(o.Value)
		m.Clear(o.Value)
	case "reset":
		tr.Reset()
		m.Reset()
	}
}

func toInts(vs []interface{}) []int {
	out := make([]int, 0, len(vs))
	for _, v := range vs {
		if i, ok := v.(int); ok {
			out = append(out, i)
		} else {
			out = append(out, -999) // a nil element: the slice was rewritten under the caller
		}
	}
	sort.Ints(out)
	return out
}

func hasDup(l []int) bool {
	for i := 1; i < len(l); i++ {
		if l[i] == l[i-1] {
			return true
		}
	}
	return false
}

func eq(a, b []int) bool {
	if len(a) == 0 && len(b) == 0 {
		return true
	}
	return reflect.DeepEqual(a, b)
}

func lines(s string) []string {
	ls := strings.Split(s, "\n")
	sort.Strings(ls)
	return ls
}

type snap struct {
	what string
	live []interface{}
	copy []interface{}
	step int
}

// compare runs every query against the model. snaps (may be nil) collects
// returned slices for the snapshot clause.
func compare(tr *topic.Tree, m reftopic.Model, mode string, step int, snaps *[]snap) *verdict {
	keep := func(what string, s []interface{}) {
		if snaps != nil && len(s) > 0 {
			*snaps = append(*snaps, snap{what, s, append([]interface{}{}, s...), step})
		}
	}
	for _, tp := range universe(mode) {
		raw := tr.Get(tp)
		keep("Get("+tp+")", raw)
		g := toInts(raw)
		if hasDup(g) {
			return &verdict{"get/duplicate", fmt.Sprintf("step %d: Get(%q) = %v has a duplicate", step, tp, g)}
		}
		if !eq(g, m.Get(tp)) {
			return &verdict{"get/differs", fmt.Sprintf("step %d: Get(%q) = %v, model %v", step, tp, g, m.Get(tp))}
		}
	}
	for _, q := range probes(mode) {
		var raw []interface{}
		var first interface{}
		var want []int
		name := "match"
		if mode == "names" {
			raw, first, want, name = tr.Search(q), tr.SearchFirst(q), m.SearchFilter(q), "search"
		} else {
			raw, first, want = tr.Match(q), tr.MatchFirst(q), m.MatchName(q)
		}
		keep(name+"("+q+")", raw)
		g := toInts(raw)
		if hasDup(g) {
			return &verdict{name + "/duplicate", fmt.Sprintf("step %d: %s(%q) = %v has a duplicate", step, name, q, g)}
		}
		if !eq(g, want) {
			return &verdict{name + "/differs", fmt.Sprintf("step %d: %s(%q) = %v, model %v", step, name, q, g, want)}
		}
		if len(want) == 0 && first != nil {
			return &verdict{name + "first/value-from-nothing", fmt.Sprintf("step %d: %sFirst(%q) = %v, model has no match", step, name, q, first)}
		}
		if len(want) > 0 {
			ok := false
			for _, w := range want {
				if first != nil && first.(int) == w {
					ok = true
				}
			}
			if !ok {
				return &verdict{name + "first/non-member", fmt.Sprintf("step %d: %sFirst(%q) = %v, model %v", step, name, q, first, want)}
			}
		}
	}
	rawAll := tr.All()
	keep("All()", rawAll)
	all := toInts(rawAll)
	if hasDup(all) {
		return &verdict{"all/duplicate", fmt.Sprintf("step %d: All() = %v", step, all)}
	}
	if !eq(all, m.All()) {
		return &verdict{"all/differs", fmt.Sprintf("step %d: All() = %v, model %v", step, all, m.All())}
	}
	if c := tr.Count(); c != m.Count() {
		return &verdict{"count/differs", fmt.Sprintf("step %d: Count() = %d, model %d", step, c, m.Count())}
	}
	return nil
}

// noTrace compares the printed structure with a tree built from the contents.
func noTrace(tr *topic.Tree, m reftopic.Model, step int) *verdict {
	fresh := topic.NewStandardTree()
	ks := make([]string, 0, len(m))
	for k := range m {
		ks = append(ks, k)
	}
	sort.Strings(ks)
	for _, k := range ks {
		for _, v := range m[k] {
			fresh.Add(k, v)
		}
	}
	a, b := lines(tr.String()), lines(fresh.String())
	if !reflect.DeepEqual(a, b) {
		return &verdict{"trace/structure-depends-on-history", fmt.Sprintf("step %d: String() of the tree (%d lines) differs from a fresh tree with the same contents (%d lines):\n%s\n--- fresh ---\n%s", step, len(a), len(b), tr.String(), fresh.String())}
	}
	return nil
}

func runSequential(c *Case, everyStep bool) *verdict {
	tr := topic.NewStandardTree()
	m := reftopic.Model{}
	var snaps []snap
	for i, o := range c.Ops {
		apply(tr, m, o)
		if !everyStep && i != len(c.Ops)-1 {
			continue
		}
		var sp *[]snap
		if everyStep {
			sp = &snaps
		}
		if v := compare(tr, m, c.Mode, i, sp); v != nil {
			return v
		}
		if v := noTrace(tr, m, i); v != nil {
			return v
		}
		for _, s := range snaps {
			if s.step == i {
				continue
			}
			if !reflect.DeepEqual(s.live, s.copy) {
				return &verdict{"snapshot/result-altered-by-later-op", fmt.Sprintf("%s returned %v at step %d; after step %d (%v) the same slice reads %v", s.what, s.copy, s.step, i, o, s.live)}
			}
		}
		if len(snaps) > 400 {
			snaps = snaps[len(snaps)-400:]
		}
	}
	return nil
}

// ---- concurrent half -----------------------------------------------------

type cin struct {
	Op
}
type cout struct {
	Vals  []int
	First int // -1 = nil
	N     int
}

func modelFromState(s string) reftopic.Model {
	m := reftopic.Model{}
	_ = json.Unmarshal([]byte(s), &m)
	return m
}

func stateOf(m reftopic.Model) string {
	// canonical: sorted keys (encoding/json sorts map keys), values in insertion order are
	// irrelevant for queries -> sort them
	c := reftopic.Model{}
	for k, v := range m {
		c[k] = reftopic.Sorted(v)
	}
	b, _ := json.Marshal(c)
	return string(b)
}

func porcModel(mode string) porcupine.Model {
	return porcupine.Model{
		Init: func() interface{} { return "{}" },
		Step: func(state, input, output interface{}) (bool, interface{}) {
			m := modelFromState(state.(string))
			in, out := input.(cin), output.(cout)
			switch in.Kind {
			case "add", "set", "remove", "empty", "clear", "reset":
				apply(topic.NewStandardTree(), m, in.Op)
				return true, stateOf(m)
			case "get":
				return eq(out.Vals, m.Get(in.Topic)), state
			case "match":
				return eq(out.Vals, m.MatchName(in.Topic)), state
			case "search":
				return eq(out.Vals, m.SearchFilter(in.Topic)), state
			case "matchfirst", "searchfirst":
				want := m.MatchName(in.Topic)
				if in.Kind == "searchfirst" {
					want = m.SearchFilter(in.Topic)
				}
				if len(want) == 0 {
					return out.First == -1, state
				}
				for _, w := range want {
					if w == out.First {
						return true, state
					}
				}
				return false, state
			case "all":
				return eq(out.Vals, m.All()), state
			case "count":
				return out.N == m.Count(), state
			}
			return false, state
		},
		Equal: func(a, b interface{}) bool { return a.(string) == b.(string) },
		DescribeOperation: func(input, output interface{}) string {
			return fmt.Sprintf("%v -> %v", input, output)
		},
	}
}

func runConcurrent(c *Case) (v *verdict, inconclusive bool) {
	if c.Procs > 0 {
		defer runtime.GOMAXPROCS(runtime.GOMAXPROCS(c.Procs))
	}
	tr := topic.NewStandardTree()
	var clock int64
	var mu sync.Mutex
	var hist []porcupine.Operation
	var wg sync.WaitGroup
	start := make(chan struct{})
	sink := int64(0)
	for id, ops := range c.Threads {
		wg.Add(1)
		go func(id int, ops []Op) {
			defer wg.Done()
			<-start
			local := make([]porcupine.Operation, 0, len(ops))
			for _, o := range ops {
				out := cout{First: -1}
				call := atomic.AddInt64(&clock, 1)
				switch o.Kind {
				case "add":
					tr.Add(o.Topic, o.Value)
				case "set":
					tr.Set(o.Topic, o.Value)
				case "remove":
					tr.Remove(o.Topic, o.Value)
				case "empty":
					tr.Empty(o.Topic)
				case "clear":
					tr.Clear(o.Value)
				case "reset":
					tr.Reset()
				case "get":
					r := tr.Get(o.Topic)
					ret := atomic.AddInt64(&clock, 1)
					// touch every element after the return: aliasing with a concurrent Remove is a race
					runtime.Gosched()
					out.Vals = toInts(r)
					local = append(local, porcupine.Operation{ClientId: id, Input: cin{o}, Call: call, Output: out, Return: ret})
					continue
				case "match":
					out.Vals = toInts(tr.Match(o.Topic))
				case "search":
					out.Vals = toInts(tr.Search(o.Topic))
				case "matchfirst":
					if f := tr.MatchFirst(o.Topic); f != nil {
						out.First = f.(int)
					}
				case "searchfirst":
					if f := tr.SearchFirst(o.Topic); f != nil {
						out.First = f.(int)
					}
				case "all":
					out.Vals = toInts(tr.All())
				case "count":
					out.N = tr.Count()
				}
				ret := atomic.AddInt64(&clock, 1)
				local = append(local, porcupine.Operation{ClientId: id, Input: cin{o}, Call: call, Output: out, Return: ret})
			}
			atomic.AddInt64(&sink, int64(len(local)))
			mu.Lock()
			hist = append(hist, local...)
			mu.Unlock()
		}(id, ops)
	}
	close(start)
	wg.Wait()
	res, info := porcupine.CheckOperationsVerbose(porcModel(c.Mode), hist, 20*time.Second)
	_ = info
	switch res {
	case porcupine.Ok:
		return nil, false
	case porcupine.Unknown:
		return nil, true
	}
	sort.Slice(hist, func(i, j int) bool { return hist[i].Call < hist[j].Call })
	var sb strings.Builder
	for _, h := range hist {
		fmt.Fprintf(&sb, "g%d [%d,%d] %v -> %v\n", h.ClientId, h.Call, h.Return, h.Input.(cin).Op, h.Output)
	}
	return &verdict{"concurrent/not-linearizable", "recorded history has no linearization against the map model:\n" + sb.String()}, false
}

// runRenamed: the same history on a standard tree and on a tree configured with
// another separator and other wildcard symbols (topics translated level by
// level) must give the same answers to every query: the symbols are
// configuration, not meaning.
func runRenamed(c *Case, sep, one, some string) *verdict {
	xl := func(t string) string {
		ls := strings.Split(t, "/")
		for i, l := range ls {
			switch l {
			case "+":
				ls[i] = one
			case "#":
				ls[i] = some
			}
		}
		return strings.Join(ls, sep)
	}
	std, ren := topic.NewStandardTree(), topic.NewTree(sep, one, some)
	diff := func(step int, what string, a, b []interface{}) *verdict {
		x, y := toInts(a), toInts(b)
		if !eq(x, y) {
			return &verdict{"renamed/" + what + "-differs", fmt.Sprintf("step %d: %s = %v on the standard tree, %v on a tree with separator %q and wildcards %q %q (same history, topics translated)", step, what, x, y, sep, one, some)}
		}
		return nil
	}
	for i, o := range c.Ops {
		m := reftopic.Model{}
		apply(std, m, o)
		o2 := o
		o2.Topic = xl(o.Topic)
		apply(ren, m, o2)
		for _, tp := range universe(c.Mode) {
			if v := diff(i, "Get("+tp+")", std.Get(tp), ren.Get(xl(tp))); v != nil {
				return v
			}
		}
		for _, q := range probes(c.Mode) {
			if c.Mode == "names" {
				if v := diff(i, "Search("+q+")", std.Search(q), ren.Search(xl(q))); v != nil {
					return v
				}
			} else if v := diff(i, "Match("+q+")", std.Match(q), ren.Match(xl(q))); v != nil {
				return v
			}
		}
		if v := diff(i, "All()", std.All(), ren.All()); v != nil {
			return v
		}
		if std.Count() != ren.Count() {
			return &verdict{"renamed/count-differs", fmt.Sprintf("step %d: Count() = %d on the standard tree, %d on the renamed one", i, std.Count(), ren.Count())}
		}
	}
	return nil
}

// runHerd: confluent concurrent writes, audited at quiescence against the model.
func runHerd(c *Case) *verdict {
	if c.Procs > 0 {
		defer runtime.GOMAXPROCS(runtime.GOMAXPROCS(c.Procs))
	}
	rounds := c.Rounds
	if rounds < 1 {
		rounds = 1
	}
	for r := 0; r < rounds; r++ {
		tr := topic.NewStandardTree()
		m := reftopic.Model{}
		for _, o := range c.Ops {
			apply(tr, m, o)
		}
		var wg sync.WaitGroup
		start := make(chan struct{})
		for _, o := range c.Herd {
			wg.Add(1)
			go func(o Op) {
				defer wg.Done()
				<-start
				switch o.Kind {
				case "add":
					tr.Add(o.Topic, o.Value)
				case "remove":
					tr.Remove(o.Topic, o.Value)
				}
			}(o)
		}
		close(start)
		wg.Wait()
		for _, o := range c.Herd {
			apply(topic.NewStandardTree(), m, o)
		}
		if v := compare(tr, m, c.Mode, len(c.Ops), nil); v != nil {
			return &verdict{"herd/" + v.sig, fmt.Sprintf("round %d: after %d goroutines issued their (commuting, idempotent) writes at once: %s", r, len(c.Herd), v.msg)}
		}
		if v := noTrace(tr, m, len(c.Ops)); v != nil {
			return &verdict{"herd/" + v.sig, fmt.Sprintf("round %d: %s", r, v.msg)}
		}
	}
	return nil
}

func genHerd(rt *rapid.T) *Case {
	c := &Case{Mode: rapid.SampledFrom([]string{"filters", "names"}).Draw(rt, "mode")}
	u := universe(c.Mode)
	for n := rapid.IntRange(0, 4).Draw(rt, "prefix"); n > 0; n-- {
		c.Ops = append(c.Ops, genWrite(rt, c.Mode, 3))
	}
	type pair struct {
		t string
		v int
	}
	kindOf := map[pair]string{}
	distinct := rapid.IntRange(1, 4).Draw(rt, "distinct")
	for i := 0; i < distinct; i++ {
		pr := pair{rapid.SampledFrom(u).Draw(rt, "ht"), rapid.IntRange(1, 3).Draw(rt, "hv")}
		k, seen := kindOf[pr]
		if !seen {
			k = rapid.SampledFrom([]string{"add", "add", "remove"}).Draw(rt, "hk")
			kindOf[pr] = k
		}
		for copies := rapid.SampledFrom([]int{1, 2, 2, 3, 4, 8}).Draw(rt, "copies"); copies > 0 && len(c.Herd) < 16; copies-- {
			c.Herd = append(c.Herd, Op{Kind: k, Topic: pr.t, Value: pr.v})
		}
	}
	c.Procs = rapid.SampledFrom([]int{0, 0, 2, 4}).Draw(rt, "procs")
	c.Rounds = 30
	if ev.Thorough() {
		c.Rounds = 200
	}
	return c
}

func runCase(c *Case) (*verdict, bool) {
	if len(c.Herd) > 0 {
		return runHerd(c), false
	}
	if len(c.Threads) > 0 {
		return runConcurrent(c)
	}
	return runSequential(c, true), false
}

// ---- generators ------------------------------------------------------------

func genWrite(rt *rapid.T, mode string, nvals int) Op {
	u := universe(mode)
	k := rapid.SampledFrom([]string{"add", "add", "add", "set", "remove", "remove", "empty", "clear", "reset"}).Draw(rt, "kind")
	o := Op{Kind: k}
	if k != "clear" && k != "reset" {
		o.Topic = rapid.SampledFrom(u).Draw(rt, "topic")
	}
	if k == "add" || k == "set" || k == "remove" || k == "clear" {
		o.Value = rapid.IntRange(1, nvals).Draw(rt, "value")
	}
	if k == "reset" && rapid.IntRange(0, 3).Draw(rt, "rare") != 0 {
		o = Op{Kind: "add", Topic: rapid.SampledFrom(u).Draw(rt, "topic2"), Value: rapid.IntRange(1, nvals).Draw(rt, "value2")}
	}
	return o
}

func genQuery(rt *rapid.T, mode string) Op {
	if mode == "names" {
		k := rapid.SampledFrom([]string{"get", "search", "search", "searchfirst", "all", "count"}).Draw(rt, "qk")
		switch k {
		case "get":
			return Op{Kind: k, Topic: rapid.SampledFrom(nameUniverse).Draw(rt, "qt")}
		case "search", "searchfirst":
			return Op{Kind: k, Topic: rapid.SampledFrom(searchProbes).Draw(rt, "qt")}
		}
		return Op{Kind: k}
	}
	k := rapid.SampledFrom([]string{"get", "match", "match", "matchfirst", "all", "count"}).Draw(rt, "qk")
	switch k {
	case "get":
		return Op{Kind: k, Topic: rapid.SampledFrom(filterUniverse).Draw(rt, "qt")}
	case "match", "matchfirst":
		return Op{Kind: k, Topic: rapid.SampledFrom(matchProbes).Draw(rt, "qt")}
	}
	return Op{Kind: k}
}

// emptiesUnderPopulatedAncestor: the non-trivial rule of the sequential half.
func nontrivialSeq(c *Case) bool {
	m := reftopic.Model{}
	for _, o := range c.Ops {
		before := len(m[o.Topic])
		apply(topic.NewStandardTree(), m, o)
		if (o.Kind == "remove" || o.Kind == "empty") && before > 0 && len(m[o.Topic]) == 0 {
			// some other topic that is a strict prefix or extension is still populated
			for k := range m {
				if k != o.Topic && (strings.HasPrefix(o.Topic, k+"/") || strings.HasPrefix(k, o.Topic+"/")) {
					return true
				}
			}
		}
		if o.Kind == "clear" && before == 0 {
			for k := range m {
				_ = k
				return true
			}
		}
	}
	return false
}

func TestC05(t *testing.T) {
	run := ev.Start("C05", "exploration")
	run.Rule("sequential: bounded-exhaustive op sequences over {Add,Set,Remove,Empty,Clear,Reset} x 4 topics x 2 values (length <= 3 quick, <= 5 thorough) and rapid op lists over 9-11 topics x 4 values with all queries, String() and all earlier returned slices re-checked after every step; concurrent: 2-16 goroutines running generated op lists on one tree under -race, history checked for linearizability against the map model (porcupine); renamed: the same generated history on a standard tree and on trees configured with another one-character separator and other wildcard symbols ('.', '*', '>' and others; topics translated level by level) must answer every query alike; herd: after a sequential prefix up to 16 goroutines issue commuting, idempotent writes (Add/Remove, the same write by 1-8 goroutines, no pair both added and removed) at the same moment, 30 (quick) / 200 rounds per case on fresh trees, then every query, Count and the printed structure are compared with the model (the result is the same for every interleaving). non-trivial = a removal empties a node under/above a still populated one, or (concurrent) >= 2 goroutines with both writes and queries, or (herd) one write issued by >= 2 goroutines at once; distinct by case JSON")
	run.Assume("values are comparable and non-nil; Remove(t, nil) (alias of Empty) is not generated; Go scheduler interleavings are sampled")
	defer run.Finish(t)
	shard, shards := ev.Shard()

	// --- bounded exhaustive
	for _, mode := range []string{"filters", "names"} {
		var alpha []Op
		small := []string{"a", "a/b", "a/+", "a/#"}
		if mode == "names" {
			small = []string{"a", "a/b", "a/b/c", "b"}
		}
		for _, tp := range small {
			for v := 1; v <= 2; v++ {
				alpha = append(alpha, Op{"add", tp, v}, Op{"set", tp, v}, Op{"remove", tp, v})
			}
			alpha = append(alpha, Op{Kind: "empty", Topic: tp})
		}
		alpha = append(alpha, Op{Kind: "clear", Value: 1}, Op{Kind: "clear", Value: 2}, Op{Kind: "reset"})
		maxLen := 3
		if ev.Thorough() {
			maxLen = 5
		}
		var rec func(prefix []Op)
		stop := false
		rec = func(prefix []Op) {
			if stop {
				return
			}
			if len(prefix) > 0 {
				c := &Case{Mode: mode, Ops: prefix}
				run.Eval(1)
				if v := runSequential(c, false); v != nil {
					cc := &Case{Mode: mode, Ops: append([]Op{}, prefix...)}
					if v2 := runSequential(cc, true); v2 != nil {
						v = v2
					}
					run.Violation(v.sig, v.msg, cc)
					stop = true
					return
				}
				if len(prefix) >= 3 && nontrivialSeq(c) {
					run.NonTrivial(ev.Hash(mode, fmt.Sprint(prefix)), func() interface{} { return &Case{Mode: mode, Ops: append([]Op{}, prefix...)} })
				}
			}
			if len(prefix) == maxLen {
				return
			}
			for i, o := range alpha {
				if len(prefix) == 0 && i%shards != shard {
					continue
				}
				rec(append(prefix, o))
			}
		}
		rec(make([]Op, 0, maxLen))
		run.Exhaustive(fmt.Sprintf("mode %s: all op sequences of length <= %d over %d operations (4 topics x 2 values)", mode, maxLen, len(alpha)))
	}

	// --- sequential random
	run.Rapid(t, "sequential", ev.Pick(800, 60000), func(rt *rapid.T) {
		c := &Case{Mode: rapid.SampledFrom([]string{"filters", "names"}).Draw(rt, "mode")}
		n := rapid.IntRange(1, 60).Draw(rt, "n")
		if ev.Thorough() && rapid.IntRange(0, 19).Draw(rt, "long") == 0 {
			n = rapid.IntRange(100, 300).Draw(rt, "nlong")
		}
		for i := 0; i < n; i++ {
			c.Ops = append(c.Ops, genWrite(rt, c.Mode, 4))
		}
		run.Eval(1)
		run.Class("sequential:" + c.Mode)
		if nontrivialSeq(c) {
			run.NonTrivialJSON(c)
		}
		if v := runSequential(c, true); v != nil {
			run.Candidate(v.sig, v.msg, c)
			rt.Fatalf("%s: %s", v.sig, v.msg)
		}
	})

	// --- concurrent
	run.Rapid(t, "concurrent", ev.Pick(300, 12000), func(rt *rapid.T) {
		c := &Case{Mode: rapid.SampledFrom([]string{"filters", "names"}).Draw(rt, "mode")}
		g := rapid.SampledFrom([]int{2, 2, 3, 4, 8, 16}).Draw(rt, "goroutines")
		total := rapid.IntRange(g, 40).Draw(rt, "total")
		c.Procs = rapid.SampledFrom([]int{0, 1, 2, 4}).Draw(rt, "procs")
		c.Threads = make([][]Op, g)
		writes, queries := 0, 0
		for i := 0; i < total; i++ {
			th := i % g
			if rapid.Bool().Draw(rt, "isquery") {
				c.Threads[th] = append(c.Threads[th], genQuery(rt, c.Mode))
				queries++
			} else {
				c.Threads[th] = append(c.Threads[th], genWrite(rt, c.Mode, 3))
				writes++
			}
		}
		run.Eval(1)
		run.Class(fmt.Sprintf("concurrent:goroutines=%d", g))
		if writes > 0 && queries > 0 {
			run.NonTrivialJSON(c)
		}
		v, inc := runConcurrent(c)
		if inc {
			run.Inconclusive()
		}
		if v != nil {
			run.Candidate(v.sig, v.msg, c)
			rt.Fatalf("%s: %s", v.sig, v.msg)
		}
	})

	// --- other separator / wildcard symbols: same answers
	run.Rapid(t, "renamed", ev.Pick(300, 6000), func(rt *rapid.T) {
		c := &Case{Mode: rapid.SampledFrom([]string{"filters", "names"}).Draw(rt, "mode")}
		for n := rapid.IntRange(1, 12).Draw(rt, "n"); n > 0; n-- {
			c.Ops = append(c.Ops, genWrite(rt, c.Mode, 3))
		}
		sym := rapid.SampledFrom([][3]string{{".", "*", ">"}, {"/", "*", ">"}, {"|", "?", "**"}, {"|", "+", "#"}}).Draw(rt, "symbols")
		run.Eval(1)
		run.Class("renamed-symbols")
		run.NonTrivialJSON(c)
		if v := runRenamed(c, sym[0], sym[1], sym[2]); v != nil {
			run.Candidate(v.sig, v.msg, c)
			rt.Fatalf("%s: %s", v.sig, v.msg)
		}
	})

	// --- herd: identical / commuting writes issued at the same moment
	run.Rapid(t, "herd", ev.Pick(400, 8000), func(rt *rapid.T) {
		c := genHerd(rt)
		run.Eval(1)
		run.Class(fmt.Sprintf("herd:goroutines=%d", len(c.Herd)))
		if herdNonTrivial(c) {
			run.NonTrivialJSON(c)
		}
		if v := runHerd(c); v != nil {
			run.Candidate(v.sig, v.msg, c)
			rt.Fatalf("%s: %s", v.sig, v.msg)
		}
	})
}

func herdNonTrivial(c *Case) bool {
	seen := map[Op]bool{}
	for _, o := range c.Herd {
		if seen[o] {
			return true // the same write issued by two goroutines at once
		}
		seen[o] = true
	}
	return false
}

func TestReplay(t *testing.T) {
	var c Case
	ok, err := ev.ReplayCase(&c)
	if !ok {
		t.Skip("no VERIF_REPLAY")
	}
	if err != nil {
		t.Fatal(err)
	}
	for i := 0; i < 50; i++ {
		if v, _ := runCase(&c); v != nil {
			t.Fatalf("VIOLATION reproduced: %s: %s", v.sig, v.msg)
		}
		if len(c.Threads) == 0 {
			break
		}
	}
	t.Log("case passes")
}
