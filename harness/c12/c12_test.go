// C12 — the will is published exactly once iff the client was accepted and did not send DISCONNECT.
package c12

import (
	"fmt"
	"strings"
	"testing"
	"time"

	"github.com/256dpi/gomqtt/broker"
	"github.com/256dpi/gomqtt/packet"
	"pgregory.net/rapid"

	"verif/internal/bk"
	"verif/internal/ev"
	"verif/internal/memconn"
	"verif/internal/peer"
)

// Case is one (termination cause, protocol state, will) combination with
// generated surrounding traffic.
type Case struct {
	Cause      string `json:"cause"`
	Variant    int    `json:"variant,omitempty"`
	State      string `json:"state"`
	WillQoS    int    `json:"will_qos"`
	WillRetain bool   `json:"will_retain,omitempty"`
	Pre        []int  `json:"pre,omitempty"` // QoS of messages the dying client publishes (complete handshakes) first
	Clean      bool   `json:"clean,omitempty"`
	// Saturated: one more online observer (persistent session, queue 3, window
	// 1) that has stopped acknowledging, so that its window and queue are full
	// when the will is due; it starts acknowledging again afterwards.
	Saturated bool `json:"saturated,omitempty"`
}

type verdict struct{ sig, msg string }

const (
	willTopic = "c12/will"
	willTag   = "will-1"
)

// connect-time causes end the connection during CONNECT processing
var connectCauses = map[string]bool{"auth-rejected": true, "auth-error": true, "non-connect-first": true, "connack-lost": true, "setup-error": true, "restore-error": true, "resend-send-fault": true}

func valid(cause, state string) bool {
	switch cause {
	case "token-timeout":
		return state == "token-blocked"
	case "resend-send-fault":
		return state == "resumed"
	case "non-connect-first", "auth-rejected", "auth-error", "setup-error":
		return state == "idle"
	case "connack-lost", "restore-error":
		return state == "idle" || state == "resumed"
	}
	if state == "token-blocked" {
		return cause == "takeover" || cause == "backend-close"
	}
	return true
}

var causes = []string{"disconnect", "eof", "recv-fault", "send-fault", "malformed", "second-connect", "server-only", "keepalive", "takeover", "backend-close", "token-timeout", "hook-error", "auth-rejected", "auth-error", "non-connect-first", "connack-lost", "setup-error", "restore-error", "resend-send-fault"}
var states = []string{"idle", "in-qos2", "out-unacked", "token-blocked", "resumed"}

func variants(cause string) int {
	switch cause {
	case "send-fault", "connack-lost", "takeover":
		return 2
	case "malformed", "server-only", "non-connect-first", "hook-error", "resend-send-fault":
		return 4
	}
	return 1
}

type scen struct {
	c     *Case
	b     *bk.Broker
	on    *peer.Peer
	onp   *peer.Peer // online observer with a persistent session
	pub   *peer.Peer
	d     *peer.Peer
	dconn *memconn.Conn
	auth  bool
	mark  int
}

func (s *scen) fail(sig, format string, a ...interface{}) *verdict {
	return &verdict{sig, fmt.Sprintf(format, a...) + "\n--- event log ---\n" + s.b.Log.Dump()}
}

func (s *scen) connectPkt(id string, clean bool, will bool) *packet.Connect {
	cp := packet.NewConnect()
	cp.ClientID, cp.CleanSession = id, clean
	if s.auth {
		cp.Username, cp.Password = "u", "p"
	}
	if will {
		cp.Will = &packet.Message{Topic: willTopic, Payload: []byte(willTag), QOS: packet.QOS(s.c.WillQoS), Retain: s.c.WillRetain}
	}
	return cp
}

func (s *scen) helper(id string, clean bool, subscribe bool) (*peer.Peer, *memconn.Conn, *verdict) {
	p, bc := s.b.Dial(id)
	if _, err := p.Connect(s.connectPkt(id, clean, false)); err != nil {
		return nil, nil, s.fail("harness/helper-connect", "%s: %v", id, err)
	}
	if subscribe {
		if _, err := p.Subscribe([]packet.Subscription{{Topic: willTopic, QOS: 2}, {Topic: peer.MarkerTopic, QOS: 1}}); err != nil {
			return nil, nil, s.fail("harness/helper-subscribe", "%s: %v", id, err)
		}
	}
	return p, bc, nil
}

// barrier: after it returns, everything published before has reached p.
func (s *scen) barrier(p *peer.Peer, from int) bool {
	s.mark++
	tag := fmt.Sprintf("b%d", s.mark)
	if s.pub.Markers(tag) != nil {
		return false
	}
	return p.AwaitMarkers(from, tag)
}

func wills(p *peer.Peer, from int) []*packet.Publish {
	var out []*packet.Publish
	for _, g := range p.Publishes(from) {
		if g.Message.Topic == willTopic && string(g.Message.Payload) == willTag {
			out = append(out, g)
		}
	}
	return out
}

func (s *scen) waitLog(pred func(memconn.Event) bool) bool {
	deadline := time.Now().Add(ev.Ceiling())
	for {
		for _, e := range s.b.Log.Events() {
			if pred(e) {
				return true
			}
		}
		if time.Now().After(deadline) {
			return false
		}
		time.Sleep(50 * time.Microsecond)
	}
}

func runCase(c *Case) (*verdict, bool) {
	s := &scen{c: c, auth: c.Cause == "auth-rejected"}
	s.b = bk.New(func(m *broker.MemoryBackend, e *broker.Engine) {
		if s.auth {
			m.Credentials = map[string]string{"u": "p"}
		}
		if c.State == "token-blocked" {
			m.ClientParallelPublishes = 1
		}
		if c.Cause == "token-timeout" {
			m.ClientTokenTimeout = 40 * time.Millisecond * ev.Slow()
		}
		if c.Saturated {
			m.SessionQueueSize = 3
			m.ClientInflightMessages = 1
		}
	})
	defer s.b.Shutdown()
	b := s.b
	if c.Cause == "keepalive" {
		b.Rec.KeepAliveFor = map[string]time.Duration{"d": 60 * time.Millisecond * ev.Slow()}
	}
	var v *verdict
	if s.on, _, v = s.helper("on", true, true); v != nil {
		return v, false
	}
	if s.onp, _, v = s.helper("onp", false, true); v != nil {
		return v, false
	}
	if s.pub, _, v = s.helper("pub", true, false); v != nil {
		return v, false
	}
	off, offConn, v := s.helper("off", false, true)
	if v != nil {
		return v, false
	}
	off.Drop()
	if !b.WaitClosed(offConn) {
		return s.fail("harness/offline-observer", "offline observer did not terminate"), false
	}

	var sat *peer.Peer
	var satConn *memconn.Conn
	satQuit, satDone := make(chan struct{}), make(chan struct{})
	if c.Saturated {
		sat, satConn = b.Dial("sat")
		sat.AutoAck = false
		if _, err := sat.Connect(s.connectPkt("sat", false, false)); err != nil {
			return s.fail("harness/saturated-observer", "%v", err), false
		}
		if _, err := sat.Subscribe([]packet.Subscription{{Topic: willTopic, QOS: 2}, {Topic: "c12/fill", QOS: 1}, {Topic: peer.MarkerTopic, QOS: 1}}); err != nil {
			return s.fail("harness/saturated-observer", "%v", err), false
		}
		for i := 0; i < 4; i++ { // one delivery in flight (window 1) + three queued (queue 3)
			if err := s.pub.Publish("c12/fill", []byte(fmt.Sprintf("filler-%d", i)), 1, false); err != nil {
				return s.fail("harness/saturated-observer", "%v", err), false
			}
		}
		if sat.WaitFor(0, func(g packet.Generic) bool { return g.Type() == packet.PUBLISH }, ev.Ceiling()) < 0 {
			return s.fail("harness/saturated-observer", "filler not delivered"), false
		}
		defer func() {
			select {
			case <-satQuit:
			default:
				close(satQuit)
			}
			<-satDone
		}()
		go func() { // resumes acknowledging once the will is being handed over (or shortly after the cause)
			defer close(satDone)
			start := time.Now()
			for {
				seen := false
				for _, call := range b.Rec.Calls() {
					if call.Hook == "Publish" && call.Tag == willTag {
						seen = true
					}
				}
				select {
				case <-satQuit:
					return
				default:
				}
				if seen || time.Since(start) > 60*time.Millisecond*ev.Slow() {
					break
				}
				time.Sleep(200 * time.Microsecond)
			}
			time.Sleep(2 * time.Millisecond) // let the hand-over reach the full queue
			for _, g := range sat.Inbox {
				if p, ok := g.(*packet.Publish); ok && p.Message.QOS == 1 {
					_ = sat.Send(&packet.Puback{ID: p.ID})
				}
			}
			sat.AutoAck = true
			for !sat.EOF {
				select {
				case <-satQuit:
					return
				default:
				}
				sat.PumpWait(time.Millisecond)
			}
		}()
	}
	clean := c.Clean
	if c.State == "resumed" {
		clean = false
		// first connection: persistent session, two deliveries left unacknowledged
		p1, bc1 := b.Dial("d")
		p1.AutoAck = false
		if _, err := p1.Connect(s.connectPkt("d", false, false)); err != nil {
			return s.fail("harness/first-connect", "%v", err), false
		}
		if _, err := p1.Subscribe([]packet.Subscription{{Topic: "c12/self", QOS: 2}}); err != nil {
			return s.fail("harness/first-subscribe", "%v", err), false
		}
		for i, q := range []packet.QOS{1, 2} {
			if err := s.pub.Publish("c12/self", []byte(fmt.Sprintf("self-%d", i)), q, false); err != nil {
				return s.fail("harness/self-publish", "%v", err), false
			}
		}
		n := 0
		if p1.WaitFor(0, func(g packet.Generic) bool {
			if g.Type() == packet.PUBLISH {
				n++
			}
			return n == 2
		}, ev.Ceiling()) < 0 {
			return s.fail("harness/self-delivery", "deliveries to the first connection did not arrive"), false
		}
		p1.Drop()
		if !b.WaitClosed(bc1) {
			return s.fail("harness/first-terminate", "first connection did not terminate"), false
		}
	}

	// ---- the dying client's connection
	firstNonConnect := c.Cause == "non-connect-first"
	s.d, s.dconn = b.DialPlan("d", 0, false, func(bc *memconn.Conn) {
		switch c.Cause {
		case "connack-lost":
			bc.FailNextSend(packet.CONNACK, c.Variant&1 == 1, 0)
		case "resend-send-fault":
			bc.FailNextSend(packet.PUBLISH, c.Variant&1 == 1, (c.Variant>>1)&1)
		}
	})
	d, dconn := s.d, s.dconn
	d.AutoAck = false
	switch c.Cause {
	case "setup-error":
		b.Rec.FailNext("Setup")
	case "restore-error":
		b.Rec.FailNext("Restore")
	case "auth-error":
		b.Rec.FailNext("Authenticate")
	}
	onFrom, onpFrom := len(s.on.Inbox), len(s.onp.Inbox)
	switch {
	case firstNonConnect:
		switch c.Variant {
		case 0:
			_ = d.Send(&packet.Publish{Message: packet.Message{Topic: willTopic, Payload: []byte(willTag), QOS: 0}})
		case 1:
			_ = d.Send(packet.NewPingreq())
		case 2:
			_ = d.Send(&packet.Subscribe{ID: 1, Subscriptions: []packet.Subscription{{Topic: "#", QOS: 1}}})
		default:
			d.C.SendRaw([]byte{0x10, 0x03, 0x00, 0x04, 'M'})
		}
	case s.auth:
		cp := s.connectPkt("d", clean, true)
		cp.Password = "wrong"
		_ = d.Send(cp)
	default:
		_ = d.Send(s.connectPkt("d", clean, true))
	}
	connectEnds := connectCauses[c.Cause]
	if !connectEnds {
		if d.WaitFor(0, func(g packet.Generic) bool { return g.Type() == packet.CONNACK }, ev.Ceiling()) < 0 {
			return s.fail("harness/dying-connect", "no CONNACK for the dying client (eof=%v)", d.EOF), false
		}
		// wait until the connect phase (resend, Restore) is over
		if !s.waitRestore(dconn) {
			return s.fail("harness/dying-connect", "Restore not reached"), false
		}
		// surrounding traffic
		for i, q := range c.Pre {
			if err := d.Publish("c12/pre", []byte(fmt.Sprintf("pre-%d", i)), packet.QOS(q), false); err != nil {
				return s.fail("harness/pre-traffic", "%v", err), false
			}
		}
		// protocol state
		prep := func() *verdict {
			switch c.State {
			case "in-qos2":
				from := len(d.Inbox)
				_ = d.Send(&packet.Publish{ID: 77, Message: packet.Message{Topic: "c12/x", Payload: []byte("x"), QOS: 2}})
				if d.WaitFor(from, func(g packet.Generic) bool { return g.Type() == packet.PUBREC }, ev.Ceiling()) < 0 {
					return s.fail("harness/state", "no PUBREC")
				}
			case "out-unacked":
				if _, err := d.Subscribe([]packet.Subscription{{Topic: "c12/self", QOS: 2}}); err != nil {
					return s.fail("harness/state", "%v", err)
				}
				from := len(d.Inbox)
				for i, q := range []packet.QOS{1, 2} {
					if err := s.pub.Publish("c12/self", []byte(fmt.Sprintf("self-%d", i)), q, false); err != nil {
						return s.fail("harness/state", "%v", err)
					}
				}
				n := 0
				if d.WaitFor(from, func(g packet.Generic) bool {
					if g.Type() == packet.PUBLISH {
						n++
					}
					return n == 2
				}, ev.Ceiling()) < 0 {
					return s.fail("harness/state", "self deliveries did not arrive")
				}
			case "token-blocked":
				b.Rec.SetAckModeFor("never", "d")
				_ = d.Send(&packet.Publish{ID: 1, Message: packet.Message{Topic: "c12/y", Payload: []byte("y1"), QOS: 1}})
				_ = d.Send(&packet.Publish{ID: 2, Message: packet.Message{Topic: "c12/y", Payload: []byte("y2"), QOS: 1}})
				if !s.waitLog(func(e memconn.Event) bool {
					return e.Actor == dconn.Name && e.Op == "recv" && e.Type == "Publish" && e.ID == 2
				}) {
					return s.fail("harness/state", "second publish not read")
				}
			case "resumed":
				n := 0
				if d.WaitFor(0, func(g packet.Generic) bool {
					if g.Type() == packet.PUBLISH || g.Type() == packet.PUBREL {
						n++
					}
					return n == 2
				}, ev.Ceiling()) < 0 {
					return s.fail("harness/state", "retransmissions did not arrive")
				}
			}
			return nil
		}
		if pv := prep(); pv != nil {
			if !(c.Cause == "keepalive" && (d.EOF || dconn.Closed())) {
				return pv, false
			}
			// the keep-alive expired while the state was being prepared: judged from here
		}
		// ---- the cause
		var d2 *peer.Peer
		switch c.Cause {
		case "disconnect":
			d.Disconnect()
		case "eof":
			d.Drop()
		case "recv-fault":
			dconn.SetFail(1, false)
			_ = d.Send(packet.NewPingreq())
		case "send-fault":
			dconn.FailNextSend(packet.PINGRESP, c.Variant&1 == 1, 0)
			_ = d.Send(packet.NewPingreq())
		case "malformed":
			raw := [][]byte{{0x30, 0x02, 0x00, 0x05}, {0xF0, 0x00}, {0x32, 0x00}, {0x82, 0x02, 0x00, 0x01}}[c.Variant%4]
			d.C.SendRaw(raw)
		case "second-connect":
			_ = d.Send(s.connectPkt("d", clean, true))
		case "server-only":
			_ = d.Send([]packet.Generic{packet.NewConnack(), &packet.Suback{ID: 1, ReturnCodes: []packet.QOS{0}}, &packet.Unsuback{ID: 1}, packet.NewPingresp()}[c.Variant%4])
		case "keepalive", "token-timeout":
			// just wait
		case "takeover":
			d2, _ = b.Dial("d")
			if _, err := d2.Connect(s.connectPkt("d", c.Variant&1 == 1, false)); err != nil {
				return s.fail("takeover/newcomer-not-connected", "%v", err), false
			}
		case "backend-close":
			if !b.Mem.Close(ev.Ceiling()) {
				return s.fail("liveness/backend-close-timeout", "MemoryBackend.Close did not see all clients closed within the ceiling"), false
			}
		case "hook-error":
			switch c.Variant % 4 {
			case 0:
				b.Rec.FailNext("Subscribe")
				_ = d.Send(&packet.Subscribe{ID: 9, Subscriptions: []packet.Subscription{{Topic: "c12/z", QOS: 1}}})
			case 1:
				b.Rec.FailNext("Unsubscribe")
				_ = d.Send(&packet.Unsubscribe{ID: 9, Topics: []string{"c12/z"}})
			case 2:
				b.Rec.FailNext("Publish")
				_ = d.Send(&packet.Publish{ID: 9, Message: packet.Message{Topic: "c12/z", Payload: []byte("z"), QOS: 1}})
			case 3:
				b.Rec.FailNext("Publish")
				_ = d.Send(&packet.Publish{Message: packet.Message{Topic: "c12/z", Payload: []byte("z"), QOS: 0}})
			}
		}
		if !b.WaitClosed(dconn) {
			return s.fail("liveness/not-terminated", "the connection of the dying client was not terminated (cause %s)", c.Cause), false
		}
		if d2 != nil && !d2.Ping() {
			return s.fail("takeover/newcomer-not-alive", "the connection that took the client id over does not answer PINGREQ"), false
		}
	} else {
		if !b.WaitClosed(dconn) {
			return s.fail("liveness/not-terminated", "the connection was not terminated (cause %s)", c.Cause), false
		}
	}

	// ---- oracle
	cl := b.Rec.ClientOf(dconn)
	accepted := false
	for _, call := range b.Rec.Calls() {
		if call.Hook == "Setup" && call.Done && call.Client == cl && call.Err == nil {
			accepted = true
		}
	}
	gotDisconnect := false
	for _, e := range b.Log.Events() {
		if e.Actor == dconn.Name && e.Op == "recv" && e.Type == "Disconnect" {
			gotDisconnect = true
		}
	}
	expected := 0
	if accepted && !gotDisconnect {
		expected = 1
	}
	var willCalls []bk.Call
	for _, call := range b.Rec.Calls() {
		if call.Hook == "Publish" && !call.Done && call.Tag == willTag {
			willCalls = append(willCalls, call)
		}
	}
	switch {
	case len(willCalls) < expected:
		return s.fail("will/not-published", "the client was accepted (Setup succeeded) and sent no DISCONNECT, its connection ended by %q in state %q, but the will was not published", c.Cause, c.State), true
	case len(willCalls) > expected && expected == 0:
		return s.fail("will/published-unexpectedly", "the will was handed to the backend %d time(s) although accepted=%v disconnect-received=%v (cause %q)", len(willCalls), accepted, gotDisconnect, c.Cause), true
	case len(willCalls) > expected:
		return s.fail("will/published-more-than-once", "the will was handed to the backend %d times (cause %q state %q)", len(willCalls), c.Cause, c.State), true
	}
	if expected == 1 {
		m := willCalls[0]
		if m.Client != cl {
			return s.fail("will/wrong-publisher", "the will was published on behalf of another client"), true
		}
		if m.Msg.Topic != willTopic || string(m.Msg.Payload) != willTag || int(m.Msg.QOS) != c.WillQoS || m.Msg.Retain != c.WillRetain {
			return s.fail("will/altered", "will handed to the backend as topic=%q payload=%q qos=%d retain=%v; supplied topic=%q payload=%q qos=%d retain=%v", m.Msg.Topic, m.Msg.Payload, m.Msg.QOS, m.Msg.Retain, willTopic, willTag, c.WillQoS, c.WillRetain), true
		}
	}
	if c.Cause == "backend-close" {
		return nil, true // every connection is gone and the backend refuses new ones: only the backend boundary can be observed
	}
	// online observers (clean session and persistent session)
	for _, o := range []struct {
		name string
		p    *peer.Peer
		from int
	}{{"clean-session", s.on, onFrom}, {"persistent-session", s.onp, onpFrom}} {
		if !s.barrier(o.p, o.from) {
			return s.fail("harness/barrier", "barrier markers did not reach the online %s observer", o.name), true
		}
		got := wills(o.p, o.from)
		if len(got) != expected {
			return s.fail("will/observer-count", "online %s observer received the will %d times, expected %d", o.name, len(got), expected), true
		}
		for _, g := range got {
			if string(g.Message.Payload) != willTag || int(g.Message.QOS) != c.WillQoS || g.Message.Retain {
				return s.fail("will/observer-content", "online %s observer got will payload=%q qos=%d retain=%v; expected payload=%q qos=%d retain=false", o.name, g.Message.Payload, g.Message.QOS, g.Message.Retain, willTag, c.WillQoS), true
			}
		}
	}
	if c.Saturated {
		// queue 3 / window 1 apply to every session here: observers that are no
		// longer read must leave, or the markers of later barriers pile up behind them
		s.on.Drop()
		s.onp.Drop()
		// the markers are published while the observer is still being drained by
		// its goroutine (otherwise they would wait behind its small queue), then
		// this goroutine takes the observer over and reads up to the markers
		s.mark++
		tag := fmt.Sprintf("b%d", s.mark)
		if s.pub.Markers(tag) != nil {
			return s.fail("harness/barrier", "barrier markers could not be published"), true
		}
		close(satQuit)
		<-satDone
		if !sat.AwaitMarkers(0, tag) {
			return s.fail("harness/barrier", "barrier markers did not reach the observer that had been saturated"), true
		}
		if got := wills(sat, 0); len(got) != expected {
			return s.fail("will/saturated-observer-count", "an online subscriber whose window and queue were full when the will was due (and who acknowledged again afterwards) received the will %d times, expected %d", len(got), expected), true
		}
		sat.Drop() // nobody reads this connection any more: it must not hold up the barriers that follow
		b.WaitClosed(satConn)
	}
	// offline persistent observer
	off2, _ := b.Dial("off")
	if ack, err := off2.Connect(s.connectPkt("off", false, false)); err != nil || !ack.SessionPresent {
		return s.fail("harness/offline-observer", "offline observer could not resume: %v", err), true
	}
	if !s.barrier(off2, 0) {
		return s.fail("harness/barrier", "barrier markers did not reach the resumed observer"), true
	}
	gotOff := wills(off2, 0)
	if c.Saturated {
		off2.Drop()
	}
	if c.WillQoS > 0 || expected == 0 {
		if len(gotOff) != expected {
			return s.fail("will/offline-observer-count", "the persistent observer that was offline received the will %d times after reconnecting, expected %d", len(gotOff), expected), true
		}
	}
	// late subscriber
	late, _, v := s.helper("late", true, false)
	if v != nil {
		return v, true
	}
	if _, err := late.Subscribe([]packet.Subscription{{Topic: willTopic, QOS: 2}, {Topic: peer.MarkerTopic, QOS: 1}}); err != nil {
		return s.fail("harness/late-subscribe", "%v", err), true
	}
	if !s.barrier(late, 0) {
		return s.fail("harness/barrier", "barrier markers did not reach the late subscriber"), true
	}
	wantRet := 0
	if expected == 1 && c.WillRetain {
		wantRet = 1
	}
	gotLate := wills(late, 0)
	if len(gotLate) != wantRet {
		return s.fail("will/retained-replay", "a subscriber arriving later received %d retained will message(s), expected %d (will retain=%v, published=%v)", len(gotLate), wantRet, c.WillRetain, expected == 1), true
	}
	for _, g := range gotLate {
		if !g.Message.Retain || string(g.Message.Payload) != willTag || int(g.Message.QOS) != c.WillQoS {
			return s.fail("will/retained-replay-content", "late subscriber got retain=%v payload=%q qos=%d", g.Message.Retain, g.Message.Payload, g.Message.QOS), true
		}
	}
	return nil, true
}

// waitRestore waits until the connect phase of the client serving conn is
// over (Backend.Restore is the last step of CONNECT processing).
func (s *scen) waitRestore(conn *memconn.Conn) bool {
	deadline := time.Now().Add(ev.Ceiling())
	for {
		if cl := s.b.Rec.ClientOf(conn); cl != nil {
			for _, call := range s.b.Rec.Calls() {
				if call.Hook == "Restore" && call.Client == cl {
					return true
				}
			}
		}
		if time.Now().After(deadline) {
			return false
		}
		time.Sleep(50 * time.Microsecond)
	}
}

func nontrivial(c *Case) bool {
	return (c.Cause != "eof" && c.Cause != "disconnect") || c.State != "idle"
}

func TestC12(t *testing.T) {
	run := ev.Start("C12", "fault_enumeration")
	run.Rule("termination cause {DISCONNECT, peer EOF, carrier failure at Receive / at Send (before/after), malformed frame (4 kinds), second CONNECT, server-only packet (4 kinds), keep-alive expiry, takeover by the same id (clean/unclean), MemoryBackend.Close, token timeout, backend hook error (Subscribe, Unsubscribe, Publish QoS 1, Publish QoS 0), rejected credentials, Authenticate error, non-CONNECT first packet (4 kinds), CONNACK lost (before/after), Setup error, Restore error, send failure inside the resend phase (4 positions)} x protocol state {idle, mid inbound QoS 2, two outbound deliveries unacknowledged, processor blocked on a publish token, resumed session with retransmissions} x will QoS 0-2 x retain: the valid part of this matrix is ENUMERATED completely, then sampled again with generated surrounding traffic. Oracle at the backend boundary: number of Backend.Publish calls carrying the will == 1 iff (Setup succeeded for the connection and no DISCONNECT was received), else 0, with the supplied topic/payload/QoS/retain; plus two online observers (clean and persistent session), optionally an online observer whose window and queue are full when the will is due, a persistent observer that was offline, and a subscriber arriving later (retained replay). non-trivial = cause other than EOF/DISCONNECT or state other than idle; distinct by case")
	run.Assume("'accepted' is read as: the backend's Setup returned a session for the connection (the broker's own acceptance point; the will is armed from then on even if the CONNACK write fails)", "keep-alive expiry uses ClientMaximumKeepAlive = 60 ms (read timeout 90 ms); if it expires while the harness is still preparing the protocol state the case is judged from there, token timeout 40 ms")
	defer run.Finish(t)

	exec := func(c *Case) *verdict {
		run.Eval(1)
		run.Inflight(c)
		v, ok := runCase(c)
		run.ClearInflight()
		if ok {
			run.Class("cause=" + c.Cause)
			run.Class("state=" + c.State)
			if nontrivial(c) {
				run.NonTrivialJSON(c)
			}
		}
		return v
	}
	shard, shards := ev.Shard()
	idx, n := 0, 0
	for _, cause := range causes {
		if cause == "setup-error" && !setupErrorEnabled {
			continue
		}
		for _, state := range states {
			if !valid(cause, state) {
				continue
			}
			for variant := 0; variant < variants(cause); variant++ {
				for q := 0; q <= 2; q++ {
					for _, ret := range []bool{false, true} {
						idx++
						if idx%shards != shard {
							continue
						}
						n++
						c := &Case{Cause: cause, Variant: variant, State: state, WillQoS: q, WillRetain: ret, Clean: (idx/2)%2 == 0}
						if v := exec(c); v != nil {
							run.Violation(v.sig+":"+sigKey(c), v.msg, c)
						}
					}
				}
			}
		}
	}
	for _, cause := range []string{"eof", "disconnect", "malformed", "takeover", "hook-error", "send-fault"} {
		for _, q := range []int{0, 1, 2} {
			idx++
			if idx%shards != shard {
				continue
			}
			n++
			c := &Case{Cause: cause, State: "idle", WillQoS: q, WillRetain: q == 1, Saturated: true, Clean: q == 2}
			if v := exec(c); v != nil {
				run.Violation(v.sig+":"+sigKey(c), v.msg, c)
			}
		}
	}
	run.Exhaustive(fmt.Sprintf("the valid (cause, variant, state, will QoS, retain) matrix: %d combinations (%d in this shard)", idx, n))
	run.Rapid(t, "traffic", ev.Pick(400, 20000), func(rt *rapid.T) {
		var c *Case
		for {
			c = &Case{Cause: rapid.SampledFrom(causes).Draw(rt, "cause"), State: rapid.SampledFrom(states).Draw(rt, "state")}
			if valid(c.Cause, c.State) && (c.Cause != "setup-error" || setupErrorEnabled) && c.Cause != "keepalive" {
				break
			}
		}
		c.Variant = rapid.IntRange(0, variants(c.Cause)-1).Draw(rt, "variant")
		c.WillQoS = rapid.IntRange(0, 2).Draw(rt, "wq")
		c.WillRetain = rapid.Bool().Draw(rt, "wr")
		c.Clean = rapid.Bool().Draw(rt, "clean")
		if c.Cause != "backend-close" && c.State != "token-blocked" && c.State != "out-unacked" && c.State != "resumed" {
			c.Saturated = rapid.IntRange(0, 3).Draw(rt, "saturated") == 0
		}
		if !connectCauses[c.Cause] && c.State != "token-blocked" {
			c.Pre = rapid.SliceOfN(rapid.IntRange(0, 2), 0, 4).Draw(rt, "pre")
		}
		if v := exec(c); v != nil {
			run.Candidate(v.sig+":"+sigKey(c), v.msg, c)
			rt.Fatalf("%s: %s", v.sig, v.msg)
		}
	})
}

func sigKey(c *Case) string {
	if strings.HasPrefix(c.Cause, "hook-error") {
		return fmt.Sprintf("%s/%d", c.Cause, c.Variant%4)
	}
	return c.Cause
}

// setupErrorEnabled: the Setup-failure cause made MemoryBackend.Terminate
// panic before repo commit 8fa49dd (finding F11, found by the C14 check).
const setupErrorEnabled = true

func TestReplay(t *testing.T) {
	var c Case
	ok, err := ev.ReplayCase(&c)
	if !ok {
		t.Skip("no VERIF_REPLAY")
	}
	if err != nil {
		t.Fatal(err)
	}
	for i := 0; i < 5; i++ {
		if v, _ := runCase(&c); v != nil {
			t.Fatalf("VIOLATION reproduced: %s: %s", v.sig, v.msg)
		}
	}
	t.Log("case passes")
}
