// C15 — per-publisher message order is preserved end to end, including retransmissions.
package c15

import (
	"fmt"
	"runtime"
	"sort"
	"strings"
	"sync"
	"sync/atomic"
	"testing"
	"time"

	"github.com/256dpi/gomqtt/broker"
	"github.com/256dpi/gomqtt/client"
	"github.com/256dpi/gomqtt/packet"
	"github.com/256dpi/gomqtt/session"
	"pgregory.net/rapid"

	"verif/internal/bk"
	"verif/internal/ev"
	"verif/internal/fb"
	"verif/internal/memconn"
	"verif/internal/peer"
	"verif/internal/reftopic"
)

type verdict struct{ sig, msg string }

func vf(log *memconn.Log, sig, format string, a ...interface{}) *verdict {
	d := log.Dump()
	if len(d) > 14000 {
		d = d[:3000] + "\n...\n" + d[len(d)-11000:]
	}
	return &verdict{sig, fmt.Sprintf(format, a...) + "\n--- event log ---\n" + d}
}

// ---------------------------------------------------------------- (a) broker, concurrent

// Flow is the concurrent broker scenario.
type Flow struct {
	Pubs   [][]Msg `json:"pubs"` // per publisher: its messages in publication order
	Subs   []Sub   `json:"subs"`
	Window int     `json:"window"`
	Procs  int     `json:"gomaxprocs,omitempty"`
}

// Msg is one published message.
type Msg struct {
	Topic string `json:"t"`
	QoS   int    `json:"q"`
}

// Sub is one subscriber with a single filter.
type Sub struct {
	Filter string `json:"f"`
	QoS    int    `json:"q"`
}

var flowTopics = []string{"c15/a", "c15/b", "c15/a/x"}
var flowFilters = []string{"c15/#", "c15/a", "c15/+", "c15/a/#", "c15/b"}

func runFlow(c *Flow) *verdict {
	if c.Procs > 0 {
		defer runtime.GOMAXPROCS(runtime.GOMAXPROCS(c.Procs))
	}
	b := bk.New(func(m *broker.MemoryBackend, e *broker.Engine) { m.ClientInflightMessages = c.Window })
	defer b.Shutdown()
	type subState struct {
		p      *peer.Peer
		expect map[string]int // stream key -> expected count
		total  int
	}
	subs := make([]*subState, len(c.Subs))
	for i, s := range c.Subs {
		p, _ := b.Dial(fmt.Sprintf("sub%d", i))
		if _, err := p.ConnectID(fmt.Sprintf("sub%d", i), true); err != nil {
			return vf(b.Log, "harness/subscriber", "%v", err)
		}
		if _, err := p.Subscribe([]packet.Subscription{{Topic: s.Filter, QOS: packet.QOS(s.QoS)}}); err != nil {
			return vf(b.Log, "harness/subscriber", "%v", err)
		}
		st := &subState{p: p, expect: map[string]int{}}
		for pi, msgs := range c.Pubs {
			for _, m := range msgs {
				if reftopic.Match(s.Filter, m.Topic) {
					st.expect[fmt.Sprintf("p%d-q%d", pi, m.QoS)]++
					st.total++
				}
			}
		}
		subs[i] = st
	}
	var wg sync.WaitGroup
	pubErr := make([]error, len(c.Pubs))
	start := make(chan struct{})
	for pi, msgs := range c.Pubs {
		pi, msgs := pi, msgs
		p, _ := b.Dial(fmt.Sprintf("pub%d", pi))
		if _, err := p.ConnectID(fmt.Sprintf("pub%d", pi), true); err != nil {
			return vf(b.Log, "harness/publisher", "%v", err)
		}
		p.AutoAck = false
		wg.Add(1)
		go func() {
			defer wg.Done()
			<-start
			seq := map[int]int{}
			open2, acked, need := 0, 0, 0
			scan := 0
			absorb := func() {
				for ; scan < len(p.Inbox); scan++ {
					switch g := p.Inbox[scan].(type) {
					case *packet.Puback:
						acked++
					case *packet.Pubrec:
						_ = p.Send(&packet.Pubrel{ID: g.ID})
					case *packet.Pubcomp:
						acked++
						open2--
					}
				}
			}
			for k, m := range msgs {
				pub := &packet.Publish{Message: packet.Message{Topic: m.Topic, QOS: packet.QOS(m.QoS), Payload: []byte(fmt.Sprintf("p%d-q%d-%04d", pi, m.QoS, seq[m.QoS]))}}
				seq[m.QoS]++
				if m.QoS > 0 {
					pub.ID = packet.ID(k + 1)
					need++
				}
				if m.QoS == 2 {
					open2++
				}
				if err := p.Send(pub); err != nil {
					pubErr[pi] = err
					return
				}
				p.Pump()
				absorb()
				deadline := time.Now().Add(ev.Ceiling())
				for open2 > 5 && !p.EOF { // a well behaved sender completes its handshakes
					p.PumpWait(time.Millisecond)
					absorb()
					if time.Now().After(deadline) {
						pubErr[pi] = fmt.Errorf("QoS 2 handshakes of publisher %d do not complete", pi)
						return
					}
				}
			}
			deadline := time.Now().Add(ev.Ceiling())
			for acked < need && !p.EOF {
				p.PumpWait(time.Millisecond)
				absorb()
				if time.Now().After(deadline) {
					pubErr[pi] = fmt.Errorf("publisher %d: %d of %d publishes acknowledged", pi, acked, need)
					return
				}
			}
			if p.EOF {
				pubErr[pi] = fmt.Errorf("publisher %d disconnected: %v", pi, p.EOFErr)
			}
		}()
	}
	for _, st := range subs {
		st := st
		wg.Add(1)
		go func() {
			defer wg.Done()
			<-start
			deadline := time.Now().Add(ev.Ceiling())
			for !st.p.EOF {
				n := 0
				for _, g := range st.p.Inbox {
					if g.Type() == packet.PUBLISH {
						n++
					}
				}
				if n >= st.total {
					return
				}
				before := len(st.p.Inbox)
				st.p.PumpWait(time.Millisecond)
				if len(st.p.Inbox) != before {
					deadline = time.Now().Add(ev.Ceiling())
				} else if time.Now().After(deadline) {
					return
				}
			}
		}()
	}
	close(start)
	wg.Wait()
	for _, err := range pubErr {
		if err != nil {
			return vf(b.Log, "publisher/handshake-incomplete", "%v", err)
		}
	}
	for i, st := range subs {
		last := map[string]int{}
		count := map[string]int{}
		for _, g := range st.p.Publishes(0) {
			var pi, q, n int
			if _, err := fmt.Sscanf(string(g.Message.Payload), "p%d-q%d-%d", &pi, &q, &n); err != nil {
				continue
			}
			key := fmt.Sprintf("p%d-q%d", pi, q)
			if prev, ok := last[key]; ok && n <= prev {
				return vf(b.Log, "order/broker-delivery", "subscriber %d (filter %s, granted QoS %d) received message #%d of publisher %d's QoS %d stream after #%d", i, c.Subs[i].Filter, c.Subs[i].QoS, n, pi, q, prev)
			}
			last[key] = n
			count[key]++
		}
		for key, want := range st.expect {
			if count[key] != want {
				return vf(b.Log, "order/stream-incomplete", "subscriber %d (filter %s) received %d of %d messages of stream %s", i, c.Subs[i].Filter, count[key], want, key)
			}
		}
	}
	return nil
}

// ---------------------------------------------------------------- (b) broker, resume

// Resume is the retransmission-order scenario (broker side and client side).
type Resume struct {
	QoS     []int  `json:"qos"`               // the unacknowledged messages, in transmission order
	Rec     []int  `json:"rec,omitempty"`     // indices (into QoS, all QoS 2) answered with PUBREC, in that order
	Side    string `json:"side"`              // "broker" | "client"
	Backlog []int  `json:"backlog,omitempty"` // broker side: messages queued behind the full window while the subscriber still is online
}

func checkBurst(log *memconn.Log, c *Resume, burst []packet.Generic, ids []packet.ID) *verdict {
	// expected: PUBLISH of every message without PUBREC in transmission order; PUBREL in PUBREC order
	recd := map[int]bool{}
	var wantRel []packet.ID
	for _, i := range c.Rec {
		recd[i] = true
		wantRel = append(wantRel, ids[i])
	}
	var wantPub []packet.ID
	for i := range c.QoS {
		if !recd[i] {
			wantPub = append(wantPub, ids[i])
		}
	}
	var gotPub, gotRel []packet.ID
	for _, g := range burst {
		switch p := g.(type) {
		case *packet.Publish:
			if !p.Dup {
				return vf(log, "resume/retransmission-without-dup", "PUBLISH id=%d retransmitted without DUP", p.ID)
			}
			gotPub = append(gotPub, p.ID)
		case *packet.Pubrel:
			gotRel = append(gotRel, p.ID)
		default:
			return vf(log, "resume/unexpected-packet", "%s inside the retransmission burst", g.Type())
		}
	}
	if fmt.Sprint(sortedIDs(gotPub)) != fmt.Sprint(sortedIDs(wantPub)) || fmt.Sprint(sortedIDs(gotRel)) != fmt.Sprint(sortedIDs(wantRel)) {
		return vf(log, "resume/wrong-set", "retransmitted PUBLISH ids %v PUBREL ids %v; unacknowledged were PUBLISH %v PUBREL %v", gotPub, gotRel, wantPub, wantRel)
	}
	if fmt.Sprint(gotPub) != fmt.Sprint(wantPub) {
		return vf(log, "order/retransmission:"+c.Side, "%s side: PUBLISH packets were retransmitted in the order %v, originally transmitted in the order %v", c.Side, gotPub, wantPub)
	}
	if fmt.Sprint(gotRel) != fmt.Sprint(wantRel) {
		return vf(log, "order/retransmission-pubrel:"+c.Side, "%s side: PUBREL packets were retransmitted in the order %v, originally transmitted in the order %v", c.Side, gotRel, wantRel)
	}
	return nil
}

func sortedIDs(l []packet.ID) []packet.ID {
	out := append([]packet.ID{}, l...)
	sort.Slice(out, func(i, j int) bool { return out[i] < out[j] })
	return out
}

func runResumeBroker(c *Resume) *verdict {
	b := bk.New(func(m *broker.MemoryBackend, e *broker.Engine) { m.ClientInflightMessages = len(c.QoS) })
	defer b.Shutdown()
	pub, _ := b.Dial("pub")
	if _, err := pub.ConnectID("pub", true); err != nil {
		return vf(b.Log, "harness/publisher", "%v", err)
	}
	s, sconn := b.Dial("s")
	s.AutoAck = false
	if _, err := s.ConnectID("s", false); err != nil {
		return vf(b.Log, "harness/subscriber", "%v", err)
	}
	if _, err := s.Subscribe([]packet.Subscription{{Topic: "c15/r", QOS: 2}}); err != nil {
		return vf(b.Log, "harness/subscriber", "%v", err)
	}
	for i, q := range c.QoS {
		if err := pub.Publish("c15/r", []byte(fmt.Sprintf("r%d", i)), packet.QOS(q), false); err != nil {
			return vf(b.Log, "harness/publish", "%v", err)
		}
	}
	n := 0
	if s.WaitFor(0, func(g packet.Generic) bool {
		if g.Type() == packet.PUBLISH {
			n++
		}
		return n == len(c.QoS)
	}, ev.Ceiling()) < 0 {
		return vf(b.Log, "harness/subscriber", "deliveries did not arrive")
	}
	var ids []packet.ID
	for _, g := range s.Publishes(0) {
		ids = append(ids, g.ID)
	}
	for _, i := range c.Rec {
		from := len(s.Inbox)
		_ = s.Send(&packet.Pubrec{ID: ids[i]})
		id := ids[i]
		if s.WaitFor(from, func(g packet.Generic) bool { r, ok := g.(*packet.Pubrel); return ok && r.ID == id }, ev.Ceiling()) < 0 {
			return vf(b.Log, "harness/subscriber", "no PUBREL")
		}
	}
	for i, q := range c.Backlog {
		if err := pub.Publish("c15/r", []byte(fmt.Sprintf("r%d", len(c.QoS)+i)), packet.QOS(q), false); err != nil {
			return vf(b.Log, "harness/publish", "%v", err)
		}
	}
	s.Drop()
	if !b.WaitClosed(sconn) {
		return vf(b.Log, "liveness/client-not-terminated", "subscriber's broker side did not terminate")
	}
	var n2 uint64
	s2, _ := b.DialPlan("s", 0, false, func(bc *memconn.Conn) {
		bc.Jitter = func() { // perturb the schedule between the broker's goroutines
			switch atomic.AddUint64(&n2, 1) % 3 {
			case 0:
				runtime.Gosched()
			case 1:
				time.Sleep(60 * time.Microsecond)
			}
		}
	})
	ack, err := s2.ConnectID("s", false)
	if err != nil || !ack.SessionPresent {
		return vf(b.Log, "resume/session-lost", "unclean reconnect: %v", err)
	}
	// AutoAck is on: the backlog flows as soon as window slots are acknowledged
	want := len(c.QoS) + len(c.Backlog)
	count := func() (l []packet.Generic) {
		for _, g := range s2.Inbox {
			if g.Type() == packet.PUBLISH || (g.Type() == packet.PUBREL && len(l) < len(c.QoS)) {
				l = append(l, g)
			}
		}
		return
	}
	deadline := time.Now().Add(ev.Ceiling())
	for len(count()) < want {
		s2.PumpWait(time.Millisecond)
		if s2.EOF || time.Now().After(deadline) {
			return vf(b.Log, "resume/missing-retransmission", "%d unacknowledged and %d queued messages, only %d packets arrived after the resume", len(c.QoS), len(c.Backlog), len(count()))
		}
	}
	seq := count()
	for k, g := range seq[:len(c.QoS)] {
		if p, ok := g.(*packet.Publish); ok && !p.Dup {
			return vf(b.Log, "order/new-delivery-before-retransmission", "packet %d after the resume is a fresh delivery (%s) although only %d of the %d unacknowledged packets had been retransmitted", k, p.Message.Payload, k, len(c.QoS))
		}
	}
	if v := checkBurst(b.Log, c, seq[:len(c.QoS)], ids); v != nil {
		return v
	}
	last := map[packet.QOS]int{}
	for _, g := range seq {
		if p, ok := g.(*packet.Publish); ok {
			var n int
			fmt.Sscanf(string(p.Message.Payload), "r%d", &n)
			if prev, seen := last[p.Message.QOS]; seen && n <= prev {
				return vf(b.Log, "order/resume-stream", "after the resume QoS %d message r%d arrived after r%d", p.Message.QOS, n, prev)
			}
			last[p.Message.QOS] = n
		}
	}
	return nil
}

// ---------------------------------------------------------------- (b') broker, offline stream

// Offline is the offline-stream scenario: a persistent subscriber (granted QoS
// 2, window Window) is offline while one publisher sends the numbered messages
// Offline (QoS 0-2); it resumes without acknowledging, so the window fills and
// the rest stays queued; the publisher sends Live; then the subscriber
// acknowledges everything. Per QoS level the numbers must arrive in order.
type Offline struct {
	Window  int   `json:"window"`
	Offline []int `json:"offline"`
	Live    []int `json:"live"`
}

func runOffline(c *Offline) *verdict {
	b := bk.New(func(m *broker.MemoryBackend, e *broker.Engine) { m.ClientInflightMessages = c.Window })
	defer b.Shutdown()
	pub, _ := b.Dial("pub")
	if _, err := pub.ConnectID("pub", true); err != nil {
		return vf(b.Log, "harness/publisher", "%v", err)
	}
	s, sconn := b.Dial("s")
	if _, err := s.ConnectID("s", false); err != nil {
		return vf(b.Log, "harness/subscriber", "%v", err)
	}
	if _, err := s.Subscribe([]packet.Subscription{{Topic: "c15/o", QOS: 2}}); err != nil {
		return vf(b.Log, "harness/subscriber", "%v", err)
	}
	s.Disconnect()
	if !b.WaitClosed(sconn) {
		return vf(b.Log, "liveness/client-not-terminated", "subscriber's broker side did not terminate")
	}
	n := 0
	send := func(qs []int) *verdict {
		for _, q := range qs {
			if err := pub.Publish("c15/o", []byte(fmt.Sprintf("o%d", n)), packet.QOS(q), false); err != nil {
				return vf(b.Log, "harness/publish", "%v", err)
			}
			n++
		}
		return nil
	}
	if v := send(c.Offline); v != nil {
		return v
	}
	s2, _ := b.Dial("s")
	s2.AutoAck = false
	ack, err := s2.ConnectID("s", false)
	if err != nil || !ack.SessionPresent {
		return vf(b.Log, "resume/session-lost", "unclean reconnect: %v", err)
	}
	// let the window fill (or everything arrive)
	q12 := 0
	for _, q := range c.Offline {
		if q > 0 {
			q12++
		}
	}
	if q12 > c.Window {
		q12 = c.Window
	}
	k := 0
	if q12 > 0 && s2.WaitFor(0, func(g packet.Generic) bool {
		if p, ok := g.(*packet.Publish); ok && p.Message.QOS > 0 {
			k++
		}
		return k == q12
	}, ev.Ceiling()) < 0 {
		return vf(b.Log, "resume/missing-delivery", "only %d of the first %d queued QoS 1/2 messages arrived after the resume", k, q12)
	}
	if v := send(c.Live); v != nil {
		return v
	}
	s2.AutoAck = true
	// acknowledge what is pending, then everything flows
	for _, g := range append([]packet.Generic{}, s2.Inbox...) {
		if p, ok := g.(*packet.Publish); ok {
			switch p.Message.QOS {
			case 1:
				_ = s2.Send(&packet.Puback{ID: p.ID})
			case 2:
				_ = s2.Send(&packet.Pubrec{ID: p.ID})
			}
		}
	}
	if err := pub.Publish("c15/o", []byte("o-end"), 1, false); err != nil {
		return vf(b.Log, "harness/publish", "%v", err)
	}
	if s2.WaitFor(0, func(g packet.Generic) bool { p, ok := g.(*packet.Publish); return ok && string(p.Message.Payload) == "o-end" }, ev.Ceiling()) < 0 {
		return vf(b.Log, "order/stream-incomplete", "the end marker (QoS 1) never arrived after the subscriber acknowledged everything")
	}
	s2.PumpWait(2 * time.Millisecond)
	last := map[packet.QOS]int{}
	got := map[int]bool{}
	for _, g := range s2.Inbox {
		p, ok := g.(*packet.Publish)
		if !ok || string(p.Message.Payload) == "o-end" {
			continue
		}
		var i int
		fmt.Sscanf(string(p.Message.Payload), "o%d", &i)
		if p.Dup && got[i] {
			continue
		}
		got[i] = true
		if prev, seen := last[p.Message.QOS]; seen && i <= prev {
			return vf(b.Log, "order/offline-stream", "QoS %d message o%d arrived after o%d of the same publisher and QoS (o0..o%d were published while the subscriber was offline, the rest after its resume)", p.Message.QOS, i, prev, len(c.Offline)-1)
		}
		last[p.Message.QOS] = i
	}
	all := append(append([]int{}, c.Offline...), c.Live...)
	for i, q := range all {
		if q > 0 && !got[i] {
			return vf(b.Log, "order/stream-incomplete", "QoS %d message o%d never arrived", q, i)
		}
	}
	return nil
}

// syncAfterConnect performs a SUBSCRIBE round trip. Once its future completed
// the client's processor has finished handling the CONNACK (which re-sends
// whatever the session holds at that moment); API calls issued before that
// point race with that re-send loop.
func syncAfterConnect(log *memconn.Log, cl *client.Client, l *fb.Link) *verdict {
	sf, err := cl.Subscribe("c15/sync", 0)
	if err != nil {
		return vf(log, "harness/sync", "%v", err)
	}
	i := l.Broker.WaitFor(0, func(g packet.Generic) bool { return g.Type() == packet.SUBSCRIBE }, ev.Ceiling())
	if i < 0 {
		return vf(log, "harness/sync", "no SUBSCRIBE")
	}
	_ = l.Broker.Send(&packet.Suback{ID: l.Broker.Inbox[i].(*packet.Subscribe).ID, ReturnCodes: []packet.QOS{0}})
	if err := sf.Wait(ev.Ceiling()); err != nil {
		return vf(log, "harness/sync", "%v", err)
	}
	return nil
}

func runResumeClient(c *Resume) *verdict {
	log := memconn.NewLog()
	d := fb.NewDialer(log)
	sess := session.NewMemorySession()
	cfg := client.NewConfigWithClientID("mem://broker", "c15")
	cfg.CleanSession = false
	cfg.Dialer = d
	cfg.KeepAlive = "0s"
	c1 := client.New()
	c1.Session = sess
	c1.Callback = func(*packet.Message, error) error { return nil }
	cf, err := c1.Connect(cfg)
	if err != nil {
		return vf(log, "harness/connect", "%v", err)
	}
	l1, _, err := d.Accept(fb.Connack(packet.ConnectionAccepted, false))
	if err != nil {
		return vf(log, "harness/accept", "%v", err)
	}
	if err := cf.Wait(ev.Ceiling()); err != nil {
		return vf(log, "harness/connect", "%v", err)
	}
	if v := syncAfterConnect(log, c1, l1); v != nil {
		return v
	}
	for i, q := range c.QoS {
		if _, err := c1.Publish("c15/r", []byte(fmt.Sprintf("r%d", i)), packet.QOS(q), false); err != nil {
			return vf(log, "harness/publish", "%v", err)
		}
	}
	n := 0
	if l1.Broker.WaitFor(1, func(g packet.Generic) bool {
		if p, ok := g.(*packet.Publish); ok && !p.Dup {
			n++
		}
		return n == len(c.QoS)
	}, ev.Ceiling()) < 0 {
		return vf(log, "harness/fakebroker", "publishes did not arrive")
	}
	var ids []packet.ID
	for _, g := range l1.Broker.Publishes(0) {
		if !g.Dup {
			ids = append(ids, g.ID)
		}
	}
	for _, i := range c.Rec {
		from := len(l1.Broker.Inbox)
		_ = l1.Broker.Send(&packet.Pubrec{ID: ids[i]})
		id := ids[i]
		if l1.Broker.WaitFor(from, func(g packet.Generic) bool { r, ok := g.(*packet.Pubrel); return ok && r.ID == id }, ev.Ceiling()) < 0 {
			return vf(log, "harness/fakebroker", "no PUBREL from the client")
		}
	}
	l1.Broker.Drop()
	closed := make(chan struct{})
	go func() { _ = c1.Close(); close(closed) }()
	select {
	case <-closed:
	case <-time.After(ev.Ceiling()):
		return vf(log, "liveness/close-hangs", "Client.Close did not return after the connection was lost")
	}
	c2 := client.New()
	c2.Session = sess
	c2.Callback = func(*packet.Message, error) error { return nil }
	cf2, err := c2.Connect(cfg)
	if err != nil {
		return vf(log, "harness/connect", "%v", err)
	}
	defer c2.Close()
	l2, _, err := d.Accept(fb.Connack(packet.ConnectionAccepted, true))
	if err != nil {
		return vf(log, "harness/accept", "%v", err)
	}
	if err := cf2.Wait(ev.Ceiling()); err != nil {
		return vf(log, "harness/connect", "%v", err)
	}
	if l2.Broker.WaitFor(len(c.QoS), func(packet.Generic) bool { return true }, ev.Ceiling()) < 0 {
		return vf(log, "resume/missing-retransmission", "%d unacknowledged packets, only %d were re-sent by the client", len(c.QoS), len(l2.Broker.Inbox)-1)
	}
	return checkBurst(log, c, l2.Broker.Inbox[1:1+len(c.QoS)], ids)
}

// ---------------------------------------------------------------- (c) client callback order

// Inbound is the callback order scenario: the fake broker sends these QoS levels.
type Inbound struct {
	QoS   []int `json:"qos"`
	Early bool  `json:"early,omitempty"` // AlwaysAnnounceOnPublish
}

func runInbound(c *Inbound) *verdict {
	log := memconn.NewLog()
	d := fb.NewDialer(log)
	cfg := client.NewConfigWithClientID("mem://broker", "c15")
	cfg.Dialer = d
	cfg.KeepAlive = "0s"
	cfg.AlwaysAnnounceOnPublish = c.Early
	cl := client.New()
	var mu sync.Mutex
	var got []string
	cl.Callback = func(m *packet.Message, err error) error {
		if m != nil {
			mu.Lock()
			got = append(got, string(m.Payload))
			mu.Unlock()
		}
		return nil
	}
	cf, err := cl.Connect(cfg)
	if err != nil {
		return vf(log, "harness/connect", "%v", err)
	}
	defer cl.Close()
	l, _, err := d.Accept(fb.Connack(packet.ConnectionAccepted, false))
	if err != nil {
		return vf(log, "harness/accept", "%v", err)
	}
	if err := cf.Wait(ev.Ceiling()); err != nil {
		return vf(log, "harness/connect", "%v", err)
	}
	seq := map[int]int{}
	need := 0
	for k, q := range c.QoS {
		p := &packet.Publish{Message: packet.Message{Topic: "c15/in", QOS: packet.QOS(q), Payload: []byte(fmt.Sprintf("q%d-%04d", q, seq[q]))}}
		seq[q]++
		if q > 0 {
			p.ID = packet.ID(k + 1)
			need++
		}
		if err := l.Broker.Send(p); err != nil {
			return vf(log, "harness/fakebroker", "%v", err)
		}
	}
	// answer PUBRECs with PUBRELs in arrival order until everything is acknowledged
	acked, scan := 0, 0
	deadline := time.Now().Add(ev.Ceiling())
	for acked < need {
		l.Broker.PumpWait(time.Millisecond)
		for ; scan < len(l.Broker.Inbox); scan++ {
			switch g := l.Broker.Inbox[scan].(type) {
			case *packet.Puback, *packet.Pubcomp:
				acked++
			case *packet.Pubrec:
				_ = l.Broker.Send(&packet.Pubrel{ID: g.ID})
			}
		}
		if l.Broker.EOF || time.Now().After(deadline) {
			return vf(log, "client/acks-missing", "the client acknowledged %d of %d inbound QoS 1/2 messages (eof=%v)", acked, need, l.Broker.EOF)
		}
	}
	// QoS 0 callbacks: a ping round trip is not available towards the client; wait for the count
	deadline = time.Now().Add(ev.Ceiling())
	for {
		mu.Lock()
		n := len(got)
		mu.Unlock()
		if n >= len(c.QoS) {
			break
		}
		if time.Now().After(deadline) {
			return vf(log, "client/callback-missing", "%d of %d inbound messages reached the callback", n, len(c.QoS))
		}
		time.Sleep(100 * time.Microsecond)
	}
	mu.Lock()
	defer mu.Unlock()
	last := map[int]int{}
	for _, pl := range got {
		var q, n int
		if _, err := fmt.Sscanf(pl, "q%d-%d", &q, &n); err != nil {
			continue
		}
		if prev, ok := last[q]; ok && n <= prev {
			return vf(log, "order/client-callback", "the callback received QoS %d message #%d after #%d (callback order %v)", q, n, prev, got)
		}
		last[q] = n
	}
	if len(got) != len(c.QoS) {
		return vf(log, "client/callback-count", "%d callbacks for %d messages: %v", len(got), len(c.QoS), got)
	}
	return nil
}

// ---------------------------------------------------------------- (d) service command order

// Commands is the service scenario. Kinds: p0 p1 s u; Before = how many are
// issued before Start; DropAfter = the fake broker drops the connection after
// having received that many command packets (0 = never).
type Commands struct {
	Kinds     []string `json:"kinds"`
	Before    int      `json:"before"`
	DropAfter int      `json:"drop_after,omitempty"`
}

func runCommands(c *Commands) *verdict {
	log := memconn.NewLog()
	d := fb.NewDialer(log)
	cfg := client.NewConfigWithClientID("mem://broker", "c15svc")
	cfg.Dialer = d
	cfg.KeepAlive = "0s"
	svc := client.NewService(len(c.Kinds) + 10)
	svc.MinReconnectDelay = time.Millisecond
	svc.MaxReconnectDelay = 5 * time.Millisecond
	svc.ResubscribeAllSubscriptions = false
	svc.ErrorCallback = func(error) { time.Sleep(300 * time.Microsecond) } // an application that logs errors
	d.Plan = func(int) (bool, func(*memconn.Conn)) {
		return false, func(ce *memconn.Conn) { ce.Jitter = func() { time.Sleep(30 * time.Microsecond) } } // a link that is slower than the command queue
	}
	svc.DisconnectTimeout = 20 * time.Millisecond // Stop waits this long for futures of commands lost at a drop
	issue := func(i int) {
		tag := fmt.Sprintf("cmd-%04d", i)
		switch c.Kinds[i] {
		case "p0":
			svc.Publish("c15/cmd", []byte(tag), 0, false)
		case "p1":
			svc.Publish("c15/cmd", []byte(tag), 1, false)
		case "s":
			svc.Subscribe("c15/"+tag, 1)
		case "u":
			svc.Unsubscribe("c15/" + tag)
		}
	}
	before := c.Before
	if before > len(c.Kinds) {
		before = len(c.Kinds)
	}
	for i := 0; i < before; i++ {
		issue(i)
	}
	svc.Start(cfg)
	stopped := false
	defer func() {
		if !stopped {
			done := make(chan struct{})
			go func() { svc.Stop(true); close(done) }()
			select {
			case <-done:
			case <-time.After(ev.Ceiling()):
			}
		}
	}()
	var mu sync.Mutex
	var seen []int
	dropped := false
	connects := 0
	quit := make(chan struct{})
	defer close(quit)
	isQuit := func() bool {
		select {
		case <-quit:
			return true
		default:
			return false
		}
	}
	go func() { // fake broker: serve connections until told to stop
		for !isQuit() {
			l := d.Next(5 * time.Millisecond)
			if l == nil {
				continue
			}
			scan := 0
			for !l.Broker.EOF && !isQuit() {
				l.Broker.PumpWait(time.Millisecond)
				for ; scan < len(l.Broker.Inbox); scan++ {
					num := -1
					switch g := l.Broker.Inbox[scan].(type) {
					case *packet.Connect:
						_ = l.Broker.Send(fb.Connack(packet.ConnectionAccepted, false))
						mu.Lock()
						connects++
						mu.Unlock()
					case *packet.Publish:
						fmt.Sscanf(string(g.Message.Payload), "cmd-%d", &num)
						if g.Message.QOS == 1 {
							_ = l.Broker.Send(&packet.Puback{ID: g.ID})
						}
					case *packet.Subscribe:
						fmt.Sscanf(g.Subscriptions[0].Topic, "c15/cmd-%d", &num)
						_ = l.Broker.Send(&packet.Suback{ID: g.ID, ReturnCodes: []packet.QOS{g.Subscriptions[0].QOS}})
					case *packet.Unsubscribe:
						fmt.Sscanf(g.Topics[0], "c15/cmd-%d", &num)
						_ = l.Broker.Send(&packet.Unsuback{ID: g.ID})
					}
					if num >= 0 {
						mu.Lock()
						seen = append(seen, num)
						n := len(seen)
						drop := c.DropAfter > 0 && n == c.DropAfter && !dropped
						if drop {
							dropped = true
						}
						mu.Unlock()
						if drop {
							l.Broker.Drop()
						}
					}
				}
			}
		}
	}()
	// without a drop everything else is issued now; with a drop the commands up
	// to the drop point are issued, and the rest right when the connection has
	// just failed (the service has not noticed yet or is about to reconnect)
	upto := len(c.Kinds)
	if c.DropAfter > 0 && c.DropAfter < upto {
		upto = c.DropAfter
	}
	for i := before; i < upto; i++ {
		issue(i)
	}
	waitFor := func(what string, cond func() bool) *verdict {
		deadline := time.Now().Add(ev.Ceiling())
		for {
			mu.Lock()
			ok := cond()
			mu.Unlock()
			if ok {
				return nil
			}
			if time.Now().After(deadline) {
				mu.Lock()
				defer mu.Unlock()
				return vf(log, "service/commands-not-carried-out", "%d commands issued, waiting for %s, the fake broker saw only %v", len(c.Kinds), what, seen)
			}
			time.Sleep(20 * time.Microsecond)
		}
	}
	if c.DropAfter > 0 {
		if v := waitFor("the connection drop", func() bool { return dropped }); v != nil {
			return v
		}
		for i := upto; i < len(c.Kinds); i++ {
			if i >= before {
				issue(i)
			}
		}
		// commands in flight when the connection drops may be lost; a sentinel
		// issued after the service has reconnected cannot be: wait for that
		if v := waitFor("the reconnect", func() bool { return connects >= 2 }); v != nil {
			return v
		}
	}
	sentinel := len(c.Kinds)
	svc.Publish("c15/cmd", []byte(fmt.Sprintf("cmd-%04d", sentinel)), 0, false)
	deadline := time.Now().Add(ev.Ceiling())
	for {
		mu.Lock()
		n, last := len(seen), -1
		if n > 0 {
			last = seen[n-1]
		}
		mu.Unlock()
		if last == sentinel {
			break
		}
		if time.Now().After(deadline) {
			mu.Lock()
			defer mu.Unlock()
			return vf(log, "service/commands-not-carried-out", "%d commands and a final one were issued, the fake broker saw %v; the final one never arrived", len(c.Kinds), seen)
		}
		time.Sleep(200 * time.Microsecond)
	}
	done := make(chan struct{})
	go func() { svc.Stop(true); close(done) }()
	select {
	case <-done:
		stopped = true
	case <-time.After(ev.Ceiling()):
		return vf(log, "liveness/stop-hangs", "Service.Stop did not return")
	}
	mu.Lock()
	defer mu.Unlock()
	for i := 1; i < len(seen); i++ {
		if seen[i] <= seen[i-1] {
			return vf(log, "order/service-commands", "commands reached the broker in the order %v (issued 0..%d in order)", seen, len(c.Kinds))
		}
	}
	lost := len(c.Kinds) + 1 - len(seen)
	if lost > 0 && c.DropAfter == 0 {
		return vf(log, "service/commands-lost", "%d commands were lost without any connection failure: saw %v", lost, seen)
	}
	return nil
}

// ---------------------------------------------------------------- generators / test

func genFlow(rt *rapid.T) *Flow {
	c := &Flow{Window: rapid.IntRange(1, 10).Draw(rt, "window"), Procs: rapid.SampledFrom([]int{0, 0, 1, 2, 4}).Draw(rt, "procs")}
	np := rapid.IntRange(1, 8).Draw(rt, "pubs")
	for i := 0; i < np; i++ {
		var msgs []Msg
		mix := rapid.SampledFrom([][]int{{0}, {1}, {2}, {0, 1, 2}, {1, 2}}).Draw(rt, "mix")
		for n := rapid.IntRange(2, 25).Draw(rt, "n"); n > 0; n-- {
			msgs = append(msgs, Msg{rapid.SampledFrom(flowTopics).Draw(rt, "t"), rapid.SampledFrom(mix).Draw(rt, "q")})
		}
		c.Pubs = append(c.Pubs, msgs)
	}
	for n := rapid.IntRange(1, 4).Draw(rt, "subs"); n > 0; n-- {
		c.Subs = append(c.Subs, Sub{rapid.SampledFrom(flowFilters).Draw(rt, "f"), rapid.IntRange(0, 2).Draw(rt, "g")})
	}
	return c
}

func genResume(rt *rapid.T, side string) *Resume {
	c := &Resume{Side: side}
	for n := rapid.IntRange(2, 8).Draw(rt, "k"); n > 0; n-- {
		c.QoS = append(c.QoS, rapid.IntRange(1, 2).Draw(rt, "q"))
	}
	var q2 []int
	for i, q := range c.QoS {
		if q == 2 && rapid.Bool().Draw(rt, "rec") {
			q2 = append(q2, i)
		}
	}
	c.Rec = rapid.Permutation(q2).Draw(rt, "rec_order")
	if side == "broker" {
		for n := rapid.IntRange(0, 4).Draw(rt, "backlog"); n > 0; n-- {
			c.Backlog = append(c.Backlog, rapid.IntRange(1, 2).Draw(rt, "bq"))
		}
	}
	return c
}

func TestC15(t *testing.T) {
	run := ev.Start("C15", "exploration")
	run.Rule("(a) broker: 1-8 raw publishers each pipelining 2-25 numbered messages of mixed QoS on overlapping topics, 1-4 subscribers with one filter and granted QoS 0-2, window 1-10, everything concurrent: per (subscriber, publisher, published QoS) the sequence numbers must be strictly increasing and complete. (b) retransmission order, broker side and client-library side: 2-8 unacknowledged QoS 1/2 transmissions, a generated subset of the QoS 2 ones answered by PUBREC in a generated order, connection cut, unclean resume: the re-sent PUBLISH packets must keep their original order, the re-sent PUBREL packets the order of their first transmission. (c) client library inbound: the fake broker pipelines numbered messages of mixed QoS; per QoS level the callback order must equal the arrival order (both callback modes). (d) service: commands (publish QoS 0/1, subscribe, unsubscribe) issued before and after Start, optionally with a connection drop after j commands: the broker sees them in issue order, none lost without a failure. non-trivial = >= 2 concurrent publishers with a stream of >= 2, or a resume with >= 2 unacknowledged; distinct by case (b') offline stream: a persistent subscriber (window 1-3) is offline while one publisher sends 1-8 numbered messages of QoS 0-2, resumes without acknowledging (window full, the rest queued), the publisher sends 1-6 more, then everything is acknowledged: per QoS level the numbers arrive in order and every QoS 1/2 message arrives.")
	run.Assume("(a) publishers keep at most 5 QoS 2 handshakes open, as a well-behaved sender does (the broker's publish flow control is 10)", "(b) the relative order between re-sent PUBLISH and re-sent PUBREL packets is not judged (MQTT 4.6 orders each kind)")
	defer run.Finish(t)

	run.Rapid(t, "flow", ev.Pick(250, 12000), func(rt *rapid.T) {
		c := genFlow(rt)
		run.Eval(1)
		run.Class("broker-concurrent")
		if len(c.Pubs) >= 2 {
			run.NonTrivialJSON(c)
		}
		if v := runFlow(c); v != nil {
			run.Candidate(v.sig, v.msg, c)
			rt.Fatalf("%s: %s", v.sig, v.msg)
		}
	})
	for _, side := range []string{"broker", "client"} {
		side := side
		run.Rapid(t, "resume-"+side, ev.Pick(300, 15000), func(rt *rapid.T) {
			c := genResume(rt, side)
			run.Eval(1)
			run.Class("resume-" + side)
			run.NonTrivialJSON(c)
			var v *verdict
			if side == "broker" {
				v = runResumeBroker(c)
			} else {
				v = runResumeClient(c)
			}
			if v != nil {
				if run.Open(v.sig) {
					run.Excluded(v.sig)
					return
				}
				run.Candidate(v.sig, v.msg, c)
				rt.Fatalf("%s: %s", v.sig, v.msg)
			}
		})
	}
	run.Rapid(t, "offline-stream", ev.Pick(200, 8000), func(rt *rapid.T) {
		c := &Offline{Window: rapid.IntRange(1, 3).Draw(rt, "window")}
		mix := rapid.SampledFrom([][]int{{0}, {0, 1}, {0, 0, 1, 2}, {1, 2}}).Draw(rt, "mix")
		for n := rapid.IntRange(1, 8).Draw(rt, "noff"); n > 0; n-- {
			c.Offline = append(c.Offline, rapid.SampledFrom(mix).Draw(rt, "q"))
		}
		for n := rapid.IntRange(1, 6).Draw(rt, "nlive"); n > 0; n-- {
			c.Live = append(c.Live, rapid.SampledFrom(mix).Draw(rt, "q"))
		}
		run.Eval(1)
		run.Class("offline-stream")
		run.NonTrivialJSON(c)
		if v := runOffline(c); v != nil {
			run.Candidate(v.sig, v.msg, c)
			rt.Fatalf("%s: %s", v.sig, v.msg)
		}
	})
	run.Rapid(t, "inbound", ev.Pick(300, 15000), func(rt *rapid.T) {
		c := &Inbound{Early: rapid.Bool().Draw(rt, "early")}
		mix := rapid.SampledFrom([][]int{{0}, {1}, {2}, {0, 1, 2}, {1, 2}}).Draw(rt, "mix")
		for n := rapid.IntRange(2, 40).Draw(rt, "n"); n > 0; n-- {
			c.QoS = append(c.QoS, rapid.SampledFrom(mix).Draw(rt, "q"))
		}
		run.Eval(1)
		run.Class("client-inbound")
		run.NonTrivialJSON(c)
		if v := runInbound(c); v != nil {
			run.Candidate(v.sig, v.msg, c)
			rt.Fatalf("%s: %s", v.sig, v.msg)
		}
	})
	run.Rapid(t, "service", ev.Pick(160, 8000), func(rt *rapid.T) {
		c := &Commands{}
		for n := rapid.IntRange(2, 40).Draw(rt, "n"); n > 0; n-- {
			c.Kinds = append(c.Kinds, rapid.SampledFrom([]string{"p0", "p0", "p1", "s", "u"}).Draw(rt, "kind"))
		}
		c.Before = rapid.IntRange(0, len(c.Kinds)).Draw(rt, "before")
		if rapid.Bool().Draw(rt, "drop") {
			c.DropAfter = rapid.IntRange(1, len(c.Kinds)-1).Draw(rt, "drop_after")
		}
		run.Eval(1)
		run.Class("service-commands")
		run.NonTrivialJSON(c)
		if v := runCommands(c); v != nil {
			run.Candidate(v.sig, v.msg, c)
			rt.Fatalf("%s: %s", v.sig, v.msg)
		}
	})
}

func TestReplay(t *testing.T) {
	var raw map[string]interface{}
	ok, err := ev.ReplayCase(&raw)
	if !ok {
		t.Skip("no VERIF_REPLAY")
	}
	if err != nil {
		t.Fatal(err)
	}
	for i := 0; i < 10; i++ {
		var v *verdict
		switch {
		case raw["pubs"] != nil:
			var c Flow
			_, _ = ev.ReplayCase(&c)
			v = runFlow(&c)
		case raw["side"] != nil:
			var c Resume
			_, _ = ev.ReplayCase(&c)
			if c.Side == "broker" {
				v = runResumeBroker(&c)
			} else {
				v = runResumeClient(&c)
			}
		case raw["offline"] != nil:
			var c Offline
			_, _ = ev.ReplayCase(&c)
			v = runOffline(&c)
		case raw["kinds"] != nil:
			var c Commands
			_, _ = ev.ReplayCase(&c)
			v = runCommands(&c)
		default:
			var c Inbound
			_, _ = ev.ReplayCase(&c)
			v = runInbound(&c)
		}
		if v != nil {
			t.Fatalf("VIOLATION reproduced: %s: %s", v.sig, v.msg)
		}
	}
	t.Log("case passes (10 runs)")
}

var _ = strings.Join
