// C02 — decoder is total, memory-safe, local and spec-faithful on arbitrary bytes.
package c02

import (
	"bytes"
	"encoding/json"
	"fmt"
	"io"
	"os"
	"runtime/debug"
	"strings"
	"testing"

	"github.com/256dpi/gomqtt/packet"
	"pgregory.net/rapid"

	"verif/internal/conv"
	"verif/internal/ev"
	"verif/internal/gen"
	"verif/internal/refcodec"
)

// Case is the replayable unit: one input byte string.
type Case struct {
	Input []byte `json:"input"`
	Note  string `json:"note,omitempty"`
}

type verdict struct{ sig, msg string }

func tname(t byte) string {
	if t < 1 || t > 14 {
		return "Reserved"
	}
	return packet.Type(t).String()
}

// refClass maps a reference decoder error to a stable class name.
func refClass(err error) string {
	s := err.Error()
	switch {
	case strings.Contains(s, "unconsumed"):
		return "unconsumed-bytes-in-declared-extent"
	case strings.Contains(s, "overruns"):
		return "field-overruns-declared-extent"
	case strings.Contains(s, "empty topic") || strings.Contains(s, "empty will topic"):
		return "empty-topic"
	case strings.Contains(s, "shorter than declared"):
		return "truncated"
	}
	return "malformed-field"
}

var tails = [][]byte{
	bytes.Repeat([]byte{0x00}, 12),
	bytes.Repeat([]byte{0xFF}, 12),
	{0x00, 0x01, 'a', 0x00, 0x00, 0x01, 'b', 0x01, 0x00, 0x01, 'c', 0x02, 0x00, 0x00},
	{0x01, 0x00, 0x02, 'x', 'y', 0x00, 0x00, 0x03, 'a', 'b', 'c', 0x00},
	bytes.Repeat([]byte{0x00, 0x02, 'h', 'i', 0x01}, 40),
}

type decoded struct {
	pkt packet.Generic
	n   int
	err error
}

func libDecode(t byte, b []byte) (d decoded, v *verdict) {
	defer func() {
		if x := recover(); x != nil {
			v = &verdict{tname(t) + "/decode-panic", fmt.Sprintf("Decode panicked: %v\n%s", x, debug.Stack())}
		}
	}()
	g, err := packet.Type(t).New()
	if err != nil {
		return decoded{err: err}, nil
	}
	n, err := g.Decode(b)
	if n < 0 || n > len(b) {
		return d, &verdict{tname(t) + "/consumed-out-of-range", fmt.Sprintf("Decode reported %d bytes consumed of %d supplied", n, len(b))}
	}
	return decoded{g, n, err}, nil
}

// judge applies the whole C02 oracle to one input.
func judge(b []byte, full bool, skip map[string]int) (v *verdict) {
	defer func() {
		if x := recover(); x != nil {
			v = &verdict{"harness-or-library/panic", fmt.Sprintf("panic: %v\n%s", x, debug.Stack())}
		}
	}()
	h, need, herr := refcodec.ParseHeader(b)

	// (1) DetectPacket
	var dl int
	var dt packet.Type
	func() {
		defer func() {
			if x := recover(); x != nil {
				v = &verdict{"detect/panic", fmt.Sprint(x)}
			}
		}()
		dl, dt = packet.DetectPacket(b)
	}()
	if v != nil {
		return v
	}
	if herr == nil {
		if need && dl != 0 {
			return &verdict{"detect/length-from-incomplete-header", fmt.Sprintf("DetectPacket returned length %d although the header is incomplete", dl)}
		}
		if !need && (dl != h.Total() || byte(dt) != h.Type) {
			return &verdict{"detect/wrong-length-or-type", fmt.Sprintf("DetectPacket=(%d,%d), header says (%d,%d)", dl, dt, h.Total(), h.Type)}
		}
	}

	// every decoder of another type (and every decoder when the header is bad) must reject
	for t := byte(1); t <= 14; t++ {
		if herr == nil && !need && t == h.Type {
			continue
		}
		if !full && t%5 != h.Type%5 {
			continue
		}
		d, pv := libDecode(t, b)
		if pv != nil {
			return pv
		}
		if d.err == nil {
			why := "input has another packet type"
			if herr != nil {
				why = "malformed fixed header: " + herr.Error()
			} else if need {
				why = "incomplete fixed header"
			}
			return &verdict{tname(t) + "/accepts-foreign-or-broken-header", fmt.Sprintf("%s decoder accepted the input (%s)", tname(t), why)}
		}
	}
	if herr != nil || need || h.Type < 1 || h.Type > 14 {
		return streamCheck(b, nil, 0)
	}
	T := h.Total()
	ty := h.Type

	if len(b) < T {
		// (2) both reject
		d, pv := libDecode(ty, b)
		if pv != nil {
			return pv
		}
		if d.err == nil {
			return &verdict{tname(ty) + "/accepts-truncated", fmt.Sprintf("declared total length %d, only %d bytes supplied, Decode succeeded", T, len(b))}
		}
		return streamCheck(b, nil, 0)
	}

	// (2) differential on the framed packet
	framed := append([]byte{}, b[:T]...)
	rp, _, rerr := refcodec.Decode(framed, true)
	d, pv := libDecode(ty, framed)
	if pv != nil {
		return pv
	}
	if rerr != nil && d.err == nil {
		return &verdict{tname(ty) + "/accepts-what-reference-rejects:" + refClass(rerr), fmt.Sprintf("framed input accepted by the library, reference says: %v", rerr)}
	}
	if rerr == nil && d.err != nil {
		return &verdict{tname(ty) + "/rejects-what-reference-accepts", fmt.Sprintf("framed input rejected by the library (%v), reference accepts it", d.err)}
	}
	var want *refcodec.Packet
	if rerr == nil {
		want = conv.Norm(rp)
		if d.n != T {
			return &verdict{tname(ty) + "/consumed-count", fmt.Sprintf("Decode consumed %d bytes of a %d byte packet", d.n, T)}
		}
		if ok, diff := conv.Equal(conv.FromLib(d.pkt), want); !ok {
			return &verdict{tname(ty) + "/field-mismatch", "decoded fields differ from the reference: " + diff}
		}
		// (4) ownership
		snap := conv.Clone(conv.FromLib(d.pkt))
		for i := range framed {
			framed[i] = 0xA5
		}
		if ok, diff := conv.Equal(conv.FromLib(d.pkt), snap); !ok {
			return &verdict{tname(ty) + "/aliases-input-buffer", "decoded packet changed when the input buffer was overwritten: " + diff}
		}
		// (4b) second use: the three list-carrying decoders reset their list explicitly
		// (`s.Subscriptions[:0]`, `u.Topics[:0]`, a fresh ReturnCodes), so an object that
		// already holds the result of an earlier decode must end up like a fresh one
		if pv := reuseCheck(ty, b[:T], want); pv != nil {
			return pv
		}
		// (5) re-encodability of admitted application messages
		if pv := reencode(d.pkt); pv != nil {
			return pv
		}
	}

	// (3) locality: embedded in a longer buffer
	var embeds [][]byte
	if len(b) > T {
		embeds = append(embeds, b)
	}
	for _, tl := range tails {
		embeds = append(embeds, append(append([]byte{}, b[:T]...), tl...))
		if !full {
			break
		}
	}
	for _, e := range embeds {
		de, pv := libDecode(ty, e)
		if pv != nil {
			return pv
		}
		if (de.err == nil) != (rerr == nil) {
			cls := "accepted-only-when-embedded"
			if de.err != nil {
				cls = "rejected-only-when-embedded"
			}
			if _, open := skip[tname(ty)+"/locality:"+cls]; open {
				skip[tname(ty)+"/locality:"+cls]++
				continue
			}
			return &verdict{tname(ty) + "/locality:" + cls, fmt.Sprintf("verdict depends on bytes after the packet: framed err=%v, embedded err=%v (declared total %d, buffer %d)", d.err, de.err, T, len(e))}
		}
		if de.err == nil {
			if de.n != T {
				return &verdict{tname(ty) + "/locality:consumed-count", fmt.Sprintf("embedded Decode consumed %d, packet is %d bytes", de.n, T)}
			}
			if ok, diff := conv.Equal(conv.FromLib(de.pkt), want); !ok {
				return &verdict{tname(ty) + "/locality:fields", "embedded decode differs: " + diff}
			}
		}
	}
	return streamCheck(b, want, T)
}

// primers are valid packets decoded into an object before the input under test.
var primers = map[byte][]byte{
	8:  {0x82, 0x0f, 0x00, 0x07, 0x00, 0x03, 'p', '/', '1', 0x01, 0x00, 0x04, 'p', '/', '2', '#', 0x02},
	9:  {0x90, 0x05, 0x00, 0x07, 0x02, 0x80, 0x01},
	10: {0xa2, 0x0d, 0x00, 0x07, 0x00, 0x03, 'p', '/', '1', 0x00, 0x04, 'p', '/', '2', '#'},
}

func reuseCheck(t byte, framed []byte, want *refcodec.Packet) (v *verdict) {
	pr, ok := primers[t]
	if !ok {
		return nil
	}
	defer func() {
		if x := recover(); x != nil {
			v = &verdict{tname(t) + "/decode-panic", fmt.Sprintf("Decode into a used object panicked: %v\n%s", x, debug.Stack())}
		}
	}()
	g, _ := packet.Type(t).New()
	if n, err := g.Decode(append([]byte{}, pr...)); err != nil || n != len(pr) {
		return &verdict{tname(t) + "/rejects-what-reference-accepts", fmt.Sprintf("primer packet %x: n=%d err=%v", pr, n, err)}
	}
	n, err := g.Decode(append([]byte{}, framed...))
	if err != nil || n != len(framed) {
		return &verdict{tname(t) + "/reuse:verdict", fmt.Sprintf("decode into an object used before: n=%d err=%v, a fresh object accepted all %d bytes", n, err, len(framed))}
	}
	if ok, diff := conv.Equal(conv.FromLib(g), want); !ok {
		return &verdict{tname(t) + "/reuse:fields", "decode into an object that held an earlier packet differs from a fresh decode: " + diff}
	}
	return nil
}

func reencode(g packet.Generic) (v *verdict) {
	defer func() {
		if x := recover(); x != nil {
			v = &verdict{"reencode/panic", fmt.Sprint(x)}
		}
	}()
	switch p := g.(type) {
	case *packet.Publish:
		buf := make([]byte, p.Len())
		if _, err := p.Encode(buf); err != nil {
			return &verdict{"Publish/not-reencodable", "decoder admitted a PUBLISH that cannot be encoded again: " + err.Error()}
		}
	case *packet.Connect:
		if p.Will != nil {
			out := packet.NewPublish()
			out.Message = *p.Will
			if out.Message.QOS > 0 {
				out.ID = 1
			}
			buf := make([]byte, out.Len())
			if _, err := out.Encode(buf); err != nil {
				return &verdict{"Connect/will-not-forwardable", "decoder admitted a will that cannot be encoded as PUBLISH: " + err.Error()}
			}
		}
	}
	return nil
}

// streamCheck feeds b (followed by a sentinel PINGREQ when b holds a complete
// packet) to packet.Decoder. want != nil means the reference accepted b[:T].
func streamCheck(b []byte, want *refcodec.Packet, T int) (v *verdict) {
	defer func() {
		if x := recover(); x != nil {
			v = &verdict{"stream/panic", fmt.Sprintf("Decoder.Read panicked: %v\n%s", x, debug.Stack())}
		}
	}()
	if len(b) == 0 {
		return nil
	}
	if want == nil {
		dec := packet.NewDecoder(bytes.NewReader(b))
		h, need, herr := refcodec.ParseHeader(b)
		g, err := dec.Read()
		if herr == nil && !need && len(b) >= h.Total() && h.Type >= 1 && h.Type <= 14 {
			// complete packet the reference rejected
			if err == nil {
				return &verdict{"stream/accepts-what-reference-rejects", fmt.Sprintf("Decoder.Read returned %s for a packet the reference rejects", g.Type())}
			}
			return nil
		}
		if err == nil {
			return &verdict{"stream/packet-from-incomplete-or-broken-input", fmt.Sprintf("Decoder.Read returned a %s packet although the stream holds no complete valid packet", g.Type())}
		}
		return nil
	}
	stream := append(append([]byte{}, b[:T]...), 0xC0, 0x00)
	dec := packet.NewDecoder(bytes.NewReader(stream))
	g, err := dec.Read()
	if err != nil {
		return &verdict{"stream/rejects-what-reference-accepts", "Decoder.Read: " + err.Error()}
	}
	snap := conv.Clone(conv.FromLib(g))
	if ok, diff := conv.Equal(snap, want); !ok {
		return &verdict{"stream/field-mismatch", diff}
	}
	g2, err := dec.Read()
	if err != nil || g2.Type() != packet.PINGREQ {
		return &verdict{"stream/lost-sync", fmt.Sprintf("second Read = %v, %v; want the PINGREQ that follows", g2, err)}
	}
	if ok, diff := conv.Equal(conv.FromLib(g), snap); !ok {
		return &verdict{"stream/first-packet-changed-by-second-read", diff}
	}
	if _, err := dec.Read(); err != io.EOF {
		return &verdict{"stream/no-eof", fmt.Sprintf("third Read err=%v, want io.EOF", err)}
	}
	return nil
}

// ---------------------------------------------------------------------------

func lengthPrefixOffsets(p *refcodec.Packet, hdr int) []int {
	var o []int
	switch p.Type {
	case refcodec.CONNECT:
		pos := hdr
		o = append(o, pos)
		pos += 2 + len(p.ProtoName) + 1 + 1 + 2
		o = append(o, pos)
		pos += 2 + len(p.ClientID)
		if p.HasWill {
			o = append(o, pos)
			pos += 2 + len(p.WillTopic)
			o = append(o, pos)
			pos += 2 + len(p.WillPayload)
		}
		if p.HasUser {
			o = append(o, pos)
			pos += 2 + len(p.User)
		}
		if p.HasPass {
			o = append(o, pos)
		}
	case refcodec.PUBLISH:
		o = append(o, hdr)
	case refcodec.SUBSCRIBE, refcodec.UNSUBSCRIBE:
		pos := hdr + 2
		for _, f := range p.Filters {
			o = append(o, pos)
			pos += 2 + len(f)
			if p.Type == refcodec.SUBSCRIBE {
				pos++
			}
		}
	}
	return o
}

func reheader(first byte, rl int, body []byte, nonMinimal bool) []byte {
	out := []byte{first}
	out = refcodec.PutVarint(out, rl)
	if nonMinimal && len(out) < 5 {
		out[len(out)-1] |= 0x80
		out = append(out, 0x00)
	}
	return append(out, body...)
}

// battery returns the deterministic structure-aware mutants of a valid packet.
func battery(p *refcodec.Packet) [][]byte {
	r := refcodec.Encode(p)
	body := refcodec.Body(p)
	hdr := len(r) - len(body)
	var out [][]byte
	add := func(b []byte) { out = append(out, b) }
	add(r)
	// truncations (all for short packets, sampled for long ones)
	step := 1
	if len(r) > 80 {
		step = len(r) / 40
	}
	for k := 0; k < len(r); k += step {
		add(append([]byte{}, r[:k]...))
	}
	add(append([]byte{}, r[:len(r)-1]...))
	// remaining length edits with the body unchanged
	for _, d := range []int{-2, -1, 1, 2, 3} {
		if len(body)+d >= 0 {
			add(reheader(r[0], len(body)+d, body, false))
		}
	}
	add(reheader(r[0], 0, body, false))
	add(reheader(r[0], len(body), body, true))
	add(reheader(r[0], refcodec.MaxRL, body, false))
	// flags and type nibble
	for f := 0; f < 16; f++ {
		m := append([]byte{}, r...)
		m[0] = m[0]&0xF0 | byte(f)
		add(m)
		m = append([]byte{}, r...)
		m[0] = m[0]&0x0F | byte(f)<<4
		add(m)
	}
	// length prefixes
	for _, o := range lengthPrefixOffsets(p, hdr) {
		if o+2 > len(r) {
			continue
		}
		cur := int(r[o])<<8 | int(r[o+1])
		for _, nv := range []int{0, cur + 1, cur - 1, cur + 2, 0xFFFF, len(r) - o - 2, len(r) - o - 1, len(r) - o} {
			if nv < 0 || nv > 0xFFFF || nv == cur {
				continue
			}
			m := append([]byte{}, r...)
			m[o], m[o+1] = byte(nv>>8), byte(nv)
			add(m)
			// same edit with the remaining length adjusted to stay consistent
			if d := nv - cur; len(body)+d >= 0 && d < 64 {
				b2 := append([]byte{}, body...)
				b2[o-hdr], b2[o-hdr+1] = byte(nv>>8), byte(nv)
				if d > 0 {
					b2 = append(b2, bytes.Repeat([]byte{0x00}, d)...)
				} else {
					b2 = b2[:len(b2)+d]
				}
				add(reheader(r[0], len(b2), b2, false))
			}
		}
	}
	// extension inside the declared extent (unconsumed bytes)
	for _, extra := range [][]byte{{0}, {0, 0}, {0xFF}, {0, 1, 'z'}} {
		add(reheader(r[0], len(body)+len(extra), append(append([]byte{}, body...), extra...), false))
	}
	// body byte edits at the first bytes after the header (flags, ids, codes)
	for i := hdr; i < len(r) && i < hdr+14; i++ {
		for _, val := range []byte{0x00, 0x01, 0x03, 0x80, 0xFF} {
			m := append([]byte{}, r...)
			m[i] = val
			add(m)
		}
	}
	if len(r) > hdr {
		for _, val := range []byte{0x00, 0x03, 0x80, 0xFF} {
			m := append([]byte{}, r...)
			m[len(m)-1] = val
			add(m)
		}
	}
	return out
}

func classify(run *ev.Run, b []byte) {
	run.Eval(1)
	h, need, herr := refcodec.ParseHeader(b)
	if herr != nil || need || h.Type < 1 || h.Type > 14 || len(b) < h.Total() {
		run.Class("framing:incomplete-or-bad-header")
		return
	}
	_, _, rerr := refcodec.Decode(b[:h.Total()], true)
	if rerr == nil {
		run.Class("reference-accepts:" + tname(h.Type))
	} else {
		run.Class("reference-rejects:" + tname(h.Type))
	}
	if len(b) > h.Total() {
		run.Class("embedded-in-longer-buffer")
	}
	run.NonTrivial(ev.Hash(b[:h.Total()]), func() interface{} {
		s := b[:h.Total()]
		if len(s) > 48 {
			return map[string]interface{}{"hex_prefix": fmt.Sprintf("%x", s[:48]), "len": len(s), "reference_accepts": rerr == nil}
		}
		return map[string]interface{}{"hex": fmt.Sprintf("%x", s), "reference_accepts": rerr == nil}
	})
}

func smallish(rt *rapid.T) *refcodec.Packet {
	if rapid.IntRange(0, 9).Draw(rt, "bigpkt") == 0 {
		return gen.Packet(rt)
	}
	p := gen.SmallPacket(rt, gen.Type(rt))
	if p.Type == refcodec.CONNECT {
		// exercise optional fields too
		if rapid.Bool().Draw(rt, "will") {
			p.HasWill, p.WillTopic, p.WillPayload = true, "w", []byte("x")
			p.WillQoS = byte(rapid.IntRange(0, 2).Draw(rt, "wq"))
			p.WillRetain = rapid.Bool().Draw(rt, "wr")
		}
		if rapid.Bool().Draw(rt, "user") {
			p.HasUser, p.User = true, "u"
			if rapid.Bool().Draw(rt, "pass") {
				p.HasPass, p.Pass = true, "p"
			}
		}
		if rapid.Bool().Draw(rt, "v3") {
			p.Level, p.ProtoName = 3, "MQIsdp"
		}
	}
	return p
}

// openSkips returns the oracle clauses that are switched off because they are
// listed as open findings in KNOWN_FINDINGS.txt (value = hit counter).
func openSkips(run *ev.Run) map[string]int {
	skip := map[string]int{}
	for _, sig := range []string{"Connect/locality:accepted-only-when-embedded"} {
		if run.Open(sig) {
			skip[sig] = 0
		}
	}
	return skip
}

func TestC02(t *testing.T) {
	run := ev.Start("C02", "exploration")
	run.Rule("byte strings from: exhaustive short strings and headers; a deterministic battery of structure-aware mutants of rapid-generated valid encodings (every truncation, remaining-length edits, all flag/type nibbles, every 2-byte length prefix set to 0/+-1/+2/0xFFFF/extent-relative values with and without consistent remaining length, bytes appended inside the declared extent, byte edits); random mutations (bit flips, inserts, deletes, splices); random bodies behind valid headers; each judged framed, embedded (own tail + adversarial tails) and through packet.Decoder. non-trivial = fixed header parses and the buffer holds the declared extent (input reaches a type-specific decoder); distinct by hash of the framed bytes")
	run.Assume("reference decoder implements MQTT 3.1.1 with leniencies L1-L4 of DESIGN.md section 3 (a deviation is a leniency iff the library's own encoder emits it)")
	defer run.Finish(t)
	shard, shards := ev.Shard()

	// open findings are excluded by construction (and counted) so that the
	// search continues past them
	skip := openSkips(run)
	defer func() {
		for sig, n := range skip {
			for i := 0; i < n; i++ {
				run.Excluded(sig)
			}
		}
	}()

	try := func(b []byte, full bool, note string) bool {
		classify(run, b)
		if v := judge(b, full, skip); v != nil {
			run.Violation(v.sig, v.msg, &Case{Input: b, Note: note})
			return false
		}
		return true
	}

	// (a) exhaustive short strings
	maxLen := 2
	if ev.Thorough() {
		maxLen = 3
	}
	if shard == 0 {
		try([]byte{}, true, "empty")
	}
	for a := 0; a < 256; a++ {
		if a%shards != shard {
			continue
		}
		try([]byte{byte(a)}, true, "exhaustive-1")
		for b := 0; b < 256; b++ {
			try([]byte{byte(a), byte(b)}, true, "exhaustive-2")
			if maxLen >= 3 {
				for c := 0; c < 256; c++ {
					try([]byte{byte(a), byte(b), byte(c)}, false, "exhaustive-3")
				}
			}
		}
	}
	run.Exhaustive(fmt.Sprintf("all byte strings of length <= %d", maxLen))

	// (a') all first bytes x all 1- and 2-byte remaining-length encodings with RL <= 64 x body shapes
	for fb := 0; fb < 256; fb++ {
		if fb%shards != shard {
			continue
		}
		for rl := 0; rl <= 64; rl++ {
			for enc := 0; enc < 2; enc++ {
				hdr := []byte{byte(fb), byte(rl)}
				if enc == 1 {
					hdr = []byte{byte(fb), byte(rl) | 0x80, 0x00}
				}
				for shapeN, fillb := range []byte{0x00, 0xFF, 0x00, 0x00} {
					n := rl
					if shapeN == 2 {
						n = rl - 1
					} else if shapeN == 3 {
						n = rl + 1
					}
					if n < 0 {
						continue
					}
					try(append(append([]byte{}, hdr...), bytes.Repeat([]byte{fillb}, n)...), false, "header-sweep")
				}
			}
		}
		// 3/4/5-byte varints at boundary values
		for _, v := range [][]byte{{0x80, 0x80, 0x01}, {0xFF, 0xFF, 0x7F}, {0x80, 0x80, 0x80, 0x01}, {0xFF, 0xFF, 0xFF, 0x7F}, {0x80, 0x80, 0x80, 0x00},
			{0x80, 0x80, 0x80, 0x80, 0x01}, {0xFF, 0xFF, 0xFF, 0xFF, 0x7F}, {0x80, 0x80, 0x80, 0x80, 0x00}, {0xFF, 0xFF, 0xFF, 0xFF, 0xFF, 0xFF, 0xFF, 0xFF, 0xFF, 0xFF, 0x01}} {
			try(append([]byte{byte(fb)}, v...), true, "long-varint")
			try(append(append([]byte{byte(fb)}, v...), 0, 0, 0, 0), true, "long-varint+tail")
		}
	}
	run.Exhaustive("256 first bytes x remaining length 0..64 in minimal and non-minimal 2-byte form x bodies {zeros, 0xFF, one short, one long}; 3/4/5/11-byte varints at boundary values")

	// (a'') CONNECT variable header sweep: protocol name x level x connect flags,
	// with a payload that is consistent with the flags
	{
		lp := func(x string) []byte { return append([]byte{byte(len(x) >> 8), byte(len(x))}, x...) }
		names := []string{"", "M", "MQTT", "MQIsdp", "MQTT\x00", "mqtt", "MQTTT", "MQIsd", "\x00"}
		connect := func(name string, level, flags byte) []byte {
			body := append(lp(name), level, flags, 0, 10)
			body = append(body, lp("c")...)
			if flags&0x04 != 0 {
				body = append(append(body, lp("w")...), lp("p")...)
			}
			if flags&0x80 != 0 {
				body = append(body, lp("u")...)
			}
			if flags&0x40 != 0 {
				body = append(body, lp("x")...)
			}
			return append([]byte{0x10, byte(len(body))}, body...)
		}
		idx := 0
		for _, name := range names {
			for level := 0; level < 256; level++ {
				for _, flags := range []byte{0x02, 0x00, 0xC6} {
					idx++
					if idx%shards == shard {
						try(connect(name, byte(level), flags), true, "connect-sweep")
					}
				}
			}
			for _, level := range []byte{0, 3, 4, 5} {
				for flags := 0; flags < 256; flags++ {
					idx++
					if idx%shards == shard {
						try(connect(name, level, byte(flags)), true, "connect-sweep")
					}
				}
			}
		}
		run.Exhaustive("CONNECT with protocol name in {empty, M, MQTT, MQIsdp, MQTT+NUL, mqtt, MQTTT, MQIsd, NUL} x every protocol level 0..255 x flags {02, 00, C6} and x levels {0,3,4,5} x every connect-flags byte, payload consistent with the flags")
	}

	// (b) structured battery over generated valid packets
	run.Rapid(t, "battery", ev.Pick(1500, 120000), func(rt *rapid.T) {
		p := smallish(rt)
		for _, m := range battery(p) {
			classify(run, m)
			if v := judge(m, true, skip); v != nil {
				run.Candidate(v.sig, v.msg, &Case{Input: m, Note: "battery mutant of a valid " + tname(p.Type)})
				rt.Fatalf("%s: %s", v.sig, v.msg)
			}
		}
	})
	// (b') random mutation chains and splices
	run.Rapid(t, "mutate", ev.Pick(3000, 300000), func(rt *rapid.T) {
		b := refcodec.Encode(smallish(rt))
		if rapid.IntRange(0, 3).Draw(rt, "splice") == 0 {
			o := refcodec.Encode(smallish(rt))
			i := rapid.IntRange(0, len(b)).Draw(rt, "cut1")
			j := rapid.IntRange(0, len(o)).Draw(rt, "cut2")
			b = append(append([]byte{}, b[:i]...), o[j:]...)
		}
		n := rapid.IntRange(1, 4).Draw(rt, "nmut")
		for k := 0; k < n && len(b) > 0; k++ {
			pos := rapid.IntRange(0, len(b)-1).Draw(rt, "pos")
			if len(b) > 12 && rapid.Bool().Draw(rt, "front") {
				pos = pos % 12
			}
			switch rapid.IntRange(0, 4).Draw(rt, "op") {
			case 0:
				b[pos] ^= 1 << uint(rapid.IntRange(0, 7).Draw(rt, "bit"))
			case 1:
				b[pos] = rapid.Byte().Draw(rt, "val")
			case 2:
				b = append(b[:pos], append([]byte{rapid.Byte().Draw(rt, "ins")}, b[pos:]...)...)
			case 3:
				b = append(b[:pos], b[pos+1:]...)
			case 4:
				b = append(b, rapid.SliceOfN(rapid.Byte(), 1, 6).Draw(rt, "ext")...)
			}
		}
		classify(run, b)
		if v := judge(b, true, skip); v != nil {
			run.Candidate(v.sig, v.msg, &Case{Input: b, Note: "random mutation"})
			rt.Fatalf("%s: %s", v.sig, v.msg)
		}
	})
	// (c) random bodies behind a valid header
	run.Rapid(t, "random-body", ev.Pick(3000, 300000), func(rt *rapid.T) {
		ty := gen.Type(rt)
		fl := refcodec.FixedFlags(ty)
		if ty == refcodec.PUBLISH || rapid.IntRange(0, 7).Draw(rt, "anyflags") == 0 {
			fl = byte(rapid.IntRange(0, 15).Draw(rt, "flags"))
		}
		var body []byte
		if rapid.Bool().Draw(rt, "structured") {
			// plausible field soup: length-prefixed chunks and small integers
			for k := rapid.IntRange(0, 6).Draw(rt, "chunks"); k > 0; k-- {
				if rapid.Bool().Draw(rt, "lp") {
					s := rapid.SliceOfN(rapid.Byte(), 0, 5).Draw(rt, "s")
					l := len(s) + rapid.IntRange(-1, 1).Draw(rt, "skew")
					if l < 0 {
						l = 0
					}
					body = append(body, byte(l>>8), byte(l))
					body = append(body, s...)
				} else {
					body = append(body, rapid.SampledFrom([]byte{0, 1, 2, 3, 4, 5, 6, 0x80, 0xFF}).Draw(rt, "b"))
				}
			}
		} else {
			body = rapid.SliceOfN(rapid.Byte(), 0, 24).Draw(rt, "body")
		}
		rl := len(body) + rapid.SampledFrom([]int{0, 0, 0, 0, -1, 1, 2}).Draw(rt, "rlskew")
		if rl < 0 {
			rl = 0
		}
		b := reheader(ty<<4|fl, rl, body, rapid.IntRange(0, 9).Draw(rt, "nonmin") == 0)
		classify(run, b)
		if v := judge(b, true, skip); v != nil {
			run.Candidate(v.sig, v.msg, &Case{Input: b, Note: "random body"})
			rt.Fatalf("%s: %s", v.sig, v.msg)
		}
	})
}

func TestReplay(t *testing.T) {
	var c Case
	ok, err := ev.ReplayCase(&c)
	if !ok {
		t.Skip("no VERIF_REPLAY")
	}
	if err != nil {
		t.Fatal(err)
	}
	if v := judge(c.Input, true, nil); v != nil {
		t.Fatalf("VIOLATION reproduced: %s: %s", v.sig, v.msg)
	}
	t.Log("case passes")
}

func FuzzC02(f *testing.F) {
	for t := byte(1); t <= 14; t++ {
		p := &refcodec.Packet{Type: t, ID: 1, Topic: "a/b", Payload: []byte("x"), Filters: []string{"a/+"}, QoSs: []byte{1}, Codes: []byte{1},
			Level: 4, ProtoName: "MQTT", Clean: true, ClientID: "c", HasWill: true, WillTopic: "w", WillPayload: []byte("bye"), HasUser: true, User: "u", HasPass: true, Pass: "p", QoS: 1}
		f.Add(refcodec.Encode(p))
	}
	for _, h := range [][]byte{{0x30, 0x02, 0x00, 0x03}, {0x20, 0x03, 0, 0, 0}, {0x10, 0x0c, 0, 4, 'M', 'Q', 'T', 'T', 4, 2, 0, 0, 0, 0, 9, 9}, {0x82, 0xff, 0xff, 0xff, 0x7f}, {0x30, 0x80, 0x80, 0x80, 0x80, 0x01}} {
		f.Add(h)
	}
	skip := openSkips(ev.Start("C02", "exploration"))
	f.Fuzz(func(t *testing.T, b []byte) {
		if len(b) > 1<<16 {
			return
		}
		if v := judge(b, true, skip); v != nil {
			out, _ := json.MarshalIndent(map[string]interface{}{"property": "C02", "signature": v.sig, "message": v.msg, "tier": "thorough", "case": &Case{Input: b, Note: "native fuzz"}}, "", " ")
			_ = os.MkdirAll(ev.Root()+"/replays", 0o755)
			_ = os.WriteFile(fmt.Sprintf("%s/replays/C02-fuzz-%x.json", ev.Root(), ev.Hash(v.sig)), out, 0o644)
			t.Fatalf("%s: %s", v.sig, v.msg)
		}
	})
}
