// C11 — retained set = last non-empty retained publish per topic, replayed on subscribe.
package c11

import (
	"bytes"
	"fmt"
	"sort"
	"strings"
	"testing"
	"time"

	"github.com/256dpi/gomqtt/broker"
	"github.com/256dpi/gomqtt/packet"
	"pgregory.net/rapid"

	"verif/internal/bk"
	"verif/internal/ev"
	"verif/internal/memconn"
	"verif/internal/peer"
	"verif/internal/reftopic"
)

// Sub is one (filter, qos) pair.
type Sub struct {
	Filter string `json:"f"`
	QoS    int    `json:"q"`
}

// Op kinds: connect drop disconnect publish subscribe unsubscribe.
type Op struct {
	Kind   string   `json:"k"`
	Client int      `json:"c"`
	Clean  bool     `json:"clean,omitempty"`
	Will   *Msg     `json:"will,omitempty"`
	Msg    *Msg     `json:"msg,omitempty"`
	Subs   []Sub    `json:"subs,omitempty"`
	Topics []string `json:"topics,omitempty"`
}

// Msg is a publish or will description.
type Msg struct {
	Topic  string `json:"topic"`
	QoS    int    `json:"qos"`
	Retain bool   `json:"retain,omitempty"`
	Empty  bool   `json:"empty,omitempty"`
}

// Case is a history - or, with Busy set, a set of operations that queue up
// behind a busy backend and are then let go at once.
type Case struct {
	Clients int  `json:"clients"`
	Ops     []Op `json:"ops"`

	Pre         []string `json:"pre,omitempty"`         // topics that hold a retained message beforehand
	Subscribers int      `json:"subscribers,omitempty"` // busy: number of subscribers
	Busy        []BOp    `json:"busy,omitempty"`
	Own         *OwnCase `json:"own,omitempty"`
}

// OwnCase: a retained QoS 1/2 publish by a client whose own matching
// subscription queue is full (the memory backend refuses it with
// ErrQueueFull and the connection ends); the client resumes its session,
// drains the backlog and completes the handshake.
type OwnCase struct {
	Queue  int    `json:"queue"`
	Window int    `json:"window"`
	QoS    int    `json:"qos"`
	Pre    bool   `json:"pre,omitempty"`
	Filter string `json:"filter"`
}

// BOp is an operation issued while the backend is busy: "retain" (a retained
// publish, each from a connection of its own) or "sub" (SUBSCRIBE by subscriber Who).
type BOp struct {
	Kind   string `json:"k"`
	Topic  string `json:"t,omitempty"`
	QoS    int    `json:"q,omitempty"`
	Filter string `json:"f,omitempty"`
	Who    int    `json:"w,omitempty"`
}

type verdict struct{ sig, msg string }

var topics = []string{"a", "a/b", "a/b/c", "b", "a/"}

func allFilters() []string {
	var out, pre []string
	var rec func(prefix []string, depth int, dst *[]string)
	rec = func(prefix []string, depth int, dst *[]string) {
		if len(prefix) > 0 {
			*dst = append(*dst, strings.Join(prefix, "/"))
		}
		if depth == 0 {
			return
		}
		for _, a := range []string{"a", "b", "", "+"} {
			rec(append(append([]string{}, prefix...), a), depth-1, dst)
		}
	}
	var fs []string
	rec(nil, 3, &fs)
	for _, f := range fs {
		if f != "" {
			out = append(out, f)
		}
	}
	rec(nil, 2, &pre)
	out = append(out, "#")
	for _, p := range pre {
		out = append(out, p+"/#")
	}
	return out
}

var filters = allFilters()

type retained struct {
	payload []byte
	qos     int
}

type expect struct {
	topic   string
	payload []byte
	retain  bool
	qosSet  map[int]bool
}

type cstate struct {
	online, clean, stored bool
	subs                  map[string]int
	will                  *Msg
	willPayload           []byte
	pending               []expect
	p                     *peer.Peer
	bconn                 *memconn.Conn
	from                  int
}

func qosSet(subs map[string]int, topic string, q int) map[int]bool {
	qs := map[int]bool{}
	for f, sq := range subs {
		if reftopic.Match(f, topic) {
			m := sq
			if q < m {
				m = q
			}
			qs[m] = true
		}
	}
	return qs
}

func fmtPub(p *packet.Publish) string {
	return fmt.Sprintf("{topic=%q qos=%d retain=%v payload=%q}", p.Message.Topic, p.Message.QOS, p.Message.Retain, p.Message.Payload)
}

func fmtExp(e expect) string {
	var qs []int
	for q := range e.qosSet {
		qs = append(qs, q)
	}
	sort.Ints(qs)
	return fmt.Sprintf("{topic=%q retain=%v payload=%q qos in %v}", e.topic, e.retain, e.payload, qs)
}

func checkInbox(name string, c *cstate, want []expect) *verdict {
	got := c.p.Publishes(c.from)
	c.from = len(c.p.Inbox)
	used := make([]bool, len(want))
	for _, g := range got {
		found := -1
		for i, w := range want {
			if !used[i] && w.topic == g.Message.Topic && bytes.Equal(w.payload, g.Message.Payload) && w.retain == g.Message.Retain {
				found = i
				break
			}
		}
		if found < 0 {
			kind := "live"
			if g.Message.Retain {
				kind = "retained"
			}
			for _, w := range want {
				if w.topic == g.Message.Topic && bytes.Equal(w.payload, g.Message.Payload) && w.retain != g.Message.Retain {
					return &verdict{"flag/retain-flag-wrong:" + kind, fmt.Sprintf("%s received %s, expected the same message with retain=%v", name, fmtPub(g), w.retain)}
				}
			}
			return &verdict{"replay/unexpected-" + kind + "-message", fmt.Sprintf("%s received %s which the model does not expect (expected %v)", name, fmtPub(g), fmtExps(want))}
		}
		used[found] = true
		if !want[found].qosSet[int(g.Message.QOS)] {
			return &verdict{"replay/qos-cap", fmt.Sprintf("%s received %s, expected %s", name, fmtPub(g), fmtExp(want[found]))}
		}
	}
	for i, w := range want {
		if !used[i] {
			kind := "live"
			if w.retain {
				kind = "retained"
			}
			return &verdict{"replay/missing-" + kind + "-message", fmt.Sprintf("%s did not receive %s (subscriptions %v); received %d messages", name, fmtExp(w), c.subs, len(got))}
		}
	}
	return nil
}

func fmtExps(l []expect) string {
	var s []string
	for _, e := range l {
		s = append(s, fmtExp(e))
	}
	return "[" + strings.Join(s, " ") + "]"
}

type stats struct {
	skipped    int
	nontrivial bool
	subscribes int
}

func runCase(c *Case, st *stats) *verdict {
	b := bk.New(nil)
	defer b.Shutdown()
	cs := make([]*cstate, c.Clients)
	for i := range cs {
		cs[i] = &cstate{subs: map[string]int{}}
	}
	ret := map[string]retained{}
	name := func(i int) string { return fmt.Sprintf("r%d", i) }
	fail := func(sig, msg string) *verdict {
		ls := strings.Split(strings.TrimRight(b.Log.Dump(), "\n"), "\n")
		if len(ls) > 40 {
			ls = ls[len(ls)-40:]
		}
		return &verdict{sig, msg + "\n--- event log tail ---\n" + strings.Join(ls, "\n")}
	}
	// a helper peer that only publishes barrier markers when nobody else can
	barrierFrom := func(pubIdx int, tag string) *verdict {
		if err := cs[pubIdx].p.Markers(tag); err != nil {
			return fail("harness/marker-publish", err.Error())
		}
		for i, s := range cs {
			if s.online && !s.p.AwaitMarkers(s.from, tag) {
				return fail("delivery/barrier-marker-missing", fmt.Sprintf("%s never received markers %q (eof=%v)", name(i), tag, s.p.EOF))
			}
		}
		return nil
	}
	// apply a publish (live or will) to the model and return per-client expectations
	applyPublish := func(m *Msg, pl []byte) map[int][]expect {
		out := map[int][]expect{}
		if m.Retain {
			if len(pl) > 0 {
				ret[m.Topic] = retained{pl, m.QoS}
			} else {
				delete(ret, m.Topic)
			}
		}
		for i, x := range cs {
			qs := qosSet(x.subs, m.Topic, m.QoS)
			if len(qs) == 0 {
				continue
			}
			e := expect{m.Topic, pl, false, qs}
			if x.online {
				out[i] = append(out[i], e)
			} else if x.stored && m.QoS > 0 {
				x.pending = append(x.pending, e)
			}
		}
		return out
	}
	checkAll := func(step int, o Op, exp map[int][]expect) *verdict {
		for i, x := range cs {
			if !x.online {
				continue
			}
			if v := checkInbox(name(i), x, exp[i]); v != nil {
				return fail(v.sig, fmt.Sprintf("after step %d (%s): %s; retained model: %v", step, fmtOp(o), v.msg, fmtRet(ret)))
			}
		}
		return nil
	}

	for step, o := range c.Ops {
		if o.Client >= c.Clients {
			st.skipped++
			continue
		}
		s := cs[o.Client]
		switch o.Kind {
		case "connect":
			if s.online {
				st.skipped++
				continue
			}
			s.p, s.bconn = b.Dial(name(o.Client))
			cp := packet.NewConnect()
			cp.ClientID, cp.CleanSession = name(o.Client), o.Clean
			s.will = o.Will
			if o.Will != nil {
				s.willPayload = []byte(fmt.Sprintf("W%d", step))
				if o.Will.Empty {
					s.willPayload = nil
				}
				cp.Will = &packet.Message{Topic: o.Will.Topic, Payload: s.willPayload, QOS: packet.QOS(o.Will.QoS), Retain: o.Will.Retain}
			}
			if _, err := s.p.Connect(cp); err != nil {
				return fail("harness/connect", err.Error())
			}
			s.online, s.clean, s.from = true, o.Clean, len(s.p.Inbox)
			if o.Clean || !s.stored {
				s.subs, s.pending = map[string]int{}, nil
			}
			s.stored = !o.Clean
			if _, ok := s.subs[peer.MarkerTopic]; !ok {
				if _, err := s.p.Subscribe([]packet.Subscription{{Topic: peer.MarkerTopic, QOS: 1}}); err != nil {
					return fail("harness/marker-subscribe", err.Error())
				}
				s.subs[peer.MarkerTopic] = 1
			}
			if v := barrierFrom(o.Client, fmt.Sprintf("s%d", step)); v != nil {
				return v
			}
			exp := map[int][]expect{o.Client: s.pending}
			s.pending = nil
			if v := checkAll(step, o, exp); v != nil {
				return v
			}
		case "drop", "disconnect":
			if !s.online {
				st.skipped++
				continue
			}
			if o.Kind == "drop" {
				s.p.Drop()
			} else {
				s.p.Disconnect()
			}
			if !b.WaitClosed(s.bconn) {
				return fail("liveness/client-not-terminated", name(o.Client))
			}
			s.online = false
			if s.clean {
				s.subs = map[string]int{}
			}
			exp := map[int][]expect{}
			if o.Kind == "drop" && s.will != nil {
				if s.will.Retain {
					st.nontrivial = true
				}
				exp = applyPublish(s.will, s.willPayload)
			}
			// somebody online must carry the barrier
			carrier := -1
			for i, x := range cs {
				if x.online {
					carrier = i
					break
				}
			}
			if carrier >= 0 {
				if v := barrierFrom(carrier, fmt.Sprintf("d%d", step)); v != nil {
					return v
				}
				if v := checkAll(step, o, exp); v != nil {
					return v
				}
			}
		case "publish":
			if !s.online {
				st.skipped++
				continue
			}
			pl := []byte(fmt.Sprintf("P%d", step))
			if o.Msg.Empty {
				pl = nil
			}
			if err := s.p.Publish(o.Msg.Topic, pl, packet.QOS(o.Msg.QoS), o.Msg.Retain); err != nil {
				return fail("publish/handshake-incomplete", err.Error())
			}
			exp := applyPublish(o.Msg, pl)
			if v := barrierFrom(o.Client, fmt.Sprintf("p%d", step)); v != nil {
				return v
			}
			if v := checkAll(step, o, exp); v != nil {
				return v
			}
		case "subscribe":
			if !s.online || len(o.Subs) == 0 {
				st.skipped++
				continue
			}
			st.subscribes++
			var subs []packet.Subscription
			for _, x := range o.Subs {
				subs = append(subs, packet.Subscription{Topic: x.Filter, QOS: packet.QOS(x.QoS)})
				s.subs[x.Filter] = x.QoS
			}
			if _, err := s.p.Subscribe(subs); err != nil {
				return fail("subscribe/no-suback", err.Error())
			}
			var want []expect
			for _, x := range o.Subs {
				nomatch := false
				for _, tp := range topics {
					r, ok := ret[tp]
					if !ok {
						continue
					}
					if reftopic.Match(x.Filter, tp) {
						want = append(want, expect{tp, r.payload, true, qosSet(s.subs, tp, r.qos)})
					} else {
						nomatch = true
					}
				}
				if nomatch && strings.ContainsAny(x.Filter, "+#") {
					st.nontrivial = true
				}
			}
			if v := barrierFrom(o.Client, fmt.Sprintf("u%d", step)); v != nil {
				return v
			}
			if v := checkAll(step, o, map[int][]expect{o.Client: want}); v != nil {
				return v
			}
		case "unsubscribe":
			if !s.online || len(o.Topics) == 0 {
				st.skipped++
				continue
			}
			if err := s.p.Unsubscribe(o.Topics); err != nil {
				return fail("unsubscribe/no-unsuback", err.Error())
			}
			for _, f := range o.Topics {
				delete(s.subs, f)
			}
		}
	}
	return nil
}

// runBusy: retained publishes and subscriptions that meet inside the backend.
// The memory backend is held inside the acknowledgement of an unrelated publish
// (it acknowledges while holding its global mutex); meanwhile retained
// publishes - each on its own connection - and SUBSCRIBEs are sent, so that
// all of them wait at the backend and then run back to back in one burst.
// Whatever order they run in, publishing and subscribing are atomic with
// respect to each other, hence: a subscriber must have received (as replay or
// live) the value that a topic matching its filter retains in the end - it
// either subscribed before that publish (live copy) or after it (replay).
func runBusy(c *Case) *verdict {
	b := bk.New(nil)
	defer b.Shutdown()
	fail := func(sig, format string, a ...interface{}) *verdict {
		ls := strings.Split(strings.TrimRight(b.Log.Dump(), "\n"), "\n")
		if len(ls) > 120 {
			ls = ls[len(ls)-120:]
		}
		return &verdict{sig, fmt.Sprintf(format, a...) + "\n--- event log tail ---\n" + strings.Join(ls, "\n")}
	}
	mk := func(name string) (*peer.Peer, *verdict) {
		p, _ := b.Dial(name)
		if _, err := p.ConnectID("c11-"+name, true); err != nil {
			return nil, fail("harness/connect", "%v", err)
		}
		return p, nil
	}
	seed, v := mk("seed")
	if v != nil {
		return v
	}
	final := map[string]string{}
	for _, tp := range c.Pre {
		pl := "v0:" + tp
		if err := seed.Publish(tp, []byte(pl), 1, true); err != nil {
			return fail("harness/publish", "%v", err)
		}
		final[tp] = pl
	}
	subs := make([]*peer.Peer, c.Subscribers)
	for i := range subs {
		if subs[i], v = mk(fmt.Sprintf("s%d", i)); v != nil {
			return v
		}
		if _, err := subs[i].Subscribe([]packet.Subscription{{Topic: peer.MarkerTopic, QOS: 1}}); err != nil {
			return fail("harness/subscribe", "%v", err)
		}
	}
	var pubs []*peer.Peer
	for _, o := range c.Busy {
		if o.Kind == "retain" {
			p, v := mk(fmt.Sprintf("p%d", len(pubs)))
			if v != nil {
				return v
			}
			pubs = append(pubs, p)
		}
	}
	blocker, v := mk("blocker")
	if v != nil {
		return v
	}
	entered, release := b.Rec.HoldAck("blocker-msg")
	defer release()
	_ = blocker.Send(&packet.Publish{ID: 1, Message: packet.Message{Topic: "c11/block", QOS: 1, Payload: []byte("blocker-msg")}})
	select {
	case <-entered:
	case <-time.After(ev.Ceiling()):
		return fail("harness/busy", "the backend never reached the held acknowledgement")
	}
	// queue the operations
	type sent struct {
		p  *peer.Peer
		id packet.ID
	}
	var awaitAcks, awaitSubacks []sent
	filtersOf := make([][]string, c.Subscribers)
	np := 0
	for i, o := range c.Busy {
		switch o.Kind {
		case "retain":
			p := pubs[np]
			np++
			pl := fmt.Sprintf("v%d:%s", i+1, o.Topic)
			pub := &packet.Publish{Message: packet.Message{Topic: o.Topic, QOS: packet.QOS(o.QoS), Retain: true, Payload: []byte(pl)}}
			if o.QoS > 0 {
				pub.ID = p.NextID()
				awaitAcks = append(awaitAcks, sent{p, pub.ID})
			}
			_ = p.Send(pub)
		case "sub":
			p := subs[o.Who]
			id := p.NextID()
			_ = p.Send(&packet.Subscribe{ID: id, Subscriptions: []packet.Subscription{{Topic: o.Filter, QOS: packet.QOS(o.QoS)}}})
			awaitSubacks = append(awaitSubacks, sent{p, id})
			filtersOf[o.Who] = append(filtersOf[o.Who], o.Filter)
		}
		time.Sleep(300 * time.Microsecond) // lets the call reach the backend before the next one (order is not relied upon)
	}
	release()
	for _, a := range awaitAcks {
		a := a
		if a.p.WaitFor(0, func(g packet.Generic) bool { x, ok := g.(*packet.Puback); return ok && x.ID == a.id }, ev.Ceiling()) < 0 {
			return fail("harness/puback", "%s: retained publish id %d not acknowledged after the backend was released", a.p.Name, a.id)
		}
	}
	for _, a := range awaitSubacks {
		a := a
		if a.p.WaitFor(0, func(g packet.Generic) bool { x, ok := g.(*packet.Suback); return ok && x.ID == a.id }, ev.Ceiling()) < 0 {
			return fail("subscribe/no-suback", "%s: SUBSCRIBE id %d not acknowledged after the backend was released", a.p.Name, a.id)
		}
	}
	// barrier: markers from every publisher reach every subscriber behind all their publishes
	for k, p := range pubs {
		tag := fmt.Sprintf("busy-%d", k)
		if err := p.Markers(tag); err != nil {
			return fail("harness/marker-publish", "%v", err)
		}
		for _, sp := range subs {
			if !sp.AwaitMarkers(0, tag) {
				return fail("delivery/barrier-marker-missing", "%s never received the markers %q (eof=%v)", sp.Name, tag, sp.EOF)
			}
		}
	}
	// ... and one barrier behind everything (the replays of the last SUBSCRIBEs included)
	if err := seed.Markers("end"); err != nil {
		return fail("harness/marker-publish", "%v", err)
	}
	for _, sp := range subs {
		if !sp.AwaitMarkers(0, "end") {
			return fail("delivery/barrier-marker-missing", "%s never received the final markers (eof=%v)", sp.Name, sp.EOF)
		}
	}
	// what does the broker retain in the end? ask a fresh subscriber
	fresh, v := mk("fresh")
	if v != nil {
		return v
	}
	if _, err := fresh.Subscribe([]packet.Subscription{{Topic: "#", QOS: 1}}); err != nil {
		return fail("harness/subscribe", "%v", err)
	}
	if err := seed.Markers("fresh"); err != nil {
		return fail("harness/marker-publish", "%v", err)
	}
	if !fresh.AwaitMarkers(0, "fresh") {
		return fail("delivery/barrier-marker-missing", "the fresh subscriber never received its markers")
	}
	published := map[string]map[string]bool{}
	for tp, pl := range final {
		published[tp] = map[string]bool{pl: true}
	}
	for i, o := range c.Busy {
		if o.Kind == "retain" {
			if published[o.Topic] == nil {
				published[o.Topic] = map[string]bool{}
			}
			published[o.Topic][fmt.Sprintf("v%d:%s", i+1, o.Topic)] = true
		}
	}
	end := map[string]string{}
	for _, pub := range fresh.Publishes(0) {
		if !pub.Message.Retain {
			continue
		}
		if _, dup := end[pub.Message.Topic]; dup {
			return fail("replay/duplicate", "the fresh subscriber received two retained messages for %q", pub.Message.Topic)
		}
		if !published[pub.Message.Topic][string(pub.Message.Payload)] {
			return fail("replay/unknown-message", "the broker retains %q for %q, which nobody published there", pub.Message.Payload, pub.Message.Topic)
		}
		end[pub.Message.Topic] = string(pub.Message.Payload)
	}
	for tp := range published {
		if _, ok := end[tp]; !ok {
			return fail("retained/lost", "retained messages were published to %q (no clear), yet the broker retains nothing for it in the end", tp)
		}
	}
	// every subscriber knows the final value of every matching topic
	for i, sp := range subs {
		got := map[string]map[string]bool{}
		for _, pub := range sp.Publishes(0) {
			if got[pub.Message.Topic] == nil {
				got[pub.Message.Topic] = map[string]bool{}
			}
			got[pub.Message.Topic][string(pub.Message.Payload)] = true
			if !published[pub.Message.Topic][string(pub.Message.Payload)] {
				return fail("delivery/unknown-message", "%s received %q on %q, which nobody published there", sp.Name, pub.Message.Payload, pub.Message.Topic)
			}
		}
		for tp, val := range end {
			matches := false
			for _, f := range filtersOf[i] {
				if reftopic.Match(f, tp) {
					matches = true
				}
			}
			if matches && !got[tp][val] {
				var seen []string
				for x := range got[tp] {
					seen = append(seen, x)
				}
				sort.Strings(seen)
				return fail("busy/subscriber-missed-retained-update", "%s subscribed to %v while retained publishes were in progress; the broker ends up retaining %q for %q, but the subscriber only ever received %v for that topic: the update reached it neither live nor in the replay", sp.Name, filtersOf[i], val, tp, seen)
			}
		}
	}
	return nil
}

// runOwn: once the handshake of a retained QoS 1/2 publish is complete the
// broker retains that message - also when the first attempt ran into the
// publisher's own full queue and only the resumed session finished it.
func runOwn(c *Case) *verdict {
	o := c.Own
	b := bk.New(func(m *broker.MemoryBackend, e *broker.Engine) {
		m.SessionQueueSize = o.Queue
		m.ClientInflightMessages = o.Window
	})
	defer b.Shutdown()
	fail := func(sig, format string, a ...interface{}) *verdict {
		ls := strings.Split(strings.TrimRight(b.Log.Dump(), "\n"), "\n")
		if len(ls) > 150 {
			ls = ls[len(ls)-150:]
		}
		return &verdict{sig, fmt.Sprintf(format, a...) + "\n--- event log tail ---\n" + strings.Join(ls, "\n")}
	}
	const tp = "a/b"
	seed, _ := b.Dial("seed")
	if _, err := seed.ConnectID("c11-seed", true); err != nil {
		return fail("harness/connect", "%v", err)
	}
	if o.Pre {
		if err := seed.Publish(tp, []byte("v1"), 1, true); err != nil {
			return fail("harness/publish", "%v", err)
		}
	}
	p, _ := b.Dial("own")
	if _, err := p.ConnectID("c11-own", false); err != nil {
		return fail("harness/connect", "%v", err)
	}
	if _, err := p.Subscribe([]packet.Subscription{{Topic: o.Filter, QOS: 1}}); err != nil {
		return fail("harness/subscribe", "%v", err)
	}
	if o.Pre {
		// the replay of v1 is received and acknowledged first (it would occupy a window slot)
		if p.WaitFor(0, func(g packet.Generic) bool { x, ok := g.(*packet.Publish); return ok && string(x.Message.Payload) == "v1" }, ev.Ceiling()) < 0 {
			return fail("replay/missing-retained-message", "the subscription to %s did not replay the retained v1", o.Filter)
		}
	}
	if !p.Ping() {
		return fail("harness/ping", "no PINGRESP")
	}
	p.AutoAck = false
	// fill the window, then the queue, with the client's own messages
	for i := 0; i < o.Window+o.Queue; i++ {
		tag := fmt.Sprintf("fill-%d", i)
		if err := p.Publish(tp, []byte(tag), 1, false); err != nil {
			return fail("harness/fill", "fill publish %d of %d: %v", i, o.Window+o.Queue, err)
		}
		if i < o.Window {
			// wait until it came back (it occupies a window slot from then on)
			if p.WaitFor(0, func(g packet.Generic) bool { x, ok := g.(*packet.Publish); return ok && string(x.Message.Payload) == tag }, ev.Ceiling()) < 0 {
				return fail("harness/fill", "own message %s did not come back", tag)
			}
		}
	}
	// the retained publish
	id := packet.ID(500)
	pub := &packet.Publish{ID: id, Message: packet.Message{Topic: tp, QOS: packet.QOS(o.QoS), Retain: true, Payload: []byte("v2")}}
	state := "publish" // what has to be sent next: publish | release | done
	for attempt := 0; attempt < 8 && state != "done"; attempt++ {
		if attempt > 0 {
			// resume the session; acknowledge and so drain the backlog
			p, _ = b.Dial(fmt.Sprintf("own-%d", attempt))
			if _, err := p.ConnectID("c11-own", false); err != nil {
				return fail("harness/connect", "resume: %v", err)
			}
			if !p.Ping() {
				continue
			}
			// the queue behind the window empties as the acknowledgements go out
			deadline := time.Now().Add(ev.Ceiling() / 4)
			for n := -1; time.Now().Before(deadline); {
				p.PumpWait(20 * time.Millisecond)
				if m := len(p.Inbox); m == n {
					break
				} else {
					n = m
				}
			}
		}
		from := len(p.Inbox)
		switch state {
		case "publish":
			pub.Dup = attempt > 0
			_ = p.Send(pub)
			if o.QoS == 1 {
				if p.WaitFor(from, func(g packet.Generic) bool { x, ok := g.(*packet.Puback); return ok && x.ID == id }, ev.Ceiling()) >= 0 {
					state = "done"
				}
				continue
			}
			if p.WaitFor(from, func(g packet.Generic) bool { x, ok := g.(*packet.Pubrec); return ok && x.ID == id }, ev.Ceiling()) < 0 {
				continue
			}
			state = "release"
			fallthrough
		case "release":
			_ = p.Send(&packet.Pubrel{ID: id})
			if p.WaitFor(from, func(g packet.Generic) bool { x, ok := g.(*packet.Pubcomp); return ok && x.ID == id }, ev.Ceiling()) >= 0 {
				state = "done"
			}
		}
		if state != "done" && !p.EOF {
			return fail("own/no-answer", "retained QoS %d publish: neither the acknowledgement nor the end of the connection (state %s)", o.QoS, state)
		}
	}
	if state != "done" {
		return fail("harness/own-loop", "the handshake of the retained publish could not be completed in 8 connections")
	}
	fresh, _ := b.Dial("fresh")
	if _, err := fresh.ConnectID("c11-fresh", true); err != nil {
		return fail("harness/connect", "%v", err)
	}
	if _, err := fresh.Subscribe([]packet.Subscription{{Topic: "#", QOS: 1}}); err != nil {
		return fail("harness/subscribe", "%v", err)
	}
	if err := seed.Markers("own"); err != nil {
		return fail("harness/marker-publish", "%v", err)
	}
	if !fresh.AwaitMarkers(0, "own") {
		return fail("delivery/barrier-marker-missing", "the fresh subscriber never received its markers")
	}
	var got []string
	for _, x := range fresh.Publishes(0) {
		if x.Message.Retain && x.Message.Topic == tp {
			got = append(got, string(x.Message.Payload))
		}
	}
	if len(got) != 1 || got[0] != "v2" {
		return fail("own/retained-not-updated", "the QoS %d handshake of the retained publish \"v2\" on %s was completed (first attempt refused with the publisher's own queue full, finished after the session was resumed), yet a new subscriber is replayed %v", o.QoS, tp, got)
	}
	return nil
}

// runResend: a retained message replayed at QoS >= 1 to a persistent session
// that loses its connection before acknowledging is re-sent after the resume -
// it still is the replay of a retained message and must carry the flag.
func runResend(pubQoS, subQoS int) *verdict {
	b := bk.New(nil)
	defer b.Shutdown()
	fail := func(sig, format string, a ...interface{}) *verdict {
		return &verdict{sig, fmt.Sprintf(format, a...) + "\n--- event log ---\n" + b.Log.Dump()}
	}
	seed, _ := b.Dial("seed")
	if _, err := seed.ConnectID("c11-seed", true); err != nil {
		return fail("harness/connect", "%v", err)
	}
	if err := seed.Publish("a/b", []byte("kept"), packet.QOS(pubQoS), true); err != nil {
		return fail("harness/publish", "%v", err)
	}
	s, sconn := b.Dial("sub")
	s.AutoAck = false
	if _, err := s.ConnectID("c11-resend", false); err != nil {
		return fail("harness/connect", "%v", err)
	}
	if _, err := s.Subscribe([]packet.Subscription{{Topic: "a/#", QOS: packet.QOS(subQoS)}}); err != nil {
		return fail("harness/subscribe", "%v", err)
	}
	isKept := func(g packet.Generic) bool { p, ok := g.(*packet.Publish); return ok && string(p.Message.Payload) == "kept" }
	i := s.WaitFor(0, isKept, ev.Ceiling())
	if i < 0 {
		return fail("replay/missing-retained-message", "the subscription did not replay the retained message")
	}
	first := s.Inbox[i].(*packet.Publish)
	if !first.Message.Retain {
		return fail("flag/retain-flag-wrong:replay", "the replay of the retained message is not flagged as retained")
	}
	s.Drop()
	if !b.WaitClosed(sconn) {
		return fail("liveness/client-not-terminated", "subscriber's broker side did not terminate")
	}
	s2, _ := b.Dial("sub2")
	ack, err := s2.ConnectID("c11-resend", false)
	if err != nil || !ack.SessionPresent {
		return fail("harness/connect", "resume: %v", err)
	}
	j := s2.WaitFor(0, isKept, ev.Ceiling())
	if j < 0 {
		return fail("replay/missing-retained-message", "the unacknowledged replay (QoS %d) was not re-sent after the resume", first.Message.QOS)
	}
	again := s2.Inbox[j].(*packet.Publish)
	if !again.Dup || !again.Message.Retain || again.Message.QOS != first.Message.QOS {
		return fail("flag/retain-flag-wrong:resend", "the replay of the retained message (QoS %d, retain=true) was re-sent after the resume with dup=%v retain=%v qos=%d; it must still be flagged as retained", first.Message.QOS, again.Dup, again.Message.Retain, again.Message.QOS)
	}
	return nil
}

func genBusy(rt *rapid.T) *Case {
	c := &Case{Subscribers: rapid.IntRange(1, 3).Draw(rt, "subscribers")}
	for _, tp := range topics {
		if rapid.Bool().Draw(rt, "pre") {
			c.Pre = append(c.Pre, tp)
		}
	}
	fs := []string{"#", "a/#", "+", "a/+", "a", "a/b", "a/b/c", "b", "a/", "+/b", "a/+/c"}
	n := rapid.IntRange(2, 8).Draw(rt, "n")
	for i := 0; i < n; i++ {
		if rapid.Bool().Draw(rt, "isretain") {
			c.Busy = append(c.Busy, BOp{Kind: "retain", Topic: rapid.SampledFrom(topics).Draw(rt, "topic"), QoS: rapid.IntRange(0, 1).Draw(rt, "pq")})
		} else {
			c.Busy = append(c.Busy, BOp{Kind: "sub", Who: rapid.IntRange(0, c.Subscribers-1).Draw(rt, "who"), Filter: rapid.SampledFrom(fs).Draw(rt, "filter"), QoS: rapid.IntRange(0, 2).Draw(rt, "sq")})
		}
	}
	return c
}

func busyNonTrivial(c *Case) bool {
	r, s := false, false
	for _, o := range c.Busy {
		r = r || o.Kind == "retain"
		s = s || o.Kind == "sub"
	}
	return r && s
}

func fmtOp(o Op) string {
	s := fmt.Sprintf("%s c=%d", o.Kind, o.Client)
	if o.Msg != nil {
		s += fmt.Sprintf(" %+v", *o.Msg)
	}
	if o.Will != nil {
		s += fmt.Sprintf(" will=%+v", *o.Will)
	}
	if len(o.Subs) > 0 {
		s += fmt.Sprintf(" %v", o.Subs)
	}
	return s
}

func fmtRet(r map[string]retained) string {
	var l []string
	for t, x := range r {
		l = append(l, fmt.Sprintf("%s=%q@%d", t, x.payload, x.qos))
	}
	sort.Strings(l)
	return strings.Join(l, " ")
}

func genMsg(rt *rapid.T, label string) *Msg {
	m := &Msg{Topic: rapid.SampledFrom(topics).Draw(rt, label+"_topic"), QoS: rapid.IntRange(0, 2).Draw(rt, label+"_qos")}
	switch rapid.IntRange(0, 5).Draw(rt, label+"_kind") {
	case 0, 1, 2:
		m.Retain = true
	case 3:
		m.Retain, m.Empty = true, true
	case 4:
		// live only
	case 5:
		m.Empty = true // non-retained empty payload: must not clear anything
	}
	return m
}

func genCase(rt *rapid.T) *Case {
	c := &Case{Clients: rapid.IntRange(1, 3).Draw(rt, "clients")}
	for i := 0; i < c.Clients; i++ {
		o := Op{Kind: "connect", Client: i, Clean: rapid.IntRange(0, 2).Draw(rt, "clean") != 0}
		if rapid.IntRange(0, 2).Draw(rt, "haswill") == 0 {
			o.Will = genMsg(rt, "will")
		}
		c.Ops = append(c.Ops, o)
	}
	n := rapid.IntRange(3, 25).Draw(rt, "steps")
	for i := 0; i < n; i++ {
		k := rapid.SampledFrom([]string{"publish", "publish", "publish", "subscribe", "subscribe", "subscribe", "unsubscribe", "connect", "drop", "disconnect"}).Draw(rt, "kind")
		o := Op{Kind: k, Client: rapid.IntRange(0, c.Clients-1).Draw(rt, "client")}
		switch k {
		case "connect":
			o.Clean = rapid.Bool().Draw(rt, "clean")
			if rapid.Bool().Draw(rt, "haswill") {
				o.Will = genMsg(rt, "will")
			}
		case "publish":
			o.Msg = genMsg(rt, "msg")
		case "subscribe":
			for j := rapid.IntRange(1, 3).Draw(rt, "nsubs"); j > 0; j-- {
				o.Subs = append(o.Subs, Sub{rapid.SampledFrom(filters).Draw(rt, "filter"), rapid.IntRange(0, 2).Draw(rt, "sq")})
			}
			if rapid.IntRange(0, 4).Draw(rt, "repeat") == 0 {
				o.Subs = append(o.Subs, o.Subs[0])
			}
		case "unsubscribe":
			for j := rapid.IntRange(1, 2).Draw(rt, "nt"); j > 0; j-- {
				o.Topics = append(o.Topics, rapid.SampledFrom(filters).Draw(rt, "ufilter"))
			}
		}
		c.Ops = append(c.Ops, o)
	}
	return c
}

func TestC11(t *testing.T) {
	run := ev.Start("C11", "exploration")
	run.Rule(fmt.Sprintf("rapid-generated histories over 1-3 raw peers and 5 topics: publishes {retained, retained-empty (clear), live, live-empty} at QoS 0-2, connects with retained/non-retained wills, drops (will fires) and DISCONNECTs, persistent subscribers going offline, SUBSCRIBEs with 1-3 filters (and repeats) drawn from the bounded-exhaustive filter set (%d filters: levels {a,b,empty,+} depth<=3, optional trailing #); plus one deterministic sweep subscribing with every filter of the set against a fixed retained set. After every step a marker barrier, then every inbox is compared with the model (topic -> last non-empty retained message; reference matcher; QoS of any matching subscription). non-trivial = a wildcard filter with at least one retained topic that does not match, or a retained will; distinct by case JSON Busy backend: while the memory backend is held inside an unrelated acknowledgement (it acknowledges under its global mutex), 2-8 retained publishes (each on its own connection) and SUBSCRIBEs of 1-3 subscribers are sent so that they meet inside the backend, then all are let go: every subscriber must have received - live or as replay - the value that each topic matching its filters retains in the end (read back by a fresh subscriber). Own queue full: a retained QoS 1/2 publish by a persistent client into its own full subscription queue (queue 1-3, window 1-2, enumerated) is refused once, completed after resume and drain, and must then be the retained message.", len(filters)))
	run.Assume("in-memory transport; peers acknowledge everything; fewer than 100 replays per SUBSCRIBE (documented queue size)")
	defer run.Finish(t)
	shard, _ := ev.Shard()

	if shard == 0 {
		// deterministic sweep: fixed retained set, every filter
		c := &Case{Clients: 2, Ops: []Op{{Kind: "connect", Client: 0, Clean: true}, {Kind: "connect", Client: 1, Clean: true}}}
		for i, tp := range topics {
			if tp == "b" {
				continue // leave one topic without a retained message
			}
			c.Ops = append(c.Ops, Op{Kind: "publish", Client: 0, Msg: &Msg{Topic: tp, QoS: i % 3, Retain: true}})
		}
		for i, f := range filters {
			c.Ops = append(c.Ops, Op{Kind: "subscribe", Client: 1, Subs: []Sub{{f, i % 3}}})
			if i%10 == 9 {
				c.Ops = append(c.Ops, Op{Kind: "disconnect", Client: 1}, Op{Kind: "connect", Client: 1, Clean: true})
			}
		}
		st := &stats{}
		run.Eval(1)
		run.NonTrivialJSON(c)
		if v := runCase(c, st); v != nil {
			run.Violation(v.sig, v.msg, c)
		}
		run.Exhaustive(fmt.Sprintf("every filter of the %d-filter set subscribed once against retained messages on a, a/b, a/b/c, a/", len(filters)))
	}

	// bounded-exhaustive retained-set histories: every sequence of up to 3
	// (thorough: 4) operations {retain t, clear t} over the 5 topics, then one
	// SUBSCRIBE to '#' whose replay must equal the model (catches retained
	// entries that vanish or survive through tree restructuring)
	{
		type rop struct {
			t     string
			clear bool
		}
		var alphabet []rop
		for _, tp := range topics {
			alphabet = append(alphabet, rop{tp, false}, rop{tp, true})
		}
		maxLen := 3
		if ev.Thorough() {
			maxLen = 4
		}
		_, shards := ev.Shard()
		idx, count := 0, 0
		var rec func(seq []rop) bool
		rec = func(seq []rop) bool {
			if len(seq) > 0 {
				idx++
				if idx%shards == shard {
					c := &Case{Clients: 2, Ops: []Op{{Kind: "connect", Client: 0, Clean: true}, {Kind: "connect", Client: 1, Clean: true}}}
					for i, o := range seq {
						c.Ops = append(c.Ops, Op{Kind: "publish", Client: 0, Msg: &Msg{Topic: o.t, QoS: i % 3, Retain: true, Empty: o.clear}})
					}
					c.Ops = append(c.Ops, Op{Kind: "subscribe", Client: 1, Subs: []Sub{{"#", 2}}})
					st := &stats{}
					run.Eval(1)
					count++
					v := runCase(c, st)
					if st.nontrivial || len(seq) >= 2 {
						run.NonTrivialJSON(c)
					}
					if v != nil {
						run.Violation("exhaustive:"+v.sig, v.msg, c)
						return false
					}
				}
			}
			if len(seq) == maxLen {
				return true
			}
			for _, o := range alphabet {
				if !rec(append(append([]rop{}, seq...), o)) {
					return false
				}
			}
			return true
		}
		if rec(nil) {
			run.Exhaustive(fmt.Sprintf("all %d sequences of 1..%d operations {retain t, clear t} over topics %v (this shard: %d), each followed by SUBSCRIBE '#'", idx, maxLen, topics, count))
		}
		run.ClassN("exhaustive-retained-histories", count)
	}

	subs := 0
	run.Rapid(t, "histories", ev.Pick(500, 50000), func(rt *rapid.T) {
		c := genCase(rt)
		st := &stats{}
		run.Eval(1)
		v := runCase(c, st)
		subs += st.subscribes
		if st.nontrivial {
			run.NonTrivialJSON(c)
		}
		run.Class(fmt.Sprintf("clients=%d", c.Clients))
		if v != nil {
			run.Candidate(v.sig, v.msg, c)
			rt.Fatalf("%s: %s", v.sig, v.msg)
		}
	})
	run.Set("subscribe_steps_checked", subs)

	// retained publishes and subscriptions meeting inside a busy backend
	fixedBusy := []*Case{
		{Pre: []string{"a"}, Subscribers: 1, Busy: []BOp{{Kind: "retain", Topic: "a", QoS: 1}, {Kind: "sub", Who: 0, Filter: "a", QoS: 1}}},
		{Pre: []string{"a/b"}, Subscribers: 2, Busy: []BOp{{Kind: "sub", Who: 0, Filter: "a/#", QoS: 0}, {Kind: "retain", Topic: "a/b", QoS: 0}, {Kind: "sub", Who: 1, Filter: "+/b", QoS: 2}, {Kind: "retain", Topic: "a/b", QoS: 1}}},
	}
	if shard == 0 {
		for _, c := range fixedBusy {
			run.Eval(1)
			run.NonTrivialJSON(c)
			if v := runBusy(c); v != nil {
				run.Violation(v.sig, v.msg, c)
			}
		}
	}
	// unacknowledged replay re-sent after a resume
	if shard == 0 {
		for _, pq := range []int{1, 2} {
			for _, sq := range []int{1, 2} {
				run.Eval(1)
				if v := runResend(pq, sq); v != nil {
					run.Violation(v.sig, v.msg, map[string]int{"resend_pub_qos": pq, "resend_sub_qos": sq})
				}
			}
		}
		run.ClassN("replay-resent-after-resume", 4)
		run.Exhaustive("retained message (QoS 1-2) replayed to a persistent subscription (QoS 1-2), connection lost before the acknowledgement, resume: the re-sent PUBLISH carries DUP, the retain flag and the same QoS")
	}
	// retained publish refused once because of the publisher's own full queue
	{
		_, shards := ev.Shard()
		idx, count := 0, 0
		for _, q := range []int{1, 2, 3} {
			for _, w := range []int{1, 2} {
				for _, qos := range []int{1, 2} {
					for _, pre := range []bool{false, true} {
						for _, f := range []string{"a/b", "a/#", "+/b"} {
							idx++
							if idx%shards != shard {
								continue
							}
							c := &Case{Own: &OwnCase{Queue: q, Window: w, QoS: qos, Pre: pre, Filter: f}}
							run.Eval(1)
							run.NonTrivialJSON(c)
							count++
							if v := runOwn(c); v != nil {
								run.Violation(v.sig, v.msg, c)
							}
						}
					}
				}
			}
		}
		run.ClassN("own-queue-full", count)
		run.Exhaustive("retained QoS 1/2 publish into the publisher's own full queue, completed after a resume: queue 1-3 x window 1-2 x QoS 1-2 x prior retained message yes/no x 3 subscription filters")
	}
	run.Rapid(t, "busy", ev.Pick(150, 6000), func(rt *rapid.T) {
		c := genBusy(rt)
		run.Eval(1)
		run.Class("busy-backend")
		if busyNonTrivial(c) {
			run.NonTrivialJSON(c)
		}
		if v := runBusy(c); v != nil {
			run.Candidate(v.sig, v.msg, c)
			rt.Fatalf("%s: %s", v.sig, v.msg)
		}
	})
}

func TestReplay(t *testing.T) {
	var c Case
	ok, err := ev.ReplayCase(&c)
	if !ok {
		t.Skip("no VERIF_REPLAY")
	}
	if err != nil {
		t.Fatal(err)
	}
	for i := 0; i < 5; i++ {
		if c.Own != nil {
			if v := runOwn(&c); v != nil {
				t.Fatalf("VIOLATION reproduced: %s: %s", v.sig, v.msg)
			}
			continue
		}
		if len(c.Busy) > 0 {
			if v := runBusy(&c); v != nil {
				t.Fatalf("VIOLATION reproduced: %s: %s", v.sig, v.msg)
			}
			continue
		}
		if v := runCase(&c, &stats{}); v != nil {
			t.Fatalf("VIOLATION reproduced: %s: %s", v.sig, v.msg)
		}
	}
	t.Log("case passes")
}
