// C11 — retained set = last non-empty retained publish per topic, replayed on subscribe.
package c11

import (
	"bytes"
	"fmt"
	"sort"
	"strings"
	"testing"

	"github.com/256dpi/gomqtt/packet"
	"pgregory.net/rapid"

	"verif/internal/bk"
	"verif/internal/ev"
	"verif/internal/memconn"
	"verif/internal/peer"
	"verif/internal/reftopic"
)

// Sub is one (filter, qos) pair.
type Sub struct {
	Filter string `json:"f"`
	QoS    int    `json:"q"`
}

// Op kinds: connect drop disconnect publish subscribe unsubscribe.
type Op struct {
	Kind   string   `json:"k"`
	Client int      `json:"c"`
	Clean  bool     `json:"clean,omitempty"`
	Will   *Msg     `json:"will,omitempty"`
	Msg    *Msg     `json:"msg,omitempty"`
	Subs   []Sub    `json:"subs,omitempty"`
	Topics []string `json:"topics,omitempty"`
}

// Msg is a publish or will description.
type Msg struct {
	Topic  string `json:"topic"`
	QoS    int    `json:"qos"`
	Retain bool   `json:"retain,omitempty"`
	Empty  bool   `json:"empty,omitempty"`
}

// Case is a history.
type Case struct {
	Clients int  `json:"clients"`
	Ops     []Op `json:"ops"`
}

type verdict struct{ sig, msg string }

var topics = []string{"a", "a/b", "a/b/c", "b", "a/"}

func allFilters() []string {
	var out, pre []string
	var rec func(prefix []string, depth int, dst *[]string)
	rec = func(prefix []string, depth int, dst *[]string) {
		if len(prefix) > 0 {
			*dst = append(*dst, strings.Join(prefix, "/"))
		}
		if depth == 0 {
			return
		}
		for _, a := range []string{"a", "b", "", "+"} {
			rec(append(append([]string{}, prefix...), a), depth-1, dst)
		}
	}
	var fs []string
	rec(nil, 3, &fs)
	for _, f := range fs {
		if f != "" {
			out = append(out, f)
		}
	}
	rec(nil, 2, &pre)
	out = append(out, "#")
	for _, p := range pre {
		out = append(out, p+"/#")
	}
	return out
}

var filters = allFilters()

type retained struct {
	payload []byte
	qos     int
}

type expect struct {
	topic   string
	payload []byte
	retain  bool
	qosSet  map[int]bool
}

type cstate struct {
	online, clean, stored bool
	subs                  map[string]int
	will                  *Msg
	willPayload           []byte
	pending               []expect
	p                     *peer.Peer
	bconn                 *memconn.Conn
	from                  int
}

func qosSet(subs map[string]int, topic string, q int) map[int]bool {
	qs := map[int]bool{}
	for f, sq := range subs {
		if reftopic.Match(f, topic) {
			m := sq
			if q < m {
				m = q
			}
			qs[m] = true
		}
	}
	return qs
}

func fmtPub(p *packet.Publish) string {
	return fmt.Sprintf("{topic=%q qos=%d retain=%v payload=%q}", p.Message.Topic, p.Message.QOS, p.Message.Retain, p.Message.Payload)
}

func fmtExp(e expect) string {
	var qs []int
	for q := range e.qosSet {
		qs = append(qs, q)
	}
	sort.Ints(qs)
	return fmt.Sprintf("{topic=%q retain=%v payload=%q qos in %v}", e.topic, e.retain, e.payload, qs)
}

func checkInbox(name string, c *cstate, want []expect) *verdict {
	got := c.p.Publishes(c.from)
	c.from = len(c.p.Inbox)
	used := make([]bool, len(want))
	for _, g := range got {
		found := -1
		for i, w := range want {
			if !used[i] && w.topic == g.Message.Topic && bytes.Equal(w.payload, g.Message.Payload) && w.retain == g.Message.Retain {
				found = i
				break
			}
		}
		if found < 0 {
			kind := "live"
			if g.Message.Retain {
				kind = "retained"
			}
			for _, w := range want {
				if w.topic == g.Message.Topic && bytes.Equal(w.payload, g.Message.Payload) && w.retain != g.Message.Retain {
					return &verdict{"flag/retain-flag-wrong:" + kind, fmt.Sprintf("%s received %s, expected the same message with retain=%v", name, fmtPub(g), w.retain)}
				}
			}
			return &verdict{"replay/unexpected-" + kind + "-message", fmt.Sprintf("%s received %s which the model does not expect (expected %v)", name, fmtPub(g), fmtExps(want))}
		}
		used[found] = true
		if !want[found].qosSet[int(g.Message.QOS)] {
			return &verdict{"replay/qos-cap", fmt.Sprintf("%s received %s, expected %s", name, fmtPub(g), fmtExp(want[found]))}
		}
	}
	for i, w := range want {
		if !used[i] {
			kind := "live"
			if w.retain {
				kind = "retained"
			}
			return &verdict{"replay/missing-" + kind + "-message", fmt.Sprintf("%s did not receive %s (subscriptions %v); received %d messages", name, fmtExp(w), c.subs, len(got))}
		}
	}
	return nil
}

func fmtExps(l []expect) string {
	var s []string
	for _, e := range l {
		s = append(s, fmtExp(e))
	}
	return "[" + strings.Join(s, " ") + "]"
}

type stats struct {
	skipped    int
	nontrivial bool
	subscribes int
}

func runCase(c *Case, st *stats) *verdict {
	b := bk.New(nil)
	defer b.Shutdown()
	cs := make([]*cstate, c.Clients)
	for i := range cs {
		cs[i] = &cstate{subs: map[string]int{}}
	}
	ret := map[string]retained{}
	name := func(i int) string { return fmt.Sprintf("r%d", i) }
	fail := func(sig, msg string) *verdict {
		ls := strings.Split(strings.TrimRight(b.Log.Dump(), "\n"), "\n")
		if len(ls) > 40 {
			ls = ls[len(ls)-40:]
		}
		return &verdict{sig, msg + "\n--- event log tail ---\n" + strings.Join(ls, "\n")}
	}
	// a helper peer that only publishes barrier markers when nobody else can
	barrierFrom := func(pubIdx int, tag string) *verdict {
		if err := cs[pubIdx].p.Markers(tag); err != nil {
			return fail("harness/marker-publish", err.Error())
		}
		for i, s := range cs {
			if s.online && !s.p.AwaitMarkers(s.from, tag) {
				return fail("delivery/barrier-marker-missing", fmt.Sprintf("%s never received markers %q (eof=%v)", name(i), tag, s.p.EOF))
			}
		}
		return nil
	}
	// apply a publish (live or will) to the model and return per-client expectations
	applyPublish := func(m *Msg, pl []byte) map[int][]expect {
		out := map[int][]expect{}
		if m.Retain {
			if len(pl) > 0 {
				ret[m.Topic] = retained{pl, m.QoS}
			} else {
				delete(ret, m.Topic)
			}
		}
		for i, x := range cs {
			qs := qosSet(x.subs, m.Topic, m.QoS)
			if len(qs) == 0 {
				continue
			}
			e := expect{m.Topic, pl, false, qs}
			if x.online {
				out[i] = append(out[i], e)
			} else if x.stored && m.QoS > 0 {
				x.pending = append(x.pending, e)
			}
		}
		return out
	}
	checkAll := func(step int, o Op, exp map[int][]expect) *verdict {
		for i, x := range cs {
			if !x.online {
				continue
			}
			if v := checkInbox(name(i), x, exp[i]); v != nil {
				return fail(v.sig, fmt.Sprintf("after step %d (%s): %s; retained model: %v", step, fmtOp(o), v.msg, fmtRet(ret)))
			}
		}
		return nil
	}

	for step, o := range c.Ops {
		if o.Client >= c.Clients {
			st.skipped++
			continue
		}
		s := cs[o.Client]
		switch o.Kind {
		case "connect":
			if s.online {
				st.skipped++
				continue
			}
			s.p, s.bconn = b.Dial(name(o.Client))
			cp := packet.NewConnect()
			cp.ClientID, cp.CleanSession = name(o.Client), o.Clean
			s.will = o.Will
			if o.Will != nil {
				s.willPayload = []byte(fmt.Sprintf("W%d", step))
				if o.Will.Empty {
					s.willPayload = nil
				}
				cp.Will = &packet.Message{Topic: o.Will.Topic, Payload: s.willPayload, QOS: packet.QOS(o.Will.QoS), Retain: o.Will.Retain}
			}
			if _, err := s.p.Connect(cp); err != nil {
				return fail("harness/connect", err.Error())
			}
			s.online, s.clean, s.from = true, o.Clean, len(s.p.Inbox)
			if o.Clean || !s.stored {
				s.subs, s.pending = map[string]int{}, nil
			}
			s.stored = !o.Clean
			if _, ok := s.subs[peer.MarkerTopic]; !ok {
				if _, err := s.p.Subscribe([]packet.Subscription{{Topic: peer.MarkerTopic, QOS: 1}}); err != nil {
					return fail("harness/marker-subscribe", err.Error())
				}
				s.subs[peer.MarkerTopic] = 1
			}
			if v := barrierFrom(o.Client, fmt.Sprintf("s%d", step)); v != nil {
				return v
			}
			exp := map[int][]expect{o.Client: s.pending}
			s.pending = nil
			if v := checkAll(step, o, exp); v != nil {
				return v
			}
		case "drop", "disconnect":
			if !s.online {
				st.skipped++
				continue
			}
			if o.Kind == "drop" {
				s.p.Drop()
			} else {
				s.p.Disconnect()
			}
			if !b.WaitClosed(s.bconn) {
				return fail("liveness/client-not-terminated", name(o.Client))
			}
			s.online = false
			if s.clean {
				s.subs = map[string]int{}
			}
			exp := map[int][]expect{}
			if o.Kind == "drop" && s.will != nil {
				if s.will.Retain {
					st.nontrivial = true
				}
				exp = applyPublish(s.will, s.willPayload)
			}
			// somebody online must carry the barrier
			carrier := -1
			for i, x := range cs {
				if x.online {
					carrier = i
					break
				}
			}
			if carrier >= 0 {
				if v := barrierFrom(carrier, fmt.Sprintf("d%d", step)); v != nil {
					return v
				}
				if v := checkAll(step, o, exp); v != nil {
					return v
				}
			}
		case "publish":
			if !s.online {
				st.skipped++
				continue
			}
			pl := []byte(fmt.Sprintf("P%d", step))
			if o.Msg.Empty {
				pl = nil
			}
			if err := s.p.Publish(o.Msg.Topic, pl, packet.QOS(o.Msg.QoS), o.Msg.Retain); err != nil {
				return fail("publish/handshake-incomplete", err.Error())
			}
			exp := applyPublish(o.Msg, pl)
			if v := barrierFrom(o.Client, fmt.Sprintf("p%d", step)); v != nil {
				return v
			}
			if v := checkAll(step, o, exp); v != nil {
				return v
			}
		case "subscribe":
			if !s.online || len(o.Subs) == 0 {
				st.skipped++
				continue
			}
			st.subscribes++
			var subs []packet.Subscription
			for _, x := range o.Subs {
				subs = append(subs, packet.Subscription{Topic: x.Filter, QOS: packet.QOS(x.QoS)})
				s.subs[x.Filter] = x.QoS
			}
			if _, err := s.p.Subscribe(subs); err != nil {
				return fail("subscribe/no-suback", err.Error())
			}
			var want []expect
			for _, x := range o.Subs {
				nomatch := false
				for _, tp := range topics {
					r, ok := ret[tp]
					if !ok {
						continue
					}
					if reftopic.Match(x.Filter, tp) {
						want = append(want, expect{tp, r.payload, true, qosSet(s.subs, tp, r.qos)})
					} else {
						nomatch = true
					}
				}
				if nomatch && strings.ContainsAny(x.Filter, "+#") {
					st.nontrivial = true
				}
			}
			if v := barrierFrom(o.Client, fmt.Sprintf("u%d", step)); v != nil {
				return v
			}
			if v := checkAll(step, o, map[int][]expect{o.Client: want}); v != nil {
				return v
			}
		case "unsubscribe":
			if !s.online || len(o.Topics) == 0 {
				st.skipped++
				continue
			}
			if err := s.p.Unsubscribe(o.Topics); err != nil {
				return fail("unsubscribe/no-unsuback", err.Error())
			}
			for _, f := range o.Topics {
				delete(s.subs, f)
			}
		}
	}
	return nil
}

func fmtOp(o Op) string {
	s := fmt.Sprintf("%s c=%d", o.Kind, o.Client)
	if o.Msg != nil {
		s += fmt.Sprintf(" %+v", *o.Msg)
	}
	if o.Will != nil {
		s += fmt.Sprintf(" will=%+v", *o.Will)
	}
	if len(o.Subs) > 0 {
		s += fmt.Sprintf(" %v", o.Subs)
	}
	return s
}

func fmtRet(r map[string]retained) string {
	var l []string
	for t, x := range r {
		l = append(l, fmt.Sprintf("%s=%q@%d", t, x.payload, x.qos))
	}
	sort.Strings(l)
	return strings.Join(l, " ")
}

func genMsg(rt *rapid.T, label string) *Msg {
	m := &Msg{Topic: rapid.SampledFrom(topics).Draw(rt, label+"_topic"), QoS: rapid.IntRange(0, 2).Draw(rt, label+"_qos")}
	switch rapid.IntRange(0, 5).Draw(rt, label+"_kind") {
	case 0, 1, 2:
		m.Retain = true
	case 3:
		m.Retain, m.Empty = true, true
	case 4:
		// live only
	case 5:
		m.Empty = true // non-retained empty payload: must not clear anything
	}
	return m
}

func genCase(rt *rapid.T) *Case {
	c := &Case{Clients: rapid.IntRange(1, 3).Draw(rt, "clients")}
	for i := 0; i < c.Clients; i++ {
		o := Op{Kind: "connect", Client: i, Clean: rapid.IntRange(0, 2).Draw(rt, "clean") != 0}
		if rapid.IntRange(0, 2).Draw(rt, "haswill") == 0 {
			o.Will = genMsg(rt, "will")
		}
		c.Ops = append(c.Ops, o)
	}
	n := rapid.IntRange(3, 25).Draw(rt, "steps")
	for i := 0; i < n; i++ {
		k := rapid.SampledFrom([]string{"publish", "publish", "publish", "subscribe", "subscribe", "subscribe", "unsubscribe", "connect", "drop", "disconnect"}).Draw(rt, "kind")
		o := Op{Kind: k, Client: rapid.IntRange(0, c.Clients-1).Draw(rt, "client")}
		switch k {
		case "connect":
			o.Clean = rapid.Bool().Draw(rt, "clean")
			if rapid.Bool().Draw(rt, "haswill") {
				o.Will = genMsg(rt, "will")
			}
		case "publish":
			o.Msg = genMsg(rt, "msg")
		case "subscribe":
			for j := rapid.IntRange(1, 3).Draw(rt, "nsubs"); j > 0; j-- {
				o.Subs = append(o.Subs, Sub{rapid.SampledFrom(filters).Draw(rt, "filter"), rapid.IntRange(0, 2).Draw(rt, "sq")})
			}
			if rapid.IntRange(0, 4).Draw(rt, "repeat") == 0 {
				o.Subs = append(o.Subs, o.Subs[0])
			}
		case "unsubscribe":
			for j := rapid.IntRange(1, 2).Draw(rt, "nt"); j > 0; j-- {
				o.Topics = append(o.Topics, rapid.SampledFrom(filters).Draw(rt, "ufilter"))
			}
		}
		c.Ops = append(c.Ops, o)
	}
	return c
}

func TestC11(t *testing.T) {
	run := ev.Start("C11", "exploration")
	run.Rule(fmt.Sprintf("rapid-generated histories over 1-3 raw peers and 5 topics: publishes {retained, retained-empty (clear), live, live-empty} at QoS 0-2, connects with retained/non-retained wills, drops (will fires) and DISCONNECTs, persistent subscribers going offline, SUBSCRIBEs with 1-3 filters (and repeats) drawn from the bounded-exhaustive filter set (%d filters: levels {a,b,empty,+} depth<=3, optional trailing #); plus one deterministic sweep subscribing with every filter of the set against a fixed retained set. After every step a marker barrier, then every inbox is compared with the model (topic -> last non-empty retained message; reference matcher; QoS of any matching subscription). non-trivial = a wildcard filter with at least one retained topic that does not match, or a retained will; distinct by case JSON", len(filters)))
	run.Assume("in-memory transport; peers acknowledge everything; fewer than 100 replays per SUBSCRIBE (documented queue size)")
	defer run.Finish(t)
	shard, _ := ev.Shard()

	if shard == 0 {
		// deterministic sweep: fixed retained set, every filter
		c := &Case{Clients: 2, Ops: []Op{{Kind: "connect", Client: 0, Clean: true}, {Kind: "connect", Client: 1, Clean: true}}}
		for i, tp := range topics {
			if tp == "b" {
				continue // leave one topic without a retained message
			}
			c.Ops = append(c.Ops, Op{Kind: "publish", Client: 0, Msg: &Msg{Topic: tp, QoS: i % 3, Retain: true}})
		}
		for i, f := range filters {
			c.Ops = append(c.Ops, Op{Kind: "subscribe", Client: 1, Subs: []Sub{{f, i % 3}}})
			if i%10 == 9 {
				c.Ops = append(c.Ops, Op{Kind: "disconnect", Client: 1}, Op{Kind: "connect", Client: 1, Clean: true})
			}
		}
		st := &stats{}
		run.Eval(1)
		run.NonTrivialJSON(c)
		if v := runCase(c, st); v != nil {
			run.Violation(v.sig, v.msg, c)
		}
		run.Exhaustive(fmt.Sprintf("every filter of the %d-filter set subscribed once against retained messages on a, a/b, a/b/c, a/", len(filters)))
	}

	// bounded-exhaustive retained-set histories: every sequence of up to 3
	// (thorough: 4) operations {retain t, clear t} over the 5 topics, then one
	// SUBSCRIBE to '#' whose replay must equal the model (catches retained
	// entries that vanish or survive through tree restructuring)
	{
		type rop struct {
			t     string
			clear bool
		}
		var alphabet []rop
		for _, tp := range topics {
			alphabet = append(alphabet, rop{tp, false}, rop{tp, true})
		}
		maxLen := 3
		if ev.Thorough() {
			maxLen = 4
		}
		_, shards := ev.Shard()
		idx, count := 0, 0
		var rec func(seq []rop) bool
		rec = func(seq []rop) bool {
			if len(seq) > 0 {
				idx++
				if idx%shards == shard {
					c := &Case{Clients: 2, Ops: []Op{{Kind: "connect", Client: 0, Clean: true}, {Kind: "connect", Client: 1, Clean: true}}}
					for i, o := range seq {
						c.Ops = append(c.Ops, Op{Kind: "publish", Client: 0, Msg: &Msg{Topic: o.t, QoS: i % 3, Retain: true, Empty: o.clear}})
					}
					c.Ops = append(c.Ops, Op{Kind: "subscribe", Client: 1, Subs: []Sub{{"#", 2}}})
					st := &stats{}
					run.Eval(1)
					count++
					v := runCase(c, st)
					if st.nontrivial || len(seq) >= 2 {
						run.NonTrivialJSON(c)
					}
					if v != nil {
						run.Violation("exhaustive:"+v.sig, v.msg, c)
						return false
					}
				}
			}
			if len(seq) == maxLen {
				return true
			}
			for _, o := range alphabet {
				if !rec(append(append([]rop{}, seq...), o)) {
					return false
				}
			}
			return true
		}
		if rec(nil) {
			run.Exhaustive(fmt.Sprintf("all %d sequences of 1..%d operations {retain t, clear t} over topics %v (this shard: %d), each followed by SUBSCRIBE '#'", idx, maxLen, topics, count))
		}
		run.ClassN("exhaustive-retained-histories", count)
	}

	subs := 0
	run.Rapid(t, "histories", ev.Pick(500, 50000), func(rt *rapid.T) {
		c := genCase(rt)
		st := &stats{}
		run.Eval(1)
		v := runCase(c, st)
		subs += st.subscribes
		if st.nontrivial {
			run.NonTrivialJSON(c)
		}
		run.Class(fmt.Sprintf("clients=%d", c.Clients))
		if v != nil {
			run.Candidate(v.sig, v.msg, c)
			rt.Fatalf("%s: %s", v.sig, v.msg)
		}
	})
	run.Set("subscribe_steps_checked", subs)
}

func TestReplay(t *testing.T) {
	var c Case
	ok, err := ev.ReplayCase(&c)
	if !ok {
		t.Skip("no VERIF_REPLAY")
	}
	if err != nil {
		t.Fatal(err)
	}
	for i := 0; i < 5; i++ {
		if v := runCase(&c, &stats{}); v != nil {
			t.Fatalf("VIOLATION reproduced: %s: %s", v.sig, v.msg)
		}
	}
	t.Log("case passes")
}
