// Package peer is a scripted raw MQTT endpoint over a memconn.Conn. It is
// deliberately not client.Client, so broker checks do not depend on the
// client library. All waiting is event driven with a ceiling.
package peer

import (
	"fmt"
	"strings"
	"time"

	"github.com/256dpi/gomqtt/packet"

	"verif/internal/ev"
	"verif/internal/memconn"
)

// MarkerPrefix is the reserved topic prefix of barrier markers.
const MarkerPrefix = "~m/"

// MarkerTopic is deep enough that only '#' among the test filters matches it.
const MarkerTopic = "~m/~/~/~/~"

// Peer is a raw protocol endpoint (client side of a broker connection).
type Peer struct {
	Name string
	C    *memconn.Conn

	// AutoAck: answer PUBLISH qos1 with PUBACK, qos2 with PUBREC and PUBREL
	// with PUBCOMP while pumping.
	AutoAck bool

	// Inbox holds every packet received so far, in order.
	Inbox []packet.Generic
	// EOF is set once the connection ended.
	EOF    bool
	EOFErr error

	nextID uint16
}

// New wraps the harness end of a connection.
func New(name string, c *memconn.Conn) *Peer {
	return &Peer{Name: name, C: c, AutoAck: true}
}

// NextID hands out packet ids 1,2,3...
func (p *Peer) NextID() packet.ID {
	p.nextID++
	if p.nextID == 0 {
		p.nextID = 1
	}
	return packet.ID(p.nextID)
}

// Send sends a packet.
func (p *Peer) Send(pkt packet.Generic) error { return p.C.Send(pkt, false) }

func (p *Peer) handle(pkt packet.Generic) {
	p.Inbox = append(p.Inbox, pkt)
	if !p.AutoAck {
		return
	}
	switch v := pkt.(type) {
	case *packet.Publish:
		switch v.Message.QOS {
		case 1:
			_ = p.Send(&packet.Puback{ID: v.ID})
		case 2:
			_ = p.Send(&packet.Pubrec{ID: v.ID})
		}
	case *packet.Pubrel:
		_ = p.Send(&packet.Pubcomp{ID: v.ID})
	}
}

// Pump consumes everything that has already arrived.
func (p *Peer) Pump() {
	for !p.EOF {
		pkt, ok, err := p.C.TryReceive()
		if err != nil {
			p.EOF, p.EOFErr = true, err
			return
		}
		if !ok {
			return
		}
		p.handle(pkt)
	}
}

// PumpWait waits up to d for one more packet and files it into the inbox.
func (p *Peer) PumpWait(d time.Duration) {
	if p.EOF {
		return
	}
	pkt, ok, err := p.C.ReceiveTimeout(d)
	if err != nil {
		p.EOF, p.EOFErr = true, err
		return
	}
	if ok {
		p.handle(pkt)
	}
}

// WaitFor pumps until pred holds for a packet at index >= from of the inbox;
// it returns that index or -1 when the ceiling expired or the connection ended.
func (p *Peer) WaitFor(from int, pred func(packet.Generic) bool, ceiling time.Duration) int {
	deadline := time.Now().Add(ceiling)
	scan := from
	for {
		for ; scan < len(p.Inbox); scan++ {
			if pred(p.Inbox[scan]) {
				return scan
			}
		}
		if p.EOF {
			return -1
		}
		left := time.Until(deadline)
		if left <= 0 {
			return -1
		}
		pkt, ok, err := p.C.ReceiveTimeout(left)
		if err != nil {
			p.EOF, p.EOFErr = true, err
			continue
		}
		if ok {
			p.handle(pkt)
		}
	}
}

// WaitEOF pumps until the connection ended; false when the ceiling expired.
func (p *Peer) WaitEOF(ceiling time.Duration) bool {
	p.WaitFor(len(p.Inbox), func(packet.Generic) bool { return false }, ceiling)
	// WaitFor only returns on EOF or ceiling
	for !p.EOF {
		return false
	}
	return true
}

// Connect sends CONNECT and waits for the CONNACK.
func (p *Peer) Connect(c *packet.Connect) (*packet.Connack, error) {
	if err := p.Send(c); err != nil {
		return nil, err
	}
	i := p.WaitFor(len(p.Inbox), func(g packet.Generic) bool { return g.Type() == packet.CONNACK }, ev.Ceiling())
	if i < 0 {
		return nil, fmt.Errorf("%s: no CONNACK (eof=%v err=%v)", p.Name, p.EOF, p.EOFErr)
	}
	return p.Inbox[i].(*packet.Connack), nil
}

// ConnectID is a shorthand for a plain connect.
func (p *Peer) ConnectID(id string, clean bool) (*packet.Connack, error) {
	c := packet.NewConnect()
	c.ClientID = id
	c.CleanSession = clean
	return p.Connect(c)
}

// Subscribe sends SUBSCRIBE and waits for the matching SUBACK.
func (p *Peer) Subscribe(subs []packet.Subscription) (*packet.Suback, error) {
	s := packet.NewSubscribe()
	s.ID = p.NextID()
	s.Subscriptions = subs
	from := len(p.Inbox)
	if err := p.Send(s); err != nil {
		return nil, err
	}
	i := p.WaitFor(from, func(g packet.Generic) bool {
		a, ok := g.(*packet.Suback)
		return ok && a.ID == s.ID
	}, ev.Ceiling())
	if i < 0 {
		return nil, fmt.Errorf("%s: no SUBACK for id %d (eof=%v)", p.Name, s.ID, p.EOF)
	}
	return p.Inbox[i].(*packet.Suback), nil
}

// Unsubscribe sends UNSUBSCRIBE and waits for the UNSUBACK.
func (p *Peer) Unsubscribe(topics []string) error {
	u := packet.NewUnsubscribe()
	u.ID = p.NextID()
	u.Topics = topics
	from := len(p.Inbox)
	if err := p.Send(u); err != nil {
		return err
	}
	i := p.WaitFor(from, func(g packet.Generic) bool {
		a, ok := g.(*packet.Unsuback)
		return ok && a.ID == u.ID
	}, ev.Ceiling())
	if i < 0 {
		return fmt.Errorf("%s: no UNSUBACK for id %d (eof=%v)", p.Name, u.ID, p.EOF)
	}
	return nil
}

// Publish sends a PUBLISH and completes the QoS handshake.
func (p *Peer) Publish(topic string, payload []byte, qos packet.QOS, retain bool) error {
	pub := packet.NewPublish()
	pub.Message = packet.Message{Topic: topic, Payload: payload, QOS: qos, Retain: retain}
	if qos > 0 {
		pub.ID = p.NextID()
	}
	from := len(p.Inbox)
	if err := p.Send(pub); err != nil {
		return err
	}
	switch qos {
	case 1:
		if p.WaitFor(from, func(g packet.Generic) bool { a, ok := g.(*packet.Puback); return ok && a.ID == pub.ID }, ev.Ceiling()) < 0 {
			return fmt.Errorf("%s: no PUBACK for id %d (eof=%v)", p.Name, pub.ID, p.EOF)
		}
	case 2:
		if p.WaitFor(from, func(g packet.Generic) bool { a, ok := g.(*packet.Pubrec); return ok && a.ID == pub.ID }, ev.Ceiling()) < 0 {
			return fmt.Errorf("%s: no PUBREC for id %d (eof=%v)", p.Name, pub.ID, p.EOF)
		}
		if err := p.Send(&packet.Pubrel{ID: pub.ID}); err != nil {
			return err
		}
		if p.WaitFor(from, func(g packet.Generic) bool { a, ok := g.(*packet.Pubcomp); return ok && a.ID == pub.ID }, ev.Ceiling()) < 0 {
			return fmt.Errorf("%s: no PUBCOMP for id %d (eof=%v)", p.Name, pub.ID, p.EOF)
		}
	}
	return nil
}

// Markers publishes the two barrier markers (QoS 0 and QoS 1) with the tag.
func (p *Peer) Markers(tag string) error {
	if err := p.Publish(MarkerTopic, []byte("m0:"+tag), 0, false); err != nil {
		return err
	}
	return p.Publish(MarkerTopic, []byte("m1:"+tag), 1, false)
}

// AwaitMarkers pumps until both markers with the tag were received (from
// index `from` of the inbox on). It returns false when they did not arrive.
func (p *Peer) AwaitMarkers(from int, tag string) bool {
	for _, m := range []string{"m0:" + tag, "m1:" + tag} {
		m := m
		if p.WaitFor(from, func(g packet.Generic) bool {
			pub, ok := g.(*packet.Publish)
			return ok && strings.HasPrefix(pub.Message.Topic, MarkerPrefix) && string(pub.Message.Payload) == m
		}, ev.Ceiling()) < 0 {
			return false
		}
	}
	return true
}

// IsMarker reports whether pkt is a barrier marker.
func IsMarker(g packet.Generic) bool {
	pub, ok := g.(*packet.Publish)
	return ok && strings.HasPrefix(pub.Message.Topic, MarkerPrefix)
}

// Publishes returns the non-marker PUBLISH packets of the inbox from index from.
func (p *Peer) Publishes(from int) []*packet.Publish {
	var out []*packet.Publish
	for _, g := range p.Inbox[from:] {
		if pub, ok := g.(*packet.Publish); ok && !IsMarker(g) {
			out = append(out, pub)
		}
	}
	return out
}

// Ping sends PINGREQ and waits for PINGRESP.
func (p *Peer) Ping() bool {
	from := len(p.Inbox)
	if p.Send(packet.NewPingreq()) != nil {
		return false
	}
	return p.WaitFor(from, func(g packet.Generic) bool { return g.Type() == packet.PINGRESP }, ev.Ceiling()) >= 0
}

// Disconnect sends DISCONNECT.
func (p *Peer) Disconnect() { _ = p.Send(packet.NewDisconnect()) }

// Drop closes the connection abruptly.
func (p *Peer) Drop() { _ = p.C.Close() }
