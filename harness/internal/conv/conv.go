// Package conv converts between the library's packet values and the
// reference codec's flat Packet.
package conv

import (
	"bytes"
	"fmt"
	"reflect"

	"github.com/256dpi/gomqtt/packet"

	"verif/internal/refcodec"
)

// ToLib builds the library value for a reference packet. The reference packet
// must be inside the library's packet model (see Norm).
func ToLib(p *refcodec.Packet) packet.Generic {
	switch p.Type {
	case refcodec.CONNECT:
		c := packet.NewConnect()
		c.ClientID = p.ClientID
		c.KeepAlive = p.KeepAlive
		c.Username = p.User
		c.Password = p.Pass
		c.CleanSession = p.Clean
		c.Version = p.Level
		if p.HasWill {
			c.Will = &packet.Message{Topic: p.WillTopic, Payload: p.WillPayload, QOS: packet.QOS(p.WillQoS), Retain: p.WillRetain}
		}
		return c
	case refcodec.CONNACK:
		c := packet.NewConnack()
		c.SessionPresent = p.SessionPresent
		c.ReturnCode = packet.ConnackCode(p.Code)
		return c
	case refcodec.PUBLISH:
		c := packet.NewPublish()
		c.Dup = p.Dup
		c.ID = packet.ID(p.ID)
		c.Message = packet.Message{Topic: p.Topic, Payload: p.Payload, QOS: packet.QOS(p.QoS), Retain: p.Retain}
		return c
	case refcodec.PUBACK:
		return &packet.Puback{ID: packet.ID(p.ID)}
	case refcodec.PUBREC:
		return &packet.Pubrec{ID: packet.ID(p.ID)}
	case refcodec.PUBREL:
		return &packet.Pubrel{ID: packet.ID(p.ID)}
	case refcodec.PUBCOMP:
		return &packet.Pubcomp{ID: packet.ID(p.ID)}
	case refcodec.UNSUBACK:
		return &packet.Unsuback{ID: packet.ID(p.ID)}
	case refcodec.SUBSCRIBE:
		s := packet.NewSubscribe()
		s.ID = packet.ID(p.ID)
		for i, f := range p.Filters {
			s.Subscriptions = append(s.Subscriptions, packet.Subscription{Topic: f, QOS: packet.QOS(p.QoSs[i])})
		}
		return s
	case refcodec.SUBACK:
		s := packet.NewSuback()
		s.ID = packet.ID(p.ID)
		for _, c := range p.Codes {
			s.ReturnCodes = append(s.ReturnCodes, packet.QOS(c))
		}
		return s
	case refcodec.UNSUBSCRIBE:
		u := packet.NewUnsubscribe()
		u.ID = packet.ID(p.ID)
		u.Topics = append(u.Topics, p.Filters...)
		return u
	case refcodec.PINGREQ:
		return packet.NewPingreq()
	case refcodec.PINGRESP:
		return packet.NewPingresp()
	case refcodec.DISCONNECT:
		return packet.NewDisconnect()
	}
	return nil
}

// FromLib converts a library packet into the (normalised) reference form.
func FromLib(g packet.Generic) *refcodec.Packet {
	p := &refcodec.Packet{Type: byte(g.Type())}
	switch v := g.(type) {
	case *packet.Connect:
		p.Level = v.Version
		if p.Level == 0 {
			p.Level = 4
		}
		p.ClientID = v.ClientID
		p.KeepAlive = v.KeepAlive
		p.User = v.Username
		p.Pass = v.Password
		p.Clean = v.CleanSession
		if v.Will != nil {
			p.HasWill = true
			p.WillTopic = v.Will.Topic
			p.WillPayload = v.Will.Payload
			p.WillQoS = byte(v.Will.QOS)
			p.WillRetain = v.Will.Retain
		}
	case *packet.Connack:
		p.SessionPresent = v.SessionPresent
		p.Code = byte(v.ReturnCode)
	case *packet.Publish:
		p.Dup = v.Dup
		p.ID = uint16(v.ID)
		p.Topic = v.Message.Topic
		p.Payload = v.Message.Payload
		p.QoS = byte(v.Message.QOS)
		p.Retain = v.Message.Retain
	case *packet.Puback:
		p.ID = uint16(v.ID)
	case *packet.Pubrec:
		p.ID = uint16(v.ID)
	case *packet.Pubrel:
		p.ID = uint16(v.ID)
	case *packet.Pubcomp:
		p.ID = uint16(v.ID)
	case *packet.Unsuback:
		p.ID = uint16(v.ID)
	case *packet.Subscribe:
		p.ID = uint16(v.ID)
		for _, s := range v.Subscriptions {
			p.Filters = append(p.Filters, s.Topic)
			p.QoSs = append(p.QoSs, byte(s.QOS))
		}
	case *packet.Suback:
		p.ID = uint16(v.ID)
		for _, c := range v.ReturnCodes {
			p.Codes = append(p.Codes, byte(c))
		}
	case *packet.Unsubscribe:
		p.ID = uint16(v.ID)
		p.Filters = append(p.Filters, v.Topics...)
	}
	return Norm(p)
}

// Norm maps a reference packet into the library's packet model: presence of
// user name / password is not represented separately from their being empty,
// the protocol name follows from the level, nil and empty byte slices are the
// same, the id of a QoS 0 publish is not transported.
func Norm(in *refcodec.Packet) *refcodec.Packet {
	p := *in
	if p.Type == refcodec.CONNECT {
		p.HasUser = p.User != ""
		p.HasPass = p.Pass != ""
		if p.Level == 3 {
			p.ProtoName = "MQIsdp"
		} else {
			p.ProtoName = "MQTT"
		}
		if !p.HasWill {
			p.WillTopic, p.WillPayload, p.WillQoS, p.WillRetain = "", nil, 0, false
		}
	}
	if len(p.WillPayload) == 0 {
		p.WillPayload = nil
	}
	if len(p.Payload) == 0 {
		p.Payload = nil
	}
	if len(p.Filters) == 0 {
		p.Filters = nil
	}
	if len(p.QoSs) == 0 {
		p.QoSs = nil
	}
	if len(p.Codes) == 0 {
		p.Codes = nil
	}
	return &p
}

// Equal compares two normalised reference packets and describes the first
// difference.
func Equal(a, b *refcodec.Packet) (bool, string) {
	if reflect.DeepEqual(a, b) {
		return true, ""
	}
	va, vb := reflect.ValueOf(*a), reflect.ValueOf(*b)
	for i := 0; i < va.NumField(); i++ {
		fa, fb := va.Field(i).Interface(), vb.Field(i).Interface()
		if ba, ok := fa.([]byte); ok {
			if !bytes.Equal(ba, fb.([]byte)) {
				return false, fmt.Sprintf("field %s: len %d vs len %d (content differs)", va.Type().Field(i).Name, len(ba), len(fb.([]byte)))
			}
			continue
		}
		if !reflect.DeepEqual(fa, fb) {
			return false, fmt.Sprintf("field %s: %.80v vs %.80v", va.Type().Field(i).Name, fa, fb)
		}
	}
	return false, "differs"
}

// Clone deep-copies a reference packet.
func Clone(p *refcodec.Packet) *refcodec.Packet {
	q := *p
	q.WillPayload = append([]byte(nil), p.WillPayload...)
	q.Payload = append([]byte(nil), p.Payload...)
	q.Filters = append([]string(nil), p.Filters...)
	q.QoSs = append([]byte(nil), p.QoSs...)
	q.Codes = append([]byte(nil), p.Codes...)
	return Norm(&q)
}
