// Package memconn provides a packet-framed in-memory transport.Conn pair with
// an ordered event log and deterministic fault injection.
//
// Send encodes with the library's codec (an un-encodable packet fails exactly
// as over a real connection) and appends the bytes to an unbounded FIFO;
// Receive decodes them again. Close closes both directions: the closing side's
// calls fail at once, the peer drains what was queued and then gets io.EOF.
package memconn

import (
	"errors"
	"fmt"
	"io"
	"net"
	"sync"
	"sync/atomic"
	"time"

	"github.com/256dpi/gomqtt/packet"
)

// Event is one entry of the ordered event log.
type Event struct {
	Seq   int64  `json:"seq"`
	Actor string `json:"actor"`
	Op    string `json:"op"`
	Type  string `json:"type,omitempty"`
	ID    uint16 `json:"id,omitempty"`
	QoS   int    `json:"qos,omitempty"`
	Dup   bool   `json:"dup,omitempty"`
	Ret   bool   `json:"retain,omitempty"`
	Topic string `json:"topic,omitempty"`
	Tag   string `json:"tag,omitempty"`
	Note  string `json:"note,omitempty"`
	Pkt   packet.Generic `json:"-"`
}

func (e Event) String() string {
	s := fmt.Sprintf("#%d %s %s", e.Seq, e.Actor, e.Op)
	if e.Type != "" {
		s += " " + e.Type
	}
	if e.ID != 0 {
		s += fmt.Sprintf(" id=%d", e.ID)
	}
	if e.Type == "Publish" {
		s += fmt.Sprintf(" qos=%d dup=%v retain=%v topic=%q", e.QoS, e.Dup, e.Ret, e.Topic)
	}
	if e.Tag != "" {
		s += " tag=" + e.Tag
	}
	if e.Note != "" {
		s += " (" + e.Note + ")"
	}
	return s
}

// Log is a mutex-ordered event log shared by all wrappers of one scenario.
type Log struct {
	mu     sync.Mutex
	events []Event
	seq    int64
}

// NewLog creates a log.
func NewLog() *Log { return &Log{} }

// Add appends an event (Seq is assigned).
func (l *Log) Add(e Event) int64 {
	if l == nil {
		return 0
	}
	l.mu.Lock()
	l.seq++
	e.Seq = l.seq
	l.events = append(l.events, e)
	l.mu.Unlock()
	return e.Seq
}

// AddPkt appends an event describing a packet.
func (l *Log) AddPkt(actor, op string, p packet.Generic, note string) int64 {
	if l == nil {
		return 0
	}
	e := Describe(p)
	e.Actor, e.Op, e.Note = actor, op, note
	return l.Add(e)
}

// Events returns a copy of the log.
func (l *Log) Events() []Event {
	l.mu.Lock()
	defer l.mu.Unlock()
	return append([]Event{}, l.events...)
}

// Dump renders the log.
func (l *Log) Dump() string {
	s := ""
	for _, e := range l.Events() {
		s += e.String() + "\n"
	}
	return s
}

// Describe fills the packet fields of an event.
func Describe(p packet.Generic) Event {
	e := Event{}
	if p == nil {
		return e
	}
	e.Type = p.Type().String()
	e.Pkt = p
	if id, ok := packet.GetID(p); ok {
		e.ID = uint16(id)
	}
	if pub, ok := p.(*packet.Publish); ok {
		e.QoS, e.Dup, e.Ret, e.Topic = int(pub.Message.QOS), pub.Dup, pub.Message.Retain, pub.Message.Topic
		e.Tag = string(pub.Message.Payload)
		if len(e.Tag) > 24 {
			e.Tag = e.Tag[:24]
		}
	}
	return e
}

type queue struct {
	mu     sync.Mutex
	items  [][]byte
	closed bool // no more items will arrive
	signal chan struct{}
}

func newQueue() *queue { return &queue{signal: make(chan struct{}, 1)} }

func (q *queue) push(b []byte) bool {
	q.mu.Lock()
	if q.closed {
		q.mu.Unlock()
		return false
	}
	q.items = append(q.items, b)
	q.mu.Unlock()
	select {
	case q.signal <- struct{}{}:
	default:
	}
	return true
}

func (q *queue) close() {
	q.mu.Lock()
	q.closed = true
	q.mu.Unlock()
	select {
	case q.signal <- struct{}{}:
	default:
	}
}

// ErrInjected is the error returned by an injected fault.
var ErrInjected = errors.New("memconn: injected connection failure")

// ErrClosed is returned on a locally closed connection.
var ErrClosed = errors.New("memconn: use of closed connection")

// ErrTimeout is returned when the read timeout expires.
var ErrTimeout = errors.New("memconn: read timeout")

// Conn is one end of an in-memory connection.
type Conn struct {
	Name string
	Log  *Log

	in, out *queue
	peer    *Conn

	closed     int32
	closedCh   chan struct{}
	closeOnce  sync.Once
	readLimit  int64
	timeoutMu  sync.Mutex
	timeout    time.Duration
	timeoutSet time.Time

	// fault plan: the FailAt-th operation (Send or successful Receive, counted
	// from 1) fails; FailAfter=false: before it takes effect, true: after.
	FailAt    int64
	FailAfter bool
	failAt    int64 // atomic copy (SetFail may be called while the connection is in use)
	failAfter int32
	ops       int64
	// FailSendType, when set, makes the next Send of that packet type fail
	// (before=not delivered / after=delivered).
	failSend atomic.Value // *sendFault

	// Stall, when non-nil, makes Send block until the channel is closed (a
	// peer that stopped reading with a full socket buffer).
	Stall chan struct{}

	// armed stall (StallSends / Unstall), usable while the connection is live
	stallOn  int32
	stallCh  chan struct{}
	stallMu  sync.Mutex

	// Jitter, when non-nil, is called at the start of every operation.
	Jitter func()

	// OnSend, when non-nil, is called (in the sender's goroutine) right before
	// a packet is logged and delivered; probes use it to look at the state the
	// sender is in at that very moment.
	OnSend func(c *Conn, pkt packet.Generic)

	recvMu sync.Mutex
	sendMu sync.Mutex
}

type sendFault struct {
	typ   packet.Type
	after bool
	skip  int32
}

// FailNextSend arms a one-shot fault on the next Send of a packet of type typ
// (after skipping skip such sends).
func (c *Conn) FailNextSend(typ packet.Type, after bool, skip int) {
	c.failSend.Store(&sendFault{typ: typ, after: after, skip: int32(skip)})
}

// SetFail arms the fault plan while the connection is in use: the at-th
// operation counted from now on fails (after=false: before it takes effect).
func (c *Conn) SetFail(at int64, after bool) {
	a := int32(0)
	if after {
		a = 1
	}
	atomic.StoreInt32(&c.failAfter, a)
	atomic.StoreInt64(&c.failAt, atomic.LoadInt64(&c.ops)+at)
}

func (c *Conn) plan() (int64, bool) {
	if at := atomic.LoadInt64(&c.failAt); at != 0 {
		return at, atomic.LoadInt32(&c.failAfter) == 1
	}
	return c.FailAt, c.FailAfter
}

// StallSends makes every following Send block (as on a full socket buffer)
// until Unstall is called or the connection is closed.
func (c *Conn) StallSends() {
	c.stallMu.Lock()
	c.stallCh = make(chan struct{})
	c.stallMu.Unlock()
	atomic.StoreInt32(&c.stallOn, 1)
}

// Unstall releases stalled Sends.
func (c *Conn) Unstall() {
	if atomic.CompareAndSwapInt32(&c.stallOn, 1, 0) {
		c.stallMu.Lock()
		close(c.stallCh)
		c.stallMu.Unlock()
	}
}

// Pair creates a connected pair. a is conventionally the broker/client side
// under test, b the harness side.
func Pair(nameA, nameB string, log *Log) (*Conn, *Conn) {
	q1, q2 := newQueue(), newQueue()
	a := &Conn{Name: nameA, Log: log, in: q1, out: q2, closedCh: make(chan struct{})}
	b := &Conn{Name: nameB, Log: log, in: q2, out: q1, closedCh: make(chan struct{})}
	a.peer, b.peer = b, a
	return a, b
}

// Ops returns the number of operations counted so far.
func (c *Conn) Ops() int64 { return atomic.LoadInt64(&c.ops) }

// Closed reports whether Close was called locally (or a fault closed it).
func (c *Conn) Closed() bool { return atomic.LoadInt32(&c.closed) == 1 }

// Done is closed when the connection has been closed locally.
func (c *Conn) Done() <-chan struct{} { return c.closedCh }

// Send implements transport.Conn.
func (c *Conn) Send(pkt packet.Generic, _ bool) error {
	if c.Jitter != nil {
		c.Jitter()
	}
	c.sendMu.Lock()
	defer c.sendMu.Unlock()
	if c.Closed() {
		c.Log.AddPkt(c.Name, "send-closed", pkt, "connection already closed")
		return ErrClosed
	}
	buf := make([]byte, pkt.Len())
	n, err := pkt.Encode(buf)
	if err != nil {
		c.Log.AddPkt(c.Name, "send-encode-error", pkt, err.Error())
		_ = c.Close()
		return err
	}
	buf = buf[:n]
	if c.Stall != nil {
		select {
		case <-c.Stall:
		case <-c.closedCh:
			return ErrClosed
		}
	}
	if atomic.LoadInt32(&c.stallOn) == 1 {
		c.stallMu.Lock()
		ch := c.stallCh
		c.stallMu.Unlock()
		c.Log.AddPkt(c.Name, "send-stalled", pkt, "peer is not reading")
		select {
		case <-ch:
		case <-c.closedCh:
			return ErrClosed
		}
	}
	op := atomic.AddInt64(&c.ops, 1)
	planAt, planAfter := c.plan()
	fail, after := planAt != 0 && op == planAt, planAfter
	if sf, _ := c.failSend.Load().(*sendFault); sf != nil && sf.typ == pkt.Type() {
		if atomic.AddInt32(&sf.skip, -1) == -1 {
			fail, after = true, sf.after
		}
	}
	if fail && !after {
		c.Log.AddPkt(c.Name, "send-lost", pkt, "injected failure before the packet left")
		_ = c.Close()
		return ErrInjected
	}
	if c.OnSend != nil {
		c.OnSend(c, pkt)
	}
	// log and deliver atomically with respect to the log order
	c.Log.AddPkt(c.Name, "send", pkt, "")
	if !c.out.push(buf) {
		// the peer is gone; what it sent before stays readable on this side
		c.Log.Add(Event{Actor: c.Name, Op: "send-undelivered", Type: pkt.Type().String(), Note: "peer already closed"})
		return io.ErrClosedPipe
	}
	if fail {
		c.Log.Add(Event{Actor: c.Name, Op: "fail-after-send", Type: pkt.Type().String()})
		_ = c.Close()
		return ErrInjected
	}
	return nil
}

// Receive implements transport.Conn.
func (c *Conn) Receive() (packet.Generic, error) {
	if c.Jitter != nil {
		c.Jitter()
	}
	c.recvMu.Lock()
	defer c.recvMu.Unlock()
	for {
		if c.Closed() {
			return nil, ErrClosed
		}
		c.in.mu.Lock()
		if len(c.in.items) > 0 {
			b := c.in.items[0]
			c.in.items = c.in.items[1:]
			c.in.mu.Unlock()
			limit := atomic.LoadInt64(&c.readLimit)
			if limit > 0 && int64(len(b)) > limit {
				_ = c.Close()
				return nil, packet.ErrReadLimitExceeded
			}
			_, t := packet.DetectPacket(b)
			pkt, err := t.New()
			if err == nil {
				_, err = pkt.Decode(b)
			}
			if err != nil {
				c.Log.Add(Event{Actor: c.Name, Op: "recv-decode-error", Note: err.Error()})
				_ = c.Close()
				return nil, err
			}
			op := atomic.AddInt64(&c.ops, 1)
			if planAt, planAfter := c.plan(); planAt != 0 && op == planAt {
				if !planAfter {
					c.Log.AddPkt(c.Name, "recv-lost", pkt, "injected failure before the packet was read")
					_ = c.Close()
					return nil, ErrInjected
				}
				c.Log.AddPkt(c.Name, "recv", pkt, "connection fails right after this packet")
				_ = c.Close()
				return pkt, nil
			}
			c.Log.AddPkt(c.Name, "recv", pkt, "")
			c.resetTimeout()
			return pkt, nil
		}
		eof := c.in.closed
		c.in.mu.Unlock()
		if eof {
			_ = c.Close()
			return nil, io.EOF
		}
		var timer <-chan time.Time
		c.timeoutMu.Lock()
		if c.timeout > 0 {
			d := time.Until(c.timeoutSet.Add(c.timeout))
			if d <= 0 {
				c.timeoutMu.Unlock()
				c.Log.Add(Event{Actor: c.Name, Op: "read-timeout"})
				_ = c.Close()
				return nil, ErrTimeout
			}
			timer = time.After(d)
		}
		c.timeoutMu.Unlock()
		select {
		case <-c.in.signal:
		case <-c.closedCh:
		case <-timer:
		}
	}
}

// TryReceive returns the next queued packet without blocking (harness side).
func (c *Conn) TryReceive() (packet.Generic, bool, error) {
	c.in.mu.Lock()
	n, eof := len(c.in.items), c.in.closed
	c.in.mu.Unlock()
	if n == 0 {
		if eof {
			return nil, false, io.EOF
		}
		return nil, false, nil
	}
	p, err := c.Receive()
	return p, err == nil, err
}

// ReceiveTimeout waits up to d for the next packet (harness side). ok=false
// with err=nil means nothing arrived in time.
func (c *Conn) ReceiveTimeout(d time.Duration) (packet.Generic, bool, error) {
	deadline := time.Now().Add(d)
	for {
		p, ok, err := c.TryReceive()
		if ok || err != nil {
			return p, ok, err
		}
		if c.Closed() {
			return nil, false, ErrClosed
		}
		left := time.Until(deadline)
		if left <= 0 {
			return nil, false, nil
		}
		select {
		case <-c.in.signal:
		case <-c.closedCh:
		case <-time.After(left):
		}
	}
}

func (c *Conn) resetTimeout() {
	c.timeoutMu.Lock()
	c.timeoutSet = time.Now()
	c.timeoutMu.Unlock()
}

// Close implements transport.Conn.
func (c *Conn) Close() error {
	c.closeOnce.Do(func() {
		atomic.StoreInt32(&c.closed, 1)
		c.Log.Add(Event{Actor: c.Name, Op: "close"})
		close(c.closedCh)
		c.out.close() // peer drains, then EOF
		c.in.close()
	})
	return nil
}

// SetReadLimit implements transport.Conn.
func (c *Conn) SetReadLimit(limit int64) { atomic.StoreInt64(&c.readLimit, limit) }

// SetReadTimeout implements transport.Conn.
func (c *Conn) SetReadTimeout(d time.Duration) {
	c.timeoutMu.Lock()
	c.timeout = d
	c.timeoutSet = time.Now()
	c.timeoutMu.Unlock()
	select {
	case c.in.signal <- struct{}{}:
	default:
	}
}

// SetMaxWriteDelay implements transport.Conn.
func (c *Conn) SetMaxWriteDelay(time.Duration) {}

type addr string

func (a addr) Network() string { return "mem" }
func (a addr) String() string  { return string(a) }

// LocalAddr implements transport.Conn.
func (c *Conn) LocalAddr() net.Addr { return addr(c.Name) }

// RemoteAddr implements transport.Conn.
func (c *Conn) RemoteAddr() net.Addr { return addr(c.peer.Name) }

// SendRaw pushes raw bytes as one frame to the peer (hostile harness side).
func (c *Conn) SendRaw(b []byte) bool {
	c.Log.Add(Event{Actor: c.Name, Op: "send-raw", Note: fmt.Sprintf("%d bytes %x", len(b), head(b))})
	return c.out.push(append([]byte{}, b...))
}

func head(b []byte) []byte {
	if len(b) > 16 {
		return b[:16]
	}
	return b
}
