// Package refcodec is an independent reference codec for MQTT 3.1.1 control
// packets, written from the OASIS specification text. It shares no code with
// github.com/256dpi/gomqtt/packet and does not import it.
package refcodec

import (
	"errors"
	"fmt"
)

// Packet types.
const (
	CONNECT     = 1
	CONNACK     = 2
	PUBLISH     = 3
	PUBACK      = 4
	PUBREC      = 5
	PUBREL      = 6
	PUBCOMP     = 7
	SUBSCRIBE   = 8
	SUBACK      = 9
	UNSUBSCRIBE = 10
	UNSUBACK    = 11
	PINGREQ     = 12
	PINGRESP    = 13
	DISCONNECT  = 14
)

// Packet is a flat representation of any MQTT 3.1.1 control packet.
type Packet struct {
	Type byte `json:"type"`

	// CONNECT
	ProtoName   string `json:"proto,omitempty"`
	Level       byte   `json:"level,omitempty"`
	Clean       bool   `json:"clean,omitempty"`
	KeepAlive   uint16 `json:"keepalive,omitempty"`
	ClientID    string `json:"client_id,omitempty"`
	HasWill     bool   `json:"has_will,omitempty"`
	WillTopic   string `json:"will_topic,omitempty"`
	WillPayload []byte `json:"will_payload,omitempty"`
	WillQoS     byte   `json:"will_qos,omitempty"`
	WillRetain  bool   `json:"will_retain,omitempty"`
	HasUser     bool   `json:"has_user,omitempty"`
	User        string `json:"user,omitempty"`
	HasPass     bool   `json:"has_pass,omitempty"`
	Pass        string `json:"pass,omitempty"`

	// CONNACK
	SessionPresent bool `json:"session_present,omitempty"`
	Code           byte `json:"code,omitempty"`

	// PUBLISH
	Dup     bool   `json:"dup,omitempty"`
	Retain  bool   `json:"retain,omitempty"`
	QoS     byte   `json:"qos,omitempty"`
	Topic   string `json:"topic,omitempty"`
	Payload []byte `json:"payload,omitempty"`

	// packet identifier (PUBLISH qos>0, PUBACK..PUBCOMP, SUBSCRIBE, SUBACK, UNSUBSCRIBE, UNSUBACK)
	ID uint16 `json:"id,omitempty"`

	// SUBSCRIBE (Filters+QoSs), UNSUBSCRIBE (Filters)
	Filters []string `json:"filters,omitempty"`
	QoSs    []byte   `json:"qoss,omitempty"`

	// SUBACK
	Codes []byte `json:"codes,omitempty"`
}

// MaxRL is the largest remaining length (MQTT 3.1.1 section 2.2.3).
const MaxRL = 268435455

// VarintLen returns the minimal number of bytes for a remaining length.
func VarintLen(n int) int {
	switch {
	case n < 0 || n > MaxRL:
		return 0
	case n <= 127:
		return 1
	case n <= 16383:
		return 2
	case n <= 2097151:
		return 3
	}
	return 4
}

// PutVarint appends the minimal remaining-length encoding (section 2.2.3).
func PutVarint(dst []byte, x int) []byte {
	for {
		d := byte(x % 128)
		x /= 128
		if x > 0 {
			d |= 128
		}
		dst = append(dst, d)
		if x == 0 {
			return dst
		}
	}
}

func putStr(dst []byte, s []byte) []byte {
	dst = append(dst, byte(len(s)>>8), byte(len(s)))
	return append(dst, s...)
}

// FixedFlags returns the mandated flag nibble for non-PUBLISH types.
func FixedFlags(t byte) byte {
	switch t {
	case PUBREL, SUBSCRIBE, UNSUBSCRIBE:
		return 2
	}
	return 0
}

// Body returns the variable header + payload of p.
func Body(p *Packet) []byte {
	var b []byte
	switch p.Type {
	case CONNECT:
		b = putStr(b, []byte(p.ProtoName))
		b = append(b, p.Level)
		var f byte
		if p.HasUser {
			f |= 0x80
		}
		if p.HasPass {
			f |= 0x40
		}
		if p.HasWill {
			f |= 0x04
			f |= p.WillQoS << 3
			if p.WillRetain {
				f |= 0x20
			}
		}
		if p.Clean {
			f |= 0x02
		}
		b = append(b, f, byte(p.KeepAlive>>8), byte(p.KeepAlive))
		b = putStr(b, []byte(p.ClientID))
		if p.HasWill {
			b = putStr(b, []byte(p.WillTopic))
			b = putStr(b, p.WillPayload)
		}
		if p.HasUser {
			b = putStr(b, []byte(p.User))
		}
		if p.HasPass {
			b = putStr(b, []byte(p.Pass))
		}
	case CONNACK:
		var f byte
		if p.SessionPresent {
			f = 1
		}
		b = append(b, f, p.Code)
	case PUBLISH:
		b = putStr(b, []byte(p.Topic))
		if p.QoS > 0 {
			b = append(b, byte(p.ID>>8), byte(p.ID))
		}
		b = append(b, p.Payload...)
	case PUBACK, PUBREC, PUBREL, PUBCOMP, UNSUBACK:
		b = append(b, byte(p.ID>>8), byte(p.ID))
	case SUBSCRIBE:
		b = append(b, byte(p.ID>>8), byte(p.ID))
		for i, f := range p.Filters {
			b = putStr(b, []byte(f))
			b = append(b, p.QoSs[i])
		}
	case SUBACK:
		b = append(b, byte(p.ID>>8), byte(p.ID))
		b = append(b, p.Codes...)
	case UNSUBSCRIBE:
		b = append(b, byte(p.ID>>8), byte(p.ID))
		for _, f := range p.Filters {
			b = putStr(b, []byte(f))
		}
	}
	return b
}

// FirstByte returns the fixed header's first byte for p.
func FirstByte(p *Packet) byte {
	fl := FixedFlags(p.Type)
	if p.Type == PUBLISH {
		fl = p.QoS << 1
		if p.Dup {
			fl |= 8
		}
		if p.Retain {
			fl |= 1
		}
	}
	return p.Type<<4 | fl
}

// Encode returns the wire encoding of a well-formed packet.
func Encode(p *Packet) []byte {
	body := Body(p)
	out := make([]byte, 0, len(body)+5)
	out = append(out, FirstByte(p))
	out = PutVarint(out, len(body))
	return append(out, body...)
}

// Errors.
var (
	ErrShort = errors.New("ref: buffer shorter than declared packet")
)

// Header is a parsed fixed header.
type Header struct {
	Type   byte
	Flags  byte
	RL     int
	HdrLen int // 1 + number of remaining-length bytes
}

// Total returns the declared total length of the packet.
func (h Header) Total() int { return h.HdrLen + h.RL }

// ParseHeader parses the fixed header. need=true means more bytes are needed
// to decide; err != nil means the header is malformed (remaining length
// longer than four bytes, or a reserved type).
func ParseHeader(b []byte) (h Header, need bool, err error) {
	if len(b) < 2 {
		return h, true, nil
	}
	h.Type = b[0] >> 4
	h.Flags = b[0] & 15
	mult := 1
	for i := 1; ; i++ {
		if i > 4 {
			return h, false, errors.New("ref: remaining length longer than 4 bytes")
		}
		if i >= len(b) {
			return h, true, nil
		}
		h.RL += int(b[i]&127) * mult
		mult *= 128
		if b[i]&128 == 0 {
			h.HdrLen = 1 + i
			break
		}
	}
	return h, false, nil
}

type rd struct {
	b   []byte
	pos int
	err error
}

func (r *rd) left() int { return len(r.b) - r.pos }

func (r *rd) u8() byte {
	if r.err != nil {
		return 0
	}
	if r.left() < 1 {
		r.err = errors.New("ref: field overruns the declared remaining length")
		return 0
	}
	v := r.b[r.pos]
	r.pos++
	return v
}

func (r *rd) u16() uint16 {
	hi := r.u8()
	lo := r.u8()
	return uint16(hi)<<8 | uint16(lo)
}

func (r *rd) str() []byte {
	n := int(r.u16())
	if r.err != nil {
		return nil
	}
	if r.left() < n {
		r.err = errors.New("ref: string overruns the declared remaining length")
		return nil
	}
	v := append([]byte{}, r.b[r.pos:r.pos+n]...)
	r.pos += n
	return v
}

// Decode parses exactly one packet from the start of b. It needs
// len(b) >= declared total length and only ever looks at those bytes; every
// byte of the declared extent must be consumed. lenient enables the library's
// documented leniencies L1-L4 (see DESIGN.md section 3).
func Decode(b []byte, lenient bool) (*Packet, int, error) {
	h, need, err := ParseHeader(b)
	if err != nil {
		return nil, 0, err
	}
	if need {
		return nil, 0, ErrShort
	}
	if h.Type < 1 || h.Type > 14 {
		return nil, 0, fmt.Errorf("ref: reserved packet type %d", h.Type)
	}
	if len(b) < h.Total() {
		return nil, 0, ErrShort
	}
	p := &Packet{Type: h.Type}
	if h.Type != PUBLISH && h.Flags != FixedFlags(h.Type) {
		return nil, 0, fmt.Errorf("ref: invalid fixed header flags %d for type %d", h.Flags, h.Type)
	}
	r := &rd{b: b[h.HdrLen:h.Total()]}
	switch h.Type {
	case CONNECT:
		p.ProtoName = string(r.str())
		p.Level = r.u8()
		if r.err != nil {
			return nil, 0, r.err
		}
		okProto := p.ProtoName == "MQTT" && p.Level == 4
		if lenient && p.ProtoName == "MQIsdp" && p.Level == 3 {
			okProto = true // L4
		}
		if !okProto {
			return nil, 0, errors.New("ref: unsupported protocol name/level")
		}
		f := r.u8()
		if r.err != nil {
			return nil, 0, r.err
		}
		if f&1 != 0 {
			return nil, 0, errors.New("ref: reserved connect flag set")
		}
		p.HasUser = f&0x80 != 0
		p.HasPass = f&0x40 != 0
		p.HasWill = f&0x04 != 0
		p.WillQoS = (f >> 3) & 3
		p.WillRetain = f&0x20 != 0
		p.Clean = f&0x02 != 0
		if p.WillQoS == 3 {
			return nil, 0, errors.New("ref: will qos 3")
		}
		if !p.HasWill && (p.WillQoS != 0 || p.WillRetain) {
			return nil, 0, errors.New("ref: will qos/retain without will flag")
		}
		if p.HasPass && !p.HasUser {
			return nil, 0, errors.New("ref: password flag without user name flag")
		}
		p.KeepAlive = r.u16()
		p.ClientID = string(r.str())
		if r.err != nil {
			return nil, 0, r.err
		}
		if len(p.ClientID) == 0 && !p.Clean {
			return nil, 0, errors.New("ref: empty client id without clean session")
		}
		if p.HasWill {
			p.WillTopic = string(r.str())
			p.WillPayload = r.str()
			if r.err != nil {
				return nil, 0, r.err
			}
			if len(p.WillTopic) == 0 {
				return nil, 0, errors.New("ref: empty will topic (MQTT-4.7.3-1)")
			}
		}
		if p.HasUser {
			p.User = string(r.str())
		}
		if p.HasPass {
			p.Pass = string(r.str())
		}
	case CONNACK:
		f := r.u8()
		p.Code = r.u8()
		if r.err != nil {
			return nil, 0, r.err
		}
		if f&0xFE != 0 {
			return nil, 0, errors.New("ref: reserved connack flags set")
		}
		p.SessionPresent = f&1 != 0
		if p.Code > 5 {
			return nil, 0, errors.New("ref: connack return code > 5")
		}
		if !lenient && p.SessionPresent && p.Code != 0 {
			return nil, 0, errors.New("ref: session present with non-zero return code")
		}
	case PUBLISH:
		p.Dup = h.Flags&8 != 0
		p.QoS = (h.Flags >> 1) & 3
		p.Retain = h.Flags&1 != 0
		if p.QoS == 3 {
			return nil, 0, errors.New("ref: publish qos 3")
		}
		if !lenient && p.QoS == 0 && p.Dup {
			return nil, 0, errors.New("ref: dup with qos 0")
		}
		p.Topic = string(r.str())
		if r.err != nil {
			return nil, 0, r.err
		}
		if len(p.Topic) == 0 {
			return nil, 0, errors.New("ref: empty topic name (MQTT-4.7.3-1)")
		}
		if p.QoS > 0 {
			p.ID = r.u16()
			if r.err != nil {
				return nil, 0, r.err
			}
			if p.ID == 0 {
				return nil, 0, errors.New("ref: packet id 0")
			}
		}
		p.Payload = append([]byte{}, r.b[r.pos:]...)
		r.pos = len(r.b)
	case PUBACK, PUBREC, PUBREL, PUBCOMP, UNSUBACK:
		p.ID = r.u16()
		if r.err == nil && p.ID == 0 {
			return nil, 0, errors.New("ref: packet id 0")
		}
	case SUBSCRIBE:
		p.ID = r.u16()
		if r.err == nil && p.ID == 0 {
			return nil, 0, errors.New("ref: packet id 0")
		}
		for r.err == nil && r.left() > 0 {
			f := r.str()
			q := r.u8()
			if r.err != nil {
				break
			}
			if q > 2 {
				return nil, 0, errors.New("ref: requested qos > 2")
			}
			p.Filters = append(p.Filters, string(f))
			p.QoSs = append(p.QoSs, q)
		}
		if r.err == nil && len(p.Filters) == 0 {
			return nil, 0, errors.New("ref: subscribe without filters")
		}
	case SUBACK:
		p.ID = r.u16()
		if r.err == nil && p.ID == 0 {
			return nil, 0, errors.New("ref: packet id 0")
		}
		for r.err == nil && r.left() > 0 {
			c := r.u8()
			if c > 2 && c != 0x80 {
				return nil, 0, errors.New("ref: invalid suback return code")
			}
			p.Codes = append(p.Codes, c)
		}
		if r.err == nil && len(p.Codes) == 0 {
			return nil, 0, errors.New("ref: suback without return codes")
		}
	case UNSUBSCRIBE:
		p.ID = r.u16()
		if r.err == nil && p.ID == 0 {
			return nil, 0, errors.New("ref: packet id 0")
		}
		for r.err == nil && r.left() > 0 {
			f := r.str()
			if r.err != nil {
				break
			}
			p.Filters = append(p.Filters, string(f))
		}
		if r.err == nil && len(p.Filters) == 0 {
			return nil, 0, errors.New("ref: unsubscribe without filters")
		}
	case PINGREQ, PINGRESP, DISCONNECT:
		// no body
	}
	if r.err != nil {
		return nil, 0, r.err
	}
	if r.left() != 0 {
		return nil, 0, fmt.Errorf("ref: %d unconsumed bytes inside the declared remaining length", r.left())
	}
	return p, h.Total(), nil
}
