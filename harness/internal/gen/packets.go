// Package gen holds the rapid generators shared by the checks.
package gen

import (
	"pgregory.net/rapid"

	"verif/internal/refcodec"
)

var seeds = []string{"a", "b", "/", "+", "#", "ä", "€", "𝄞", "\x00", "\xff", "topic", "x/y", "$SYS", " "}

// fill builds a byte string of exactly n bytes from a short drawn seed (long
// strings are periodic so that they stay cheap to generate and to shrink).
func fill(t *rapid.T, n int, label string) []byte {
	if n == 0 {
		return []byte{}
	}
	var seed []byte
	if rapid.Bool().Draw(t, label+"_raw") {
		seed = rapid.SliceOfN(rapid.Byte(), 1, 8).Draw(t, label+"_seed")
	} else {
		k := rapid.IntRange(1, 4).Draw(t, label+"_k")
		for i := 0; i < k; i++ {
			seed = append(seed, rapid.SampledFrom(seeds).Draw(t, label+"_s")...)
		}
	}
	out := make([]byte, n)
	for i := range out {
		out[i] = seed[i%len(seed)]
	}
	return out
}

// Len draws a field length 0..max biased to the interesting boundaries.
func Len(t *rapid.T, min, max int, label string) int {
	c := rapid.IntRange(0, 9).Draw(t, label+"_class")
	var n int
	switch c {
	case 0, 1, 2, 3:
		n = rapid.IntRange(0, 12).Draw(t, label)
	case 4:
		n = rapid.IntRange(100, 140).Draw(t, label)
	case 5:
		n = rapid.IntRange(250, 260).Draw(t, label)
	case 6:
		n = rapid.SampledFrom([]int{0, 1, 127, 128, 255, 256, 4095, 4096, 4097, 16383, 16384, 65534, 65535}).Draw(t, label)
	case 7:
		n = rapid.IntRange(65530, 65535).Draw(t, label)
	default:
		n = rapid.IntRange(0, 2000).Draw(t, label)
	}
	if n < min {
		n = min
	}
	if n > max {
		n = max
	}
	return n
}

// Str draws a string field (opaque bytes) of a boundary-biased length.
func Str(t *rapid.T, min int, label string) string {
	return string(fill(t, Len(t, min, 65535, label), label))
}

// Payload draws an application payload; big selects sizes that push the
// remaining length over the 16 383 and 2 097 151 boundaries.
func Payload(t *rapid.T, label string) []byte {
	c := rapid.IntRange(0, 11).Draw(t, label+"_pclass")
	var n int
	switch {
	case c < 6:
		n = Len(t, 0, 65535, label)
	case c < 8:
		n = rapid.IntRange(16000, 16800).Draw(t, label)
	case c < 9:
		n = rapid.IntRange(100000, 200000).Draw(t, label)
	case c < 10:
		n = rapid.IntRange(2097152-70000, 2097152+300).Draw(t, label)
	default:
		n = rapid.IntRange(0, 300).Draw(t, label)
	}
	return fill(t, n, label)
}

// ID draws a non-zero packet identifier biased to the boundaries.
func ID(t *rapid.T, label string) uint16 {
	if rapid.IntRange(0, 3).Draw(t, label+"_c") == 0 {
		return rapid.SampledFrom([]uint16{1, 2, 127, 128, 255, 256, 32767, 32768, 65534, 65535}).Draw(t, label)
	}
	return rapid.Uint16Range(1, 65535).Draw(t, label)
}

// PacketOfType draws a well-formed packet of the given type inside the
// library's packet model (preconditions documented by Encode are respected).
func PacketOfType(t *rapid.T, typ byte) *refcodec.Packet {
	p := &refcodec.Packet{Type: typ}
	switch typ {
	case refcodec.CONNECT:
		p.Level = rapid.SampledFrom([]byte{4, 4, 4, 3}).Draw(t, "level")
		if p.Level == 3 {
			p.ProtoName = "MQIsdp"
		} else {
			p.ProtoName = "MQTT"
		}
		p.Clean = rapid.Bool().Draw(t, "clean")
		p.KeepAlive = rapid.Uint16().Draw(t, "keepalive")
		min := 1
		if p.Clean {
			min = 0
		}
		p.ClientID = Str(t, min, "client_id")
		if rapid.Bool().Draw(t, "has_will") {
			p.HasWill = true
			p.WillTopic = Str(t, 1, "will_topic")
			p.WillPayload = fill(t, Len(t, 0, 65535, "will_payload"), "will_payload")
			p.WillQoS = byte(rapid.IntRange(0, 2).Draw(t, "will_qos"))
			p.WillRetain = rapid.Bool().Draw(t, "will_retain")
		}
		if rapid.Bool().Draw(t, "has_user") {
			p.HasUser = true
			p.User = Str(t, 1, "user")
			if rapid.Bool().Draw(t, "has_pass") {
				p.HasPass = true
				p.Pass = Str(t, 1, "pass")
			}
		}
	case refcodec.CONNACK:
		p.SessionPresent = rapid.Bool().Draw(t, "sp")
		p.Code = byte(rapid.IntRange(0, 5).Draw(t, "code"))
	case refcodec.PUBLISH:
		p.QoS = byte(rapid.IntRange(0, 2).Draw(t, "qos"))
		p.Dup = rapid.Bool().Draw(t, "dup")
		p.Retain = rapid.Bool().Draw(t, "retain")
		p.Topic = Str(t, 1, "topic")
		if p.QoS > 0 {
			p.ID = ID(t, "id")
		}
		p.Payload = Payload(t, "payload")
	case refcodec.PUBACK, refcodec.PUBREC, refcodec.PUBREL, refcodec.PUBCOMP, refcodec.UNSUBACK:
		p.ID = ID(t, "id")
	case refcodec.SUBSCRIBE, refcodec.UNSUBSCRIBE:
		p.ID = ID(t, "id")
		n := listLen(t)
		// keep the total below the remaining length maximum and cheap
		budget := 400000
		for i := 0; i < n; i++ {
			var f string
			if n > 20 {
				f = string(fill(t, rapid.IntRange(0, 40).Draw(t, "flen"), "filter"))
			} else {
				f = Str(t, 0, "filter")
			}
			if budget-len(f) < 0 {
				f = "f"
			}
			budget -= len(f)
			p.Filters = append(p.Filters, f)
			if typ == refcodec.SUBSCRIBE {
				p.QoSs = append(p.QoSs, byte(rapid.IntRange(0, 2).Draw(t, "sqos")))
			}
		}
	case refcodec.SUBACK:
		p.ID = ID(t, "id")
		n := listLen(t)
		if rapid.IntRange(0, 9).Draw(t, "suback_big") == 0 {
			n = rapid.SampledFrom([]int{125, 126, 127, 16381, 16382, 16383}).Draw(t, "suback_n")
		}
		for i := 0; i < n; i++ {
			p.Codes = append(p.Codes, rapid.SampledFrom([]byte{0, 1, 2, 0x80}).Draw(t, "code"))
		}
	}
	return p
}

func listLen(t *rapid.T) int {
	switch rapid.IntRange(0, 5).Draw(t, "list_class") {
	case 0:
		return 1
	case 1:
		return rapid.IntRange(100, 300).Draw(t, "list_n")
	default:
		return rapid.IntRange(1, 8).Draw(t, "list_n")
	}
}

// Type draws one of the 14 packet types.
func Type(t *rapid.T) byte { return byte(rapid.IntRange(1, 14).Draw(t, "type")) }

// Packet draws a well-formed packet of any type.
func Packet(t *rapid.T) *refcodec.Packet { return PacketOfType(t, Type(t)) }

// SmallPacket draws a well-formed packet with short fields (for protocol
// level scenarios where size is not the point).
func SmallPacket(t *rapid.T, typ byte) *refcodec.Packet {
	p := &refcodec.Packet{Type: typ}
	short := func(min int, label string) string {
		return string(fill(t, rapid.IntRange(min, 6).Draw(t, label+"_n"), label))
	}
	switch typ {
	case refcodec.CONNECT:
		p.Level, p.ProtoName = 4, "MQTT"
		p.Clean = rapid.Bool().Draw(t, "clean")
		p.KeepAlive = rapid.Uint16().Draw(t, "keepalive")
		p.ClientID = short(1, "cid")
	case refcodec.CONNACK:
		p.SessionPresent = rapid.Bool().Draw(t, "sp")
		p.Code = byte(rapid.IntRange(0, 5).Draw(t, "code"))
	case refcodec.PUBLISH:
		p.QoS = byte(rapid.IntRange(0, 2).Draw(t, "qos"))
		p.Dup = rapid.Bool().Draw(t, "dup")
		p.Retain = rapid.Bool().Draw(t, "retain")
		p.Topic = short(1, "topic")
		if p.QoS > 0 {
			p.ID = ID(t, "id")
		}
		p.Payload = fill(t, rapid.IntRange(0, 20).Draw(t, "pl"), "payload")
	case refcodec.PUBACK, refcodec.PUBREC, refcodec.PUBREL, refcodec.PUBCOMP, refcodec.UNSUBACK:
		p.ID = ID(t, "id")
	case refcodec.SUBSCRIBE, refcodec.UNSUBSCRIBE:
		p.ID = ID(t, "id")
		n := rapid.IntRange(1, 4).Draw(t, "n")
		for i := 0; i < n; i++ {
			p.Filters = append(p.Filters, short(0, "filter"))
			if typ == refcodec.SUBSCRIBE {
				p.QoSs = append(p.QoSs, byte(rapid.IntRange(0, 2).Draw(t, "sqos")))
			}
		}
	case refcodec.SUBACK:
		p.ID = ID(t, "id")
		n := rapid.IntRange(1, 4).Draw(t, "n")
		for i := 0; i < n; i++ {
			p.Codes = append(p.Codes, rapid.SampledFrom([]byte{0, 1, 2, 0x80}).Draw(t, "code"))
		}
	}
	return p
}
