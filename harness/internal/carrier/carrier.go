// Package carrier provides an in-memory duplex byte stream implementing
// transport.Carrier, with a programmable re-chunker on the read side (how
// many bytes one Read may return), read deadlines, an operation log and
// deterministic fault injection. It is the controlled stand-in for a TCP
// connection in the framing (C03) and connection (C19) checks.
package carrier

import (
	"errors"
	"io"
	"os"
	"sync"
	"sync/atomic"
	"time"
)

// ErrInjected is returned by an injected fault.
var ErrInjected = errors.New("carrier: injected failure")

// ErrClosed is returned on a locally closed end.
var ErrClosed = errors.New("carrier: use of closed connection")

type queue struct {
	mu     sync.Mutex
	cond   *sync.Cond
	data   []byte
	closed bool // the writer is gone: drain, then EOF
}

func newQueue() *queue {
	q := &queue{}
	q.cond = sync.NewCond(&q.mu)
	return q
}

// Op is one recorded carrier operation.
type Op struct {
	Kind string // read write close deadline
	N    int
	Err  string
}

// End is one end of the duplex stream.
type End struct {
	Name string
	in   *queue
	out  *queue

	// Plan: the i-th Read returns at most Plan[i mod len] bytes (0 or nil = no limit).
	Plan []int
	reads int

	mu        sync.Mutex
	closed    bool
	deadline  time.Time
	ops       []Op
	opCount   int64
	failAt    int64 // the failAt-th operation (1-based over all kinds) fails
	// StallWrites, when non-nil, makes Write block until the channel is closed
	// or the end is closed (a peer that stopped reading).
	stall     chan struct{}
	closeCh   chan struct{}
	wrote     int64
}

// Pipe creates a connected pair.
func Pipe(a, b string) (*End, *End) {
	q1, q2 := newQueue(), newQueue()
	x := &End{Name: a, in: q1, out: q2, closeCh: make(chan struct{})}
	y := &End{Name: b, in: q2, out: q1, closeCh: make(chan struct{})}
	return x, y
}

// FailAt arms a fault: the n-th operation from now on fails (0 disarms).
func (e *End) FailAt(n int64) {
	if n == 0 {
		atomic.StoreInt64(&e.failAt, 0)
		return
	}
	atomic.StoreInt64(&e.failAt, atomic.LoadInt64(&e.opCount)+n)
}

// OpCount returns the number of operations so far.
func (e *End) OpCount() int64 { return atomic.LoadInt64(&e.opCount) }

// Ops returns a copy of the operation log.
func (e *End) Ops() []Op {
	e.mu.Lock()
	defer e.mu.Unlock()
	return append([]Op{}, e.ops...)
}

// Stall makes writes block; Unstall releases them.
func (e *End) Stall() {
	e.mu.Lock()
	e.stall = make(chan struct{})
	e.mu.Unlock()
}

// Unstall releases stalled writes.
func (e *End) Unstall() {
	e.mu.Lock()
	if e.stall != nil {
		close(e.stall)
		e.stall = nil
	}
	e.mu.Unlock()
}

func (e *End) record(kind string, n int, err error) {
	o := Op{Kind: kind, N: n}
	if err != nil {
		o.Err = err.Error()
	}
	e.mu.Lock()
	e.ops = append(e.ops, o)
	e.mu.Unlock()
}

func (e *End) hit() bool {
	n := atomic.AddInt64(&e.opCount, 1)
	return atomic.LoadInt64(&e.failAt) == n
}

// Read implements io.Reader.
func (e *End) Read(p []byte) (int, error) {
	if e.hit() {
		e.record("read", 0, ErrInjected)
		return 0, ErrInjected
	}
	e.mu.Lock()
	limit := 0
	if len(e.Plan) > 0 {
		limit = e.Plan[e.reads%len(e.Plan)]
	}
	e.reads++
	e.mu.Unlock()
	max := len(p)
	if limit > 0 && limit < max {
		max = limit
	}
	q := e.in
	q.mu.Lock()
	for {
		e.mu.Lock()
		closed, dl := e.closed, e.deadline
		e.mu.Unlock()
		if closed {
			q.mu.Unlock()
			e.record("read", 0, ErrClosed)
			return 0, ErrClosed
		}
		if len(q.data) > 0 {
			n := copy(p[:max], q.data)
			q.data = q.data[n:]
			q.mu.Unlock()
			e.record("read", n, nil)
			return n, nil
		}
		if q.closed {
			q.mu.Unlock()
			e.record("read", 0, io.EOF)
			return 0, io.EOF
		}
		if !dl.IsZero() {
			d := time.Until(dl)
			if d <= 0 {
				q.mu.Unlock()
				e.record("read", 0, os.ErrDeadlineExceeded)
				return 0, os.ErrDeadlineExceeded
			}
			t := time.AfterFunc(d, func() { q.mu.Lock(); q.cond.Broadcast(); q.mu.Unlock() })
			q.cond.Wait()
			t.Stop()
		} else {
			q.cond.Wait()
		}
	}
}

// Write implements io.Writer.
func (e *End) Write(p []byte) (int, error) {
	if e.hit() {
		e.record("write", 0, ErrInjected)
		return 0, ErrInjected
	}
	e.mu.Lock()
	closed, stall := e.closed, e.stall
	e.mu.Unlock()
	if closed {
		e.record("write", 0, ErrClosed)
		return 0, ErrClosed
	}
	if stall != nil {
		select {
		case <-stall:
		case <-e.closeCh:
			e.record("write", 0, ErrClosed)
			return 0, ErrClosed
		}
	}
	q := e.out
	q.mu.Lock()
	if q.closed {
		q.mu.Unlock()
		e.record("write", 0, io.ErrClosedPipe)
		return 0, io.ErrClosedPipe
	}
	q.data = append(q.data, p...)
	q.cond.Broadcast()
	q.mu.Unlock()
	atomic.AddInt64(&e.wrote, int64(len(p)))
	e.record("write", len(p), nil)
	return len(p), nil
}

// Close implements io.Closer.
func (e *End) Close() error {
	fail := e.hit()
	e.mu.Lock()
	already := e.closed
	e.closed = true
	e.mu.Unlock()
	if !already {
		close(e.closeCh)
		e.out.mu.Lock()
		e.out.closed = true
		e.out.cond.Broadcast()
		e.out.mu.Unlock()
		e.in.mu.Lock()
		e.in.cond.Broadcast()
		e.in.mu.Unlock()
	}
	if fail {
		e.record("close", 0, ErrInjected)
		return ErrInjected
	}
	e.record("close", 0, nil)
	return nil
}

// Closed reports whether Close was called on this end.
func (e *End) Closed() bool {
	e.mu.Lock()
	defer e.mu.Unlock()
	return e.closed
}

// SetReadDeadline implements transport.Carrier.
func (e *End) SetReadDeadline(t time.Time) error {
	if e.hit() {
		e.record("deadline", 0, ErrInjected)
		return ErrInjected
	}
	e.mu.Lock()
	e.deadline = t
	e.mu.Unlock()
	e.in.mu.Lock()
	e.in.cond.Broadcast()
	e.in.mu.Unlock()
	e.record("deadline", 0, nil)
	return nil
}

// WriteRaw writes bytes to the peer bypassing counters and faults (harness side).
func (e *End) WriteRaw(p []byte) {
	q := e.out
	q.mu.Lock()
	q.data = append(q.data, p...)
	q.cond.Broadcast()
	q.mu.Unlock()
}

// CloseWrite marks the outgoing direction as finished (peer drains, then EOF).
func (e *End) CloseWrite() {
	e.out.mu.Lock()
	e.out.closed = true
	e.out.cond.Broadcast()
	e.out.mu.Unlock()
}
