// Package bk assembles the real broker (Engine + MemoryBackend) behind a
// recording backend on in-memory connections.
package bk

import (
	"errors"
	"fmt"
	"regexp"
	"runtime"
	"sort"
	"strings"
	"sync"
	"time"

	"github.com/256dpi/gomqtt/broker"
	"github.com/256dpi/gomqtt/packet"

	"verif/internal/ev"
	"verif/internal/memconn"
	"verif/internal/peer"
)

// ErrHook is the error injected into backend hooks.
var ErrHook = errors.New("bk: injected backend failure")

// Call is one recorded backend hook call.
type Call struct {
	Seq    int64
	Hook   string
	Client *broker.Client
	ID     string
	Clean  bool
	Msg    *packet.Message
	Tag    string
	QoS    packet.QOS
	Retain bool
	Err    error
	Resumed bool
	Done   bool // exit record (false = entry record)
}

// RecBackend records every hook call and delegates to the memory backend.
type RecBackend struct {
	*broker.MemoryBackend
	EL  *memconn.Log

	mu      sync.Mutex
	calls   []Call
	clients []*broker.Client
	byConn  map[interface{}]*broker.Client

	// FailSkipPrefix: calls made for clients whose id has this prefix are
	// neither counted nor failed (keeps witnesses out of injected failures).
	FailSkipPrefix string
	// FailHook: name -> fail the n-th call (1-based) of that hook with ErrHook.
	FailHook map[string]int
	hookN    map[string]int

	// AckMode for Publish: "" sync (memory backend), "late" (ack withheld until
	// ReleaseAcks), "goroutine" (ack from another goroutine), "never".
	AckMode string
	// KeepAliveFor overrides the maximum keep alive of clients with the given
	// id (applied in Setup, as the Backend contract allows).
	KeepAliveFor map[string]time.Duration
	// AckOnlyClient, when set, restricts AckMode to publishes of that client id.
	AckOnlyClient string
	held          []broker.Ack

	// ack gate (HoldAck): the acknowledgement of the publish with this tag waits
	// inside the backend - the memory backend acknowledges while it holds its
	// global mutex, so every other backend call queues up behind it
	gateTag     string
	gateEntered chan struct{}
	gate        chan struct{}

	// terminate gate (HoldTerminate): Terminate of the client with this id waits
	// before it reaches the memory backend - the client is dying, yet still the
	// active client of its session
	termID      string
	termEntered chan struct{}
	termGate    chan struct{}
}

// HoldTerminate arms the terminate gate for the next Terminate of client id.
// entered is closed when that call has arrived; release lets it proceed. The
// gate opens by itself after 3 ceilings. (A Backend may take any time to
// terminate a client; the gate only widens a window that exists anyway.)
func (r *RecBackend) HoldTerminate(id string) (entered <-chan struct{}, release func()) {
	r.mu.Lock()
	defer r.mu.Unlock()
	r.termID, r.termEntered, r.termGate = id, make(chan struct{}), make(chan struct{})
	g := r.termGate
	var once sync.Once
	return r.termEntered, func() { once.Do(func() { close(g) }) }
}

// HoldAck arms the ack gate for the publish whose payload tag is tag. entered
// is closed once that publish is being acknowledged (the backend is busy from
// then on); release lets it go on. The gate opens by itself after 3 ceilings.
func (r *RecBackend) HoldAck(tag string) (entered <-chan struct{}, release func()) {
	r.mu.Lock()
	defer r.mu.Unlock()
	r.gateTag, r.gateEntered, r.gate = tag, make(chan struct{}), make(chan struct{})
	g := r.gate
	var once sync.Once
	return r.gateEntered, func() { once.Do(func() { close(g) }) }
}

func (r *RecBackend) rec(c Call) {
	r.mu.Lock()
	r.calls = append(r.calls, c)
	r.mu.Unlock()
}

func (r *RecBackend) fail(hook string, c *broker.Client) bool {
	r.mu.Lock()
	defer r.mu.Unlock()
	if r.FailSkipPrefix != "" && c != nil && strings.HasPrefix(c.ID(), r.FailSkipPrefix) {
		return false
	}
	if r.hookN == nil {
		r.hookN = map[string]int{}
	}
	r.hookN[hook]++
	if r.FailHook == nil {
		return false
	}
	return r.FailHook[hook] == r.hookN[hook]
}

// FailNext makes the next call of the hook fail with ErrHook.
func (r *RecBackend) FailNext(hook string) {
	r.mu.Lock()
	defer r.mu.Unlock()
	if r.FailHook == nil {
		r.FailHook = map[string]int{}
	}
	if r.hookN == nil {
		r.hookN = map[string]int{}
	}
	r.FailHook[hook] = r.hookN[hook] + 1
}

// HookCount returns how often a hook was entered.
func (r *RecBackend) HookCount(hook string) int {
	r.mu.Lock()
	defer r.mu.Unlock()
	n := 0
	for _, c := range r.calls {
		if c.Hook == hook && !c.Done {
			n++
		}
	}
	return n
}

// Calls returns a copy of the recorded calls.
func (r *RecBackend) Calls() []Call {
	r.mu.Lock()
	defer r.mu.Unlock()
	return append([]Call{}, r.calls...)
}

// Clients returns every client seen (NewConnection log event).
func (r *RecBackend) Clients() []*broker.Client {
	r.mu.Lock()
	defer r.mu.Unlock()
	return append([]*broker.Client{}, r.clients...)
}

// ClientOf returns the broker client serving the given broker-side conn.
func (r *RecBackend) ClientOf(conn interface{}) *broker.Client {
	r.mu.Lock()
	defer r.mu.Unlock()
	return r.byConn[conn]
}

// SetAckMode changes the ack mode (safe while the broker runs).
func (r *RecBackend) SetAckMode(m string) {
	r.mu.Lock()
	r.AckMode = m
	r.mu.Unlock()
}

// SetAckModeFor changes the ack mode for publishes of one client id only.
func (r *RecBackend) SetAckModeFor(m, id string) {
	r.mu.Lock()
	r.AckMode, r.AckOnlyClient = m, id
	r.mu.Unlock()
}

// ReleaseAcks calls every withheld ack.
func (r *RecBackend) ReleaseAcks() {
	r.mu.Lock()
	h := r.held
	r.held = nil
	r.mu.Unlock()
	for _, a := range h {
		a()
	}
}

func tag(m *packet.Message) string {
	if m == nil {
		return ""
	}
	s := string(m.Payload)
	if len(s) > 24 {
		s = s[:24]
	}
	return s
}

// Authenticate hook.
func (r *RecBackend) Authenticate(c *broker.Client, user, password string) (bool, error) {
	seq := r.EL.Add(memconn.Event{Actor: "backend", Op: "Authenticate", Note: c.ID()})
	r.rec(Call{Seq: seq, Hook: "Authenticate", Client: c, ID: c.ID()})
	if r.fail("Authenticate", c) {
		return false, ErrHook
	}
	return r.MemoryBackend.Authenticate(c, user, password)
}

// Setup hook.
func (r *RecBackend) Setup(c *broker.Client, id string, clean bool) (broker.Session, bool, error) {
	seq := r.EL.Add(memconn.Event{Actor: "backend", Op: "Setup", Note: fmt.Sprintf("%s clean=%v", id, clean)})
	r.rec(Call{Seq: seq, Hook: "Setup", Client: c, ID: id, Clean: clean})
	if r.fail("Setup", c) {
		return nil, false, ErrHook
	}
	s, resumed, err := r.MemoryBackend.Setup(c, id, clean)
	if d, ok := r.KeepAliveFor[id]; ok && err == nil {
		c.MaximumKeepAlive = d
	}
	seq = r.EL.Add(memconn.Event{Actor: "backend", Op: "Setup-return", Note: fmt.Sprintf("%s resumed=%v err=%v", id, resumed, err)})
	r.rec(Call{Seq: seq, Hook: "Setup", Client: c, ID: id, Clean: clean, Err: err, Resumed: resumed, Done: true})
	return s, resumed, err
}

// Restore hook.
func (r *RecBackend) Restore(c *broker.Client) error {
	seq := r.EL.Add(memconn.Event{Actor: "backend", Op: "Restore", Note: c.ID()})
	r.rec(Call{Seq: seq, Hook: "Restore", Client: c, ID: c.ID()})
	if r.fail("Restore", c) {
		return ErrHook
	}
	return r.MemoryBackend.Restore(c)
}

// Subscribe hook.
func (r *RecBackend) Subscribe(c *broker.Client, subs []packet.Subscription, ack broker.Ack) error {
	seq := r.EL.Add(memconn.Event{Actor: "backend", Op: "Subscribe", Note: fmt.Sprint(c.ID(), subs)})
	r.rec(Call{Seq: seq, Hook: "Subscribe", Client: c, ID: c.ID()})
	if r.fail("Subscribe", c) {
		return ErrHook
	}
	return r.MemoryBackend.Subscribe(c, subs, ack)
}

// Unsubscribe hook.
func (r *RecBackend) Unsubscribe(c *broker.Client, topics []string, ack broker.Ack) error {
	seq := r.EL.Add(memconn.Event{Actor: "backend", Op: "Unsubscribe", Note: fmt.Sprint(c.ID(), topics)})
	r.rec(Call{Seq: seq, Hook: "Unsubscribe", Client: c, ID: c.ID()})
	if r.fail("Unsubscribe", c) {
		return ErrHook
	}
	return r.MemoryBackend.Unsubscribe(c, topics, ack)
}

// Publish hook.
func (r *RecBackend) Publish(c *broker.Client, msg *packet.Message, ack broker.Ack) error {
	seq := r.EL.Add(memconn.Event{Actor: "backend", Op: "Publish", Topic: msg.Topic, Tag: tag(msg), QoS: int(msg.QOS), Ret: msg.Retain, Note: c.ID()})
	r.rec(Call{Seq: seq, Hook: "Publish", Client: c, ID: c.ID(), Msg: msg.Copy(), Tag: tag(msg), QoS: msg.QOS, Retain: msg.Retain})
	if r.fail("Publish", c) {
		return ErrHook
	}
	wrapped := ack
	if ack != nil {
		logged := func() {
			// "ack" marks the moment the backend starts to acknowledge (an
			// acknowledgement packet can only follow it), "ack-done" the moment the
			// broker's acknowledgement callback has returned (the broker knows)
			r.EL.Add(memconn.Event{Actor: "backend", Op: "ack", Topic: msg.Topic, Tag: tag(msg), Note: c.ID()})
			r.mu.Lock()
			gated := r.gateTag != "" && r.gateTag == tag(msg)
			entered, gate := r.gateEntered, r.gate
			if gated {
				r.gateTag = ""
			}
			r.mu.Unlock()
			if gated {
				r.EL.Add(memconn.Event{Actor: "backend", Op: "busy", Tag: tag(msg), Note: "the backend is held inside this acknowledgement"})
				close(entered)
				select {
				case <-gate:
				case <-time.After(3 * ev.Ceiling()):
				}
				r.EL.Add(memconn.Event{Actor: "backend", Op: "busy-end", Tag: tag(msg)})
			}
			ack()
			r.EL.Add(memconn.Event{Actor: "backend", Op: "ack-done", Topic: msg.Topic, Tag: tag(msg), Note: c.ID()})
		}
		r.mu.Lock()
		mode := r.AckMode
		if r.AckOnlyClient != "" && r.AckOnlyClient != c.ID() {
			mode = ""
		}
		r.mu.Unlock()
		switch mode {
		case "late":
			wrapped = func() {
				r.mu.Lock()
				r.held = append(r.held, logged)
				r.mu.Unlock()
			}
		case "goroutine":
			wrapped = func() { go logged() }
		case "never":
			wrapped = func() {}
		default:
			wrapped = logged
		}
	}
	err := r.MemoryBackend.Publish(c, msg, wrapped)
	seq = r.EL.Add(memconn.Event{Actor: "backend", Op: "Publish-return", Topic: msg.Topic, Tag: tag(msg), Note: fmt.Sprintf("%s err=%v", c.ID(), err)})
	r.rec(Call{Seq: seq, Hook: "Publish", Client: c, ID: c.ID(), Tag: tag(msg), Err: err, Done: true})
	return err
}

// Dequeue hook.
func (r *RecBackend) Dequeue(c *broker.Client) (*packet.Message, broker.Ack, error) {
	if r.fail("Dequeue", c) {
		return nil, nil, ErrHook
	}
	return r.MemoryBackend.Dequeue(c)
}

// Terminate hook.
func (r *RecBackend) Terminate(c *broker.Client) error {
	seq := r.EL.Add(memconn.Event{Actor: "backend", Op: "Terminate", Note: c.ID()})
	r.rec(Call{Seq: seq, Hook: "Terminate", Client: c, ID: c.ID()})
	r.mu.Lock()
	gated := r.termID != "" && r.termID == c.ID()
	tEntered, tGate := r.termEntered, r.termGate
	if gated {
		r.termID = ""
	}
	r.mu.Unlock()
	if gated {
		r.EL.Add(memconn.Event{Actor: "backend", Op: "Terminate-held", Note: c.ID()})
		close(tEntered)
		select {
		case <-tGate:
		case <-time.After(3 * ev.Ceiling()):
		}
	}
	if r.fail("Terminate", c) {
		// the memory backend must still learn about it, otherwise the session stays taken
		_ = r.MemoryBackend.Terminate(c)
		return ErrHook
	}
	err := r.MemoryBackend.Terminate(c)
	seq = r.EL.Add(memconn.Event{Actor: "backend", Op: "Terminate-return", Note: c.ID()})
	r.rec(Call{Seq: seq, Hook: "Terminate", Client: c, ID: c.ID(), Err: err, Done: true})
	return err
}

// Log hook.
func (r *RecBackend) Log(e broker.LogEvent, c *broker.Client, p packet.Generic, m *packet.Message, err error) {
	if e == broker.NewConnection {
		r.mu.Lock()
		r.clients = append(r.clients, c)
		if r.byConn == nil {
			r.byConn = map[interface{}]*broker.Client{}
		}
		r.byConn[c.Conn()] = c
		r.mu.Unlock()
	}
	switch e {
	case broker.TransportError, broker.SessionError, broker.BackendError, broker.ClientError:
		r.EL.Add(memconn.Event{Actor: "broker", Op: "log:" + string(e), Note: fmt.Sprintf("%s: %v", c.ID(), err)})
	}
}

// Broker is the assembled system under test.
type Broker struct {
	Mem    *broker.MemoryBackend
	Rec    *RecBackend
	Engine *broker.Engine
	Log    *memconn.Log
	n      int
	mu     sync.Mutex
}

// New assembles a broker. tweak may adjust the memory backend and engine.
func New(tweak func(*broker.MemoryBackend, *broker.Engine)) *Broker {
	log := memconn.NewLog()
	mem := broker.NewMemoryBackend()
	mem.ClientTokenTimeout = ev.Ceiling() * 3
	rec := &RecBackend{MemoryBackend: mem, EL: log}
	eng := broker.NewEngine(rec)
	eng.ConnectTimeout = ev.Ceiling() * 3
	if tweak != nil {
		tweak(mem, eng)
	}
	return &Broker{Mem: mem, Rec: rec, Engine: eng, Log: log}
}

// Dial creates a connection handled by the engine and returns the harness
// end and the broker end.
func (b *Broker) Dial(name string) (*peer.Peer, *memconn.Conn) {
	b.mu.Lock()
	b.n++
	n := b.n
	b.mu.Unlock()
	brokerEnd, peerEnd := memconn.Pair(fmt.Sprintf("broker<%s#%d>", name, n), fmt.Sprintf("%s#%d", name, n), b.Log)
	b.Engine.Handle(brokerEnd)
	return peer.New(name, peerEnd), brokerEnd
}

// DialPlan is Dial with a fault plan on the broker end (set before Handle).
// prep (may be nil) can install further hooks on the broker end.
func (b *Broker) DialPlan(name string, failAt int64, after bool, prep func(*memconn.Conn)) (*peer.Peer, *memconn.Conn) {
	b.mu.Lock()
	b.n++
	n := b.n
	b.mu.Unlock()
	brokerEnd, peerEnd := memconn.Pair(fmt.Sprintf("broker<%s#%d>", name, n), fmt.Sprintf("%s#%d", name, n), b.Log)
	if failAt > 0 {
		brokerEnd.FailAt, brokerEnd.FailAfter = failAt, after
	}
	if prep != nil {
		prep(brokerEnd)
	}
	b.Engine.Handle(brokerEnd)
	return peer.New(name, peerEnd), brokerEnd
}

// WaitClosed waits until the broker client serving conn has fully terminated
// (Closed() fired, i.e. will published and Terminate done).
func (b *Broker) WaitClosed(conn *memconn.Conn) bool {
	deadline := time.Now().Add(ev.Ceiling())
	for {
		if c := b.Rec.ClientOf(conn); c != nil {
			select {
			case <-c.Closed():
				return true
			case <-time.After(time.Until(deadline)):
				return false
			}
		}
		if time.Now().After(deadline) {
			return false
		}
		time.Sleep(50 * time.Microsecond)
	}
}

// Shutdown closes every client and waits for them. It never blocks for longer
// than about two ceilings, also when the backend under test is deadlocked.
func (b *Broker) Shutdown() bool {
	done := make(chan bool, 1)
	go func() { done <- b.Mem.Close(ev.Ceiling()) }()
	ok := false
	select {
	case ok = <-done:
	case <-time.After(ev.Ceiling() + time.Second):
	}
	for _, c := range b.Rec.Clients() {
		c.Close()
	}
	deadline := time.After(ev.Ceiling())
	for _, c := range b.Rec.Clients() {
		select {
		case <-c.Closed():
		case <-deadline:
			return false
		}
	}
	return ok
}

var libFrame = regexp.MustCompile(`github\.com/256dpi/gomqtt/(broker|client|transport|packet|session|topic)`)

// LibGoroutines returns the stacks of goroutines that are executing library
// code (used for the leak census).
func LibGoroutines() []string {
	buf := make([]byte, 1<<20)
	for {
		n := runtime.Stack(buf, true)
		if n < len(buf) {
			buf = buf[:n]
			break
		}
		buf = make([]byte, 2*len(buf))
	}
	var out []string
	for _, g := range strings.Split(string(buf), "\n\n") {
		if libFrame.MatchString(g) {
			out = append(out, g)
		}
	}
	sort.Strings(out)
	return out
}

// WaitNoLibGoroutines polls until no goroutine runs library code (beyond the
// baseline count) or the ceiling expires; it returns the leftover stacks.
func WaitNoLibGoroutines(baseline int, ceiling time.Duration) []string {
	deadline := time.Now().Add(ceiling)
	for {
		gs := LibGoroutines()
		if len(gs) <= baseline || time.Now().After(deadline) {
			if len(gs) <= baseline {
				return nil
			}
			return gs
		}
		time.Sleep(200 * time.Microsecond)
	}
}
