// Package reftopic is an independent reference implementation of MQTT 3.1.1
// section 4.7 topic matching and a plain map model of a topic tree. It does
// not import the library.
package reftopic

import (
	"sort"
	"strings"
)

// Levels splits a topic name or filter into its levels.
func Levels(s string) []string { return strings.Split(s, "/") }

// Match reports whether filter matches name under MQTT 3.1.1 section 4.7:
// '+' stands for exactly one level (which may be empty), a trailing '#' for
// zero or more levels including the parent level, comparison is byte exact,
// empty levels and a leading separator are significant.
func Match(filter, name string) bool {
	return matchLevels(Levels(filter), Levels(name))
}

func matchLevels(f, n []string) bool {
	for i, fl := range f {
		if fl == "#" && i == len(f)-1 {
			// matches the parent level (i == len(n)) and everything below
			return len(n) >= i
		}
		if i >= len(n) {
			return false
		}
		if fl == "+" {
			continue
		}
		if fl != n[i] {
			return false
		}
	}
	return len(f) == len(n)
}

// ValidFilter reports whether s is a syntactically valid topic filter.
func ValidFilter(s string) bool {
	if s == "" || strings.ContainsRune(s, 0) {
		return false
	}
	ls := Levels(s)
	for i, l := range ls {
		if strings.ContainsAny(l, "+#") && len(l) > 1 {
			return false
		}
		if l == "#" && i != len(ls)-1 {
			return false
		}
	}
	return true
}

// ValidName reports whether s is a valid topic name.
func ValidName(s string) bool {
	return s != "" && !strings.ContainsAny(s, "+#\x00")
}

// Model is the map model of a topic tree: topic -> duplicate-free value list.
type Model map[string][]int

// Clone copies the model.
func (m Model) Clone() Model {
	c := Model{}
	for k, v := range m {
		c[k] = append([]int(nil), v...)
	}
	return c
}

func has(l []int, v int) bool {
	for _, x := range l {
		if x == v {
			return true
		}
	}
	return false
}

// Add adds v under t unless present.
func (m Model) Add(t string, v int) {
	if !has(m[t], v) {
		m[t] = append(m[t], v)
	}
}

// Set makes v the only value under t.
func (m Model) Set(t string, v int) { m[t] = []int{v} }

// Remove removes v from t.
func (m Model) Remove(t string, v int) {
	var out []int
	for _, x := range m[t] {
		if x != v {
			out = append(out, x)
		}
	}
	if len(out) == 0 {
		delete(m, t)
	} else {
		m[t] = out
	}
}

// Empty removes every value of t.
func (m Model) Empty(t string) { delete(m, t) }

// Clear removes v everywhere.
func (m Model) Clear(v int) {
	for t := range m {
		m.Remove(t, v)
	}
}

// Reset empties the model.
func (m Model) Reset() {
	for t := range m {
		delete(m, t)
	}
}

// Get returns the sorted values of t.
func (m Model) Get(t string) []int { return Sorted(m[t]) }

// MatchName returns the sorted set of values stored under filters matching name.
func (m Model) MatchName(name string) []int {
	set := map[int]bool{}
	for f, vs := range m {
		if Match(f, name) {
			for _, v := range vs {
				set[v] = true
			}
		}
	}
	return keys(set)
}

// SearchFilter returns the sorted set of values stored under names matched by filter.
func (m Model) SearchFilter(filter string) []int {
	set := map[int]bool{}
	for n, vs := range m {
		if Match(filter, n) {
			for _, v := range vs {
				set[v] = true
			}
		}
	}
	return keys(set)
}

// All returns the sorted set of all values.
func (m Model) All() []int {
	set := map[int]bool{}
	for _, vs := range m {
		for _, v := range vs {
			set[v] = true
		}
	}
	return keys(set)
}

// Count returns the number of stored (topic, value) pairs.
func (m Model) Count() int {
	n := 0
	for _, vs := range m {
		n += len(vs)
	}
	return n
}

func keys(set map[int]bool) []int {
	out := make([]int, 0, len(set))
	for k := range set {
		out = append(out, k)
	}
	sort.Ints(out)
	return out
}

// Sorted returns a sorted copy.
func Sorted(l []int) []int {
	out := append([]int{}, l...)
	sort.Ints(out)
	return out
}
