// Package ev is the evidence / verdict plumbing shared by all checks.
//
// A check creates one Run, counts what it executes (Eval), registers the
// non-trivial cases it saw (NonTrivial, hashed so that "distinct" is measured),
// classifies cases (Class), records violations (Violation) and finally calls
// Finish, which writes /verif/evidence/<id>.json, prints the VIOLATION /
// KNOWN-FINDING lines and fails the test when an unlisted violation exists.
package ev

import (
	"bufio"
	"encoding/binary"
	"encoding/json"
	"flag"
	"fmt"
	"hash/fnv"
	"os"
	"path/filepath"
	"sort"
	"strconv"
	"strings"
	"sync"
	"testing"
	"time"

	"pgregory.net/rapid"
)

// Root is the verification root directory.
func Root() string {
	if r := os.Getenv("VERIF_ROOT"); r != "" {
		return r
	}
	return "/verif"
}

// Tier returns "quick" or "thorough".
func Tier() string {
	if os.Getenv("VERIF_TIER") == "thorough" {
		return "thorough"
	}
	return "quick"
}

// Thorough reports whether the thorough tier is running.
func Thorough() bool { return Tier() == "thorough" }

// Seed returns VERIF_SEED (default 1).
func Seed() int64 {
	s, err := strconv.ParseInt(os.Getenv("VERIF_SEED"), 10, 64)
	if err != nil {
		return 1
	}
	return s
}

// Shard returns (index, count) of the process level sharding.
func Shard() (int, int) {
	i, _ := strconv.Atoi(os.Getenv("VERIF_SHARD"))
	n, _ := strconv.Atoi(os.Getenv("VERIF_SHARDS"))
	if n <= 0 {
		n = 1
	}
	if i < 0 || i >= n {
		i = 0
	}
	return i, n
}

// Slow returns the ceiling multiplier (VERIF_SLOW, default 1).
func Slow() time.Duration {
	n, _ := strconv.Atoi(os.Getenv("VERIF_SLOW"))
	if n <= 0 {
		n = 1
	}
	return time.Duration(n)
}

// Ceiling is the default liveness ceiling.
func Ceiling() time.Duration { return 10 * time.Second * Slow() }

// Pick returns q in the quick tier and th in the thorough tier, the latter
// divided over the shards.
func Pick(q, th int) int {
	if !Thorough() {
		return q
	}
	_, n := Shard()
	v := th / n
	if v < 1 {
		v = 1
	}
	return v
}

type finding struct {
	status, prop, sig, what string
}

// Violation is one recorded violation.
type Violation struct {
	Signature string      `json:"signature"`
	Message   string      `json:"message"`
	Replay    string      `json:"replay,omitempty"`
	Case      interface{} `json:"-"`
}

// Run collects evidence for one execution of one check.
type Run struct {
	Prop  string
	Level string
	// ShrinkTime overrides rapid's minimisation budget (default 20s). Checks
	// whose failing runs are expensive (liveness ceilings) use a small value.
	ShrinkTime string

	mu          sync.Mutex
	start       time.Time
	evals       int64
	distinct    map[uint64]struct{}
	classes     map[string]int64
	firstSample []interface{}
	lateSample  []interface{}
	nSampled    int64
	rule        string
	assumptions []string
	exhaustive  []string
	extra       map[string]interface{}
	violations  []*Violation
	seenSig     map[string]int
	known       []finding
	knownHit    map[string]int64
	excluded    int64
	inconcl     int64
	candidate   *Violation
}

// Start creates a Run.
func Start(prop, level string) *Run {
	r := &Run{
		Prop: prop, Level: level,
		start:    time.Now(),
		distinct: map[uint64]struct{}{},
		classes:  map[string]int64{},
		extra:    map[string]interface{}{},
		seenSig:  map[string]int{},
		knownHit: map[string]int64{},
	}
	r.loadKnown()
	return r
}

func (r *Run) loadKnown() {
	f, err := os.Open(filepath.Join(Root(), "KNOWN_FINDINGS.txt"))
	if err != nil {
		return
	}
	defer f.Close()
	sc := bufio.NewScanner(f)
	for sc.Scan() {
		line := strings.TrimSpace(sc.Text())
		if line == "" || strings.HasPrefix(line, "#") {
			continue
		}
		var fd finding
		switch {
		case strings.HasPrefix(line, "open:"):
			fd.status = "open"
		case strings.HasPrefix(line, "fixed:"):
			fd.status = "fixed"
		default:
			continue
		}
		rest := []string{}
		for _, w := range strings.Fields(line)[1:] {
			switch {
			case strings.HasPrefix(w, "property="):
				fd.prop = strings.TrimPrefix(w, "property=")
			case strings.HasPrefix(w, "sig="):
				fd.sig = strings.TrimPrefix(w, "sig=")
			default:
				rest = append(rest, w)
			}
		}
		fd.what = strings.Join(rest, " ")
		r.known = append(r.known, fd)
	}
}

// Open reports whether sig is listed as an open (recorded, unrepaired) finding
// for this property. Checks use it to exclude the finding by construction so
// the search continues; every such exclusion must be counted with Excluded.
func (r *Run) Open(sig string) bool {
	for _, k := range r.known {
		if k.status == "open" && k.prop == r.Prop && k.sig == sig {
			return true
		}
	}
	return false
}

// Excluded counts one case that hit an open finding and was excluded.
func (r *Run) Excluded(sig string) {
	r.mu.Lock()
	r.knownHit[sig]++
	r.excluded++
	r.mu.Unlock()
}

// Rule sets the generation / non-triviality rule text.
func (r *Run) Rule(s string) { r.rule = s }

// Assume records an assumption.
func (r *Run) Assume(s ...string) { r.assumptions = append(r.assumptions, s...) }

// Exhaustive records a sub-space that was enumerated completely.
func (r *Run) Exhaustive(s string) {
	r.mu.Lock()
	r.exhaustive = append(r.exhaustive, s)
	r.mu.Unlock()
}

// Set stores an extra coverage key.
func (r *Run) Set(k string, v interface{}) {
	r.mu.Lock()
	r.extra[k] = v
	r.mu.Unlock()
}

// Eval counts n executed cases.
func (r *Run) Eval(n int) {
	r.mu.Lock()
	r.evals += int64(n)
	r.mu.Unlock()
}

// Inconclusive counts a case whose verdict could not be established.
func (r *Run) Inconclusive() {
	r.mu.Lock()
	r.inconcl++
	r.mu.Unlock()
}

// Class increments a class counter.
func (r *Run) Class(name string) { r.ClassN(name, 1) }

// ClassN adds n to a class counter.
func (r *Run) ClassN(name string, n int) {
	r.mu.Lock()
	r.classes[name] += int64(n)
	r.mu.Unlock()
}

// Hash hashes a canonical description of a case.
func Hash(parts ...interface{}) uint64 {
	h := fnv.New64a()
	for _, p := range parts {
		switch v := p.(type) {
		case []byte:
			var l [8]byte
			binary.LittleEndian.PutUint64(l[:], uint64(len(v)))
			h.Write(l[:])
			h.Write(v)
		case string:
			var l [8]byte
			binary.LittleEndian.PutUint64(l[:], uint64(len(v)))
			h.Write(l[:])
			h.Write([]byte(v))
		default:
			fmt.Fprintf(h, "%v|", v)
		}
	}
	return h.Sum64()
}

// NonTrivial registers a non-trivial case by its hash; sample (may be nil) is
// called lazily only when the case is kept as a sample.
func (r *Run) NonTrivial(h uint64, sample func() interface{}) {
	r.mu.Lock()
	defer r.mu.Unlock()
	if _, ok := r.distinct[h]; ok {
		return
	}
	r.distinct[h] = struct{}{}
	if sample == nil {
		return
	}
	r.nSampled++
	if len(r.firstSample) < 4 {
		r.firstSample = append(r.firstSample, sample())
		return
	}
	// deterministic sparse sampling of later cases: keep those whose hash is
	// the smallest seen so far (at most 6)
	if len(r.lateSample) < 6 && h%97 == 0 {
		r.lateSample = append(r.lateSample, sample())
	}
}

// NonTrivialJSON registers a case that is JSON-serialisable (hash = its JSON).
func (r *Run) NonTrivialJSON(c interface{}) {
	b, _ := json.Marshal(c)
	r.NonTrivial(Hash(b), func() interface{} { return json.RawMessage(b) })
}

// Candidate records a failing case observed inside a rapid property. rapid
// re-runs the property while shrinking; the last candidate recorded belongs
// to the minimal case. It is promoted to a violation by Rapid().
func (r *Run) Candidate(sig, msg string, c interface{}) {
	r.mu.Lock()
	r.candidate = &Violation{Signature: sig, Message: msg, Case: c}
	r.mu.Unlock()
}

// Violation records a violation. sig is a stable signature of the root cause
// computed from the (shrunk) case; c is written to the replay file.
func (r *Run) Violation(sig, msg string, c interface{}) {
	r.mu.Lock()
	defer r.mu.Unlock()
	r.seenSig[sig]++
	if r.seenSig[sig] > 1 {
		return // one replay per signature per run
	}
	r.violations = append(r.violations, &Violation{Signature: sig, Message: msg, Case: c})
}

// Violations returns the number of recorded violations (distinct signatures).
func (r *Run) Violations() int {
	r.mu.Lock()
	defer r.mu.Unlock()
	return len(r.violations)
}

// RapidSeed derives the rapid PRNG seed (never 0) for a named sub-check.
func RapidSeed(name string) uint64 {
	i, _ := Shard()
	s := uint64(Seed())*7919 + uint64(i)*104729 + Hash(name)%1000003
	return 1 + s%2147483646
}

// Rapid runs a rapid property as a sub-test with the tier's case count and
// the derived seed. When it fails, the last Candidate is promoted to a
// violation (or a generic one is synthesised). Returns true when it passed.
func (r *Run) Rapid(t *testing.T, name string, checks int, prop func(*rapid.T)) bool {
	_ = flag.Set("rapid.checks", strconv.Itoa(checks))
	_ = flag.Set("rapid.seed", strconv.FormatUint(RapidSeed(r.Prop+"/"+name), 10))
	_ = flag.Set("rapid.nofailfile", "true")
	if os.Getenv("VERIF_SHRINKTIME") != "" {
		_ = flag.Set("rapid.shrinktime", os.Getenv("VERIF_SHRINKTIME"))
	} else if r.ShrinkTime != "" {
		_ = flag.Set("rapid.shrinktime", r.ShrinkTime)
	} else {
		_ = flag.Set("rapid.shrinktime", "20s")
	}
	r.mu.Lock()
	r.candidate = nil
	r.mu.Unlock()
	ok := t.Run(name, func(t *testing.T) { rapid.Check(t, prop) })
	if !ok {
		r.mu.Lock()
		c := r.candidate
		r.candidate = nil
		r.mu.Unlock()
		if c == nil {
			c = &Violation{Signature: name + "/unclassified", Message: "rapid property " + name + " failed without a recorded case (panic or harness failure); see test output"}
		}
		r.Violation(c.Signature, c.Message, c.Case)
	}
	return ok
}

type replayFile struct {
	Property  string      `json:"property"`
	Signature string      `json:"signature"`
	Message   string      `json:"message"`
	Tier      string      `json:"tier"`
	Seed      int64       `json:"seed"`
	Case      interface{} `json:"case"`
}

// Finish writes the evidence file, prints verdict lines and fails t when an
// unlisted violation was recorded.
func (r *Run) Finish(t *testing.T) {
	r.mu.Lock()
	defer r.mu.Unlock()

	shard, shards := Shard()
	root := Root()
	_ = os.MkdirAll(filepath.Join(root, "replays"), 0o755)
	_ = os.MkdirAll(filepath.Join(root, "evidence"), 0o755)

	unlisted := 0
	for i, v := range r.violations {
		listed := false
		for _, k := range r.known {
			if k.status == "open" && k.prop == r.Prop && k.sig == v.Signature {
				listed = true
				fmt.Printf("KNOWN-FINDING: property=%s sig=%s %s\n", r.Prop, k.sig, k.what)
			}
		}
		if listed {
			continue
		}
		unlisted++
		path := filepath.Join(root, "replays", fmt.Sprintf("%s-%s-%d-%d-%d.json", r.Prop, Tier(), Seed(), shard, i))
		b, _ := json.MarshalIndent(replayFile{r.Prop, v.Signature, v.Message, Tier(), Seed(), v.Case}, "", " ")
		_ = os.WriteFile(path, b, 0o644)
		v.Replay = path
		fmt.Printf("VIOLATION property=%s replay=%s\n", r.Prop, path)
		fmt.Printf("  signature: %s\n  %s\n", v.Signature, strings.ReplaceAll(v.Message, "\n", "\n  "))
	}
	// open findings hit through exclusion-by-construction
	sigs := make([]string, 0, len(r.knownHit))
	for s := range r.knownHit {
		sigs = append(sigs, s)
	}
	sort.Strings(sigs)
	for _, s := range sigs {
		for _, k := range r.known {
			if k.status == "open" && k.prop == r.Prop && k.sig == s {
				fmt.Printf("KNOWN-FINDING: property=%s sig=%s %s (excluded %d cases)\n", r.Prop, s, k.what, r.knownHit[s])
			}
		}
	}

	samples := append(append([]interface{}{}, r.firstSample...), r.lateSample...)
	if len(samples) == 0 {
		for _, v := range r.violations {
			if v.Case != nil {
				samples = append(samples, v.Case)
			}
		}
	}
	if len(samples) == 0 {
		samples = append(samples, "no non-trivial case was completed in this run (it ended early)")
	}
	cov := map[string]interface{}{
		"evaluations":         r.evals,
		"distinct_nontrivial": len(r.distinct),
		"rule":                r.rule,
		"samples":             samples,
		"classes":             r.classes,
	}
	if len(r.exhaustive) > 0 {
		cov["exhaustive_subspaces"] = r.exhaustive
	}
	if r.excluded > 0 {
		cov["excluded_known_finding_cases"] = r.knownHit
	}
	if r.inconcl > 0 {
		cov["inconclusive"] = r.inconcl
	}
	for k, v := range r.extra {
		cov[k] = v
	}
	vs := []map[string]string{}
	for _, v := range r.violations {
		vs = append(vs, map[string]string{"signature": v.Signature, "message": v.Message, "replay": v.Replay})
	}
	if len(vs) > 0 {
		cov["violation_details"] = vs
	}
	doc := map[string]interface{}{
		"property_id": r.Prop,
		"tier":        Tier(),
		"seed":        Seed(),
		"level":       r.Level,
		"coverage":    cov,
		"assumptions": r.assumptions,
		"wall_s":      time.Since(r.start).Seconds(),
		"violations":  unlisted,
	}
	name := r.Prop + ".json"
	if shards > 1 {
		name = fmt.Sprintf("%s.shard%d.json", r.Prop, shard)
		// dump hashes so that the driver can count distinct cases over shards
		hs := make([]byte, 0, 8*len(r.distinct))
		for h := range r.distinct {
			hs = binary.LittleEndian.AppendUint64(hs, h)
		}
		_ = os.WriteFile(filepath.Join(root, "evidence", fmt.Sprintf("%s.shard%d.hashes", r.Prop, shard)), hs, 0o644)
	}
	b, err := json.MarshalIndent(doc, "", " ")
	if err != nil {
		t.Fatalf("evidence marshal: %v", err)
	}
	if err := os.WriteFile(filepath.Join(root, "evidence", name), b, 0o644); err != nil {
		t.Fatalf("evidence write: %v", err)
	}
	if unlisted > 0 {
		t.Fail()
	}
}

// ReplayCase loads the "case" member of the replay file named by
// VERIF_REPLAY into v. It returns false when no replay was requested.
func ReplayCase(v interface{}) (bool, error) {
	p := os.Getenv("VERIF_REPLAY")
	if p == "" {
		return false, nil
	}
	b, err := os.ReadFile(p)
	if err != nil {
		return true, err
	}
	var rf struct {
		Case json.RawMessage `json:"case"`
	}
	if err := json.Unmarshal(b, &rf); err != nil {
		return true, err
	}
	return true, json.Unmarshal(rf.Case, v)
}

// Inflight writes the case about to be executed to a per-process file so that
// the driver can attribute a crash of the test binary (a panic in a goroutine
// of the code under test cannot be recovered) to the case that caused it.
func (r *Run) Inflight(c interface{}) {
	b, _ := json.Marshal(replayFile{r.Prop, "process-crash", "the test binary died while executing this case", Tier(), Seed(), c})
	_ = os.MkdirAll(filepath.Join(Root(), "replays"), 0o755)
	_ = os.WriteFile(InflightPath(r.Prop), b, 0o644)
}

// InflightPath is the path used by Inflight.
func InflightPath(prop string) string {
	i, _ := Shard()
	return filepath.Join(Root(), "replays", fmt.Sprintf(".inflight-%s-%d.json", prop, i))
}

// ClearInflight removes the inflight marker.
func (r *Run) ClearInflight() { _ = os.Remove(InflightPath(r.Prop)) }
