// Package fb is the fake-broker kit for the client library checks: a
// client.Dialer that hands out in-memory connections whose other end is a
// scripted raw peer, and a recording / fault-injecting client session.
package fb

import (
	"errors"
	"fmt"
	"sync"
	"sync/atomic"
	"time"

	"github.com/256dpi/gomqtt/packet"
	"github.com/256dpi/gomqtt/session"
	"github.com/256dpi/gomqtt/transport"

	"verif/internal/ev"
	"verif/internal/memconn"
	"verif/internal/peer"
)

// ErrRefused is returned by a Dial that the plan refuses.
var ErrRefused = errors.New("fb: dial refused")

// ErrSession is the error injected into session calls.
var ErrSession = errors.New("fb: injected session failure")

// Link is one established connection: Broker is the fake broker's end.
type Link struct {
	N         int
	Broker    *peer.Peer
	ClientEnd *memconn.Conn
}

// Dialer implements client.Dialer.
type Dialer struct {
	Log *memconn.Log

	// Plan is consulted for the n-th dial (1-based): refuse it, or prepare the
	// client end (fault plan, hooks) before the client gets it. May be nil.
	Plan func(n int) (refuse bool, prep func(clientEnd *memconn.Conn))

	mu    sync.Mutex
	n     int
	links chan *Link
}

// NewDialer creates a dialer writing to log.
func NewDialer(log *memconn.Log) *Dialer {
	return &Dialer{Log: log, links: make(chan *Link, 64)}
}

// Dial implements client.Dialer.
func (d *Dialer) Dial(string) (transport.Conn, error) {
	d.mu.Lock()
	d.n++
	n := d.n
	plan := d.Plan
	d.mu.Unlock()
	var prep func(*memconn.Conn)
	if plan != nil {
		refuse, p := plan(n)
		if refuse {
			d.Log.Add(memconn.Event{Actor: "dialer", Op: "dial-refused", Note: fmt.Sprint(n)})
			return nil, ErrRefused
		}
		prep = p
	}
	clientEnd, brokerEnd := memconn.Pair(fmt.Sprintf("client#%d", n), fmt.Sprintf("fakebroker#%d", n), d.Log)
	if prep != nil {
		prep(clientEnd)
	}
	d.Log.Add(memconn.Event{Actor: "dialer", Op: "dial", Note: fmt.Sprint(n)})
	p := peer.New(fmt.Sprintf("fakebroker#%d", n), brokerEnd)
	p.AutoAck = false
	d.links <- &Link{N: n, Broker: p, ClientEnd: clientEnd}
	return clientEnd, nil
}

// Dials returns the number of Dial calls so far.
func (d *Dialer) Dials() int {
	d.mu.Lock()
	defer d.mu.Unlock()
	return d.n
}

// Next waits for the next established connection (nil when the ceiling expired).
func (d *Dialer) Next(ceiling time.Duration) *Link {
	select { // what is already there wins over an expired (short) ceiling
	case l := <-d.links:
		return l
	default:
	}
	select {
	case l := <-d.links:
		return l
	case <-time.After(ceiling):
		return nil
	}
}

// Accept waits for the next connection, reads the CONNECT and answers with the
// given CONNACK (nil = no answer). It returns the link and the CONNECT.
func (d *Dialer) Accept(connack *packet.Connack) (*Link, *packet.Connect, error) {
	l := d.Next(ev.Ceiling())
	if l == nil {
		return nil, nil, errors.New("fb: no connection was dialled")
	}
	i := l.Broker.WaitFor(0, func(g packet.Generic) bool { return true }, ev.Ceiling())
	if i < 0 {
		return l, nil, fmt.Errorf("fb: no first packet (eof=%v)", l.Broker.EOF)
	}
	cp, ok := l.Broker.Inbox[i].(*packet.Connect)
	if !ok {
		return l, nil, fmt.Errorf("fb: first packet is %s", l.Broker.Inbox[i].Type())
	}
	if connack != nil {
		if err := l.Broker.Send(connack); err != nil {
			return l, cp, err
		}
	}
	return l, cp, nil
}

// Connack builds a CONNACK.
func Connack(code packet.ConnackCode, sessionPresent bool) *packet.Connack {
	c := packet.NewConnack()
	c.ReturnCode, c.SessionPresent = code, sessionPresent
	return c
}

// Session is a recording, fault-injecting client session around a MemorySession.
type Session struct {
	Inner *session.MemorySession
	Log   *memconn.Log

	ops    int64
	failAt int64 // the failAt-th call (counted from 1 over all methods except NextID) fails

	// Slow, when set (before use), is called at the start of every counted
	// method with its name: a store that takes its time (disk, network).
	Slow func(op string)
}

// NewSession wraps a fresh memory session.
func NewSession(log *memconn.Log) *Session {
	return &Session{Inner: session.NewMemorySession(), Log: log}
}

// FailAt arms the fault: the n-th call from now on fails (0 disarms).
func (s *Session) FailAt(n int64) {
	if n == 0 {
		atomic.StoreInt64(&s.failAt, 0)
		return
	}
	atomic.StoreInt64(&s.failAt, atomic.LoadInt64(&s.ops)+n)
}

// Ops returns the number of counted calls so far.
func (s *Session) Ops() int64 { return atomic.LoadInt64(&s.ops) }

func (s *Session) hit(op string, dir session.Direction, pkt packet.Generic, id packet.ID) bool {
	if s.Slow != nil {
		s.Slow(op)
	}
	n := atomic.AddInt64(&s.ops, 1)
	fail := atomic.LoadInt64(&s.failAt) == n
	e := memconn.Describe(pkt)
	e.Actor, e.Op = "session", op
	if pkt == nil {
		e.ID = uint16(id)
	}
	switch dir {
	case session.Incoming:
		e.Note = "incoming"
	case session.Outgoing:
		e.Note = "outgoing"
	}
	if fail {
		e.Note += " INJECTED-FAILURE"
	}
	s.Log.Add(e)
	return fail
}

// NextID implements client.Session.
func (s *Session) NextID() packet.ID { return s.Inner.NextID() }

// SavePacket implements client.Session.
func (s *Session) SavePacket(dir session.Direction, pkt packet.Generic) error {
	if s.hit("SavePacket", dir, pkt, 0) {
		return ErrSession
	}
	return s.Inner.SavePacket(dir, pkt)
}

// LookupPacket implements client.Session.
func (s *Session) LookupPacket(dir session.Direction, id packet.ID) (packet.Generic, error) {
	if s.hit("LookupPacket", dir, nil, id) {
		return nil, ErrSession
	}
	return s.Inner.LookupPacket(dir, id)
}

// DeletePacket implements client.Session.
func (s *Session) DeletePacket(dir session.Direction, id packet.ID) error {
	if s.hit("DeletePacket", dir, nil, id) {
		return ErrSession
	}
	return s.Inner.DeletePacket(dir, id)
}

// AllPackets implements client.Session.
func (s *Session) AllPackets(dir session.Direction) ([]packet.Generic, error) {
	if s.hit("AllPackets", dir, nil, 0) {
		return nil, ErrSession
	}
	return s.Inner.AllPackets(dir)
}

// Reset implements client.Session.
func (s *Session) Reset() error {
	if s.hit("Reset", -1, nil, 0) {
		return ErrSession
	}
	return s.Inner.Reset()
}
