// C14 — no client can crash, stall or disturb the broker or other clients.
package c14

import (
	"encoding/hex"
	"encoding/json"
	"fmt"
	"os"
	"strings"
	"sync"
	"testing"
	"time"

	"github.com/256dpi/gomqtt/broker"
	"github.com/256dpi/gomqtt/packet"
	"pgregory.net/rapid"

	"verif/internal/bk"
	"verif/internal/ev"
	"verif/internal/gen"
	"verif/internal/memconn"
	"verif/internal/peer"
	"verif/internal/refcodec"
)

// HConn is one hostile connection: the frames it sends (hex), in order.
type HConn struct {
	Frames []string `json:"frames"`
	Desc   []string `json:"desc,omitempty"` // human readable summary per frame
}

// Case is a hostile scenario.
//
//	Env: "" | "kill-timeout" (KillTimeout = 1 ns: takeovers fail in Setup) |
//	     "backend-close" (MemoryBackend.Close races with the connections) |
//	     "hook:<Hook>:<n>" (the n-th call of that backend hook made for a hostile client fails)
type Case struct {
	ReadLimit  int64   `json:"read_limit,omitempty"`
	Conns      []HConn `json:"conns"`
	Concurrent bool    `json:"concurrent,omitempty"`
	Env        string  `json:"env,omitempty"`
}

type verdict struct{ sig, msg string }

func failf(b *bk.Broker, sig, format string, a ...interface{}) *verdict {
	log := b.Log.Dump()
	if len(log) > 12000 && os.Getenv("VERIF_FULLLOG") == "" {
		log = log[:4000] + "\n...\n" + log[len(log)-8000:]
	}
	return &verdict{sig, fmt.Sprintf(format, a...) + "\n--- event log ---\n" + log}
}

// model: index of the first frame that must end the connection (-1 = none),
// whether that is determinate, and the client id of the CONNECT.
func model(frames [][]byte, limit int64) (breakAt int, determinate bool, clientID string, connected bool) {
	q2, pubs := 0, 0
	determinate = true
	for i, f := range frames {
		if limit > 0 && int64(len(f)) > limit {
			return i, determinate, clientID, connected
		}
		p, n, err := refcodec.Decode(f, true)
		if err != nil || n != len(f) {
			return i, determinate, clientID, connected
		}
		if !connected {
			if p.Type != refcodec.CONNECT {
				return i, determinate, clientID, connected
			}
			connected, clientID = true, p.ClientID
			if p.KeepAlive > 0 && p.KeepAlive < 20 {
				determinate = false // the keep alive may expire while the case runs
			}
			continue
		}
		switch p.Type {
		case refcodec.PUBLISH:
			pubs++
			if p.QoS == 2 {
				q2++
			}
			if q2 > 9 || pubs > 60 {
				determinate = false // flow control / own queue limits may legitimately stall or close
			}
		case refcodec.PUBACK, refcodec.PUBREC, refcodec.PUBREL, refcodec.PUBCOMP, refcodec.SUBSCRIBE, refcodec.UNSUBSCRIBE, refcodec.PINGREQ:
		default:
			return i, determinate, clientID, connected
		}
	}
	return -1, determinate, clientID, connected
}

type hres struct {
	v       *verdict
	breakAt int
	rejects int
}

const witnessPrefix = "witness-"

// stallTokenTimeout is the token timeout of the environments in which a
// non-acknowledging subscriber holds up publishers.
func stallTokenTimeout() time.Duration { return 3 * time.Second * ev.Slow() }

func runCase(c *Case) (*verdict, map[string]int) {
	stats := map[string]int{}
	bk.WaitNoLibGoroutines(0, time.Second)
	baseline := len(bk.LibGoroutines())
	b := bk.New(func(m *broker.MemoryBackend, e *broker.Engine) {
		if c.ReadLimit > 0 {
			e.ReadLimit = c.ReadLimit
		}
		if c.Env == "kill-timeout" {
			m.KillTimeout = time.Nanosecond
		}
		// a hostile client that subscribed to the witness stream, stopped
		// acknowledging and is itself waiting for the backend can only be removed by
		// the token timeout of its dequeuer (by design); that timeout has to lie well
		// inside the liveness ceiling in every environment
		m.ClientTokenTimeout = stallTokenTimeout()
		if c.Env == "slow-subscriber" || c.Env == "stalled-publisher" {
			// small queue and window: a subscriber that stops acknowledging makes
			// publishers wait in the backend (documented) until it goes away -
			// by itself, or because the broker gives up on it after the token
			// timeout. A subscriber that is also publishing cannot even notice
			// that its peer has gone (its processor waits for the backend), so
			// the token timeout is what bounds that stall: it has to lie well
			// inside the liveness ceiling.
			m.SessionQueueSize = 4
			m.ClientInflightMessages = 2
		}
	})
	shut := false
	defer func() {
		if !shut {
			b.Shutdown()
		}
	}()
	b.Rec.FailSkipPrefix = witnessPrefix
	if strings.HasPrefix(c.Env, "hook:") {
		parts := strings.Split(c.Env, ":")
		n := 1
		fmt.Sscanf(parts[2], "%d", &n)
		b.Rec.FailHook = map[string]int{parts[1]: n}
	}
	witnessing := c.Env != "backend-close"

	// ---- witnesses
	mk := func(name string, subs []packet.Subscription) (*peer.Peer, *verdict) {
		p, _ := b.Dial(name)
		if _, err := p.ConnectID(witnessPrefix+name, true); err != nil {
			return nil, failf(b, "harness/witness", "%v", err)
		}
		if subs != nil {
			if _, err := p.Subscribe(subs); err != nil {
				return nil, failf(b, "harness/witness", "%v", err)
			}
		}
		return p, nil
	}
	w1, v := mk("#1", []packet.Subscription{{Topic: "#", QOS: 1}})
	if v != nil {
		return v, stats
	}
	w2, v := mk("#2", []packet.Subscription{{Topic: "w/priv", QOS: 1}})
	if v != nil {
		return v, stats
	}
	wp, v := mk("pub", nil)
	if v != nil {
		return v, stats
	}
	hostileDone := make(chan struct{})
	var wg sync.WaitGroup
	var published int
	var pubErr error
	finalTag := ""
	wg.Add(1)
	go func() { // witness publisher
		defer wg.Done()
		for i := 0; ; {
			select {
			case <-hostileDone:
				if i >= 10 {
					finalTag = fmt.Sprintf("w-final-%d", i)
					pubErr = wp.Publish("w/priv", []byte(finalTag), 1, false)
					published = i
					return
				}
			default:
				if i >= 200 {
					<-hostileDone // enough traffic: wait for the hostile phase to end
					continue
				}
			}
			if pubErr = wp.Publish("w/priv", []byte(fmt.Sprintf("w-%d", i)), 1, false); pubErr != nil {
				published = i
				return
			}
			i++
		}
	}()
	finalSeen := func(p *peer.Peer) bool {
		for i := len(p.Inbox) - 1; i >= 0 && i >= len(p.Inbox)-3; i-- {
			if g, ok := p.Inbox[i].(*packet.Publish); ok && strings.HasPrefix(string(g.Message.Payload), "w-final-") && g.Message.Topic == "w/priv" {
				return true
			}
		}
		return false
	}
	pumpUntilFinal := func(p *peer.Peer) {
		defer wg.Done()
		deadline := time.Time{}
		for !p.EOF {
			p.PumpWait(time.Millisecond)
			if finalSeen(p) {
				return
			}
			select {
			case <-hostileDone:
				if deadline.IsZero() {
					deadline = time.Now().Add(ev.Ceiling())
				} else if time.Now().After(deadline) {
					return
				}
			default:
			}
		}
	}
	wg.Add(2)
	go pumpUntilFinal(w1)
	go pumpUntilFinal(w2)

	// ---- hostile connections
	results := make([]hres, len(c.Conns))
	idCount := map[string]int{}
	for _, hc := range c.Conns {
		fr := decodeFrames(hc.Frames)
		_, _, cid, conn := model(fr, c.ReadLimit)
		if conn {
			idCount[cid]++
		}
	}
	runHostile := func(i int) {
		hc := c.Conns[i]
		frames := decodeFrames(hc.Frames)
		breakAt, determinate, cid, connected := model(frames, c.ReadLimit)
		results[i].breakAt = breakAt
		p, bconn := b.Dial(fmt.Sprintf("h%d", i))
		if c.Env == "slow-subscriber" && i == 0 {
			// connection 0 subscribes to the witness stream with a persistent
			// session and never acknowledges; once a publisher is stuck in the
			// backend because of it, it goes away - the broker must recover
			p.AutoAck = false
			for _, f := range frames {
				if !p.C.SendRaw(f) {
					break
				}
			}
			deadline := time.Now().Add(2 * time.Second * ev.Slow())
			stuck := 0
			for stuck < 3 && time.Now().Before(deadline) {
				time.Sleep(time.Millisecond)
				open := 0
				for _, call := range b.Rec.Calls() {
					if call.Hook == "Publish" {
						if call.Done {
							open--
						} else {
							open++
						}
					}
				}
				if open > 0 {
					stuck++
				} else {
					stuck = 0
				}
			}
			if stuck >= 3 {
				results[i].rejects = 1 // a publisher was observed waiting
			}
			p.Drop()
			if !b.WaitClosed(bconn) {
				results[i].v = failf(b, "liveness/client-not-terminated", "the non-acknowledging subscriber closed its connection but the broker side never terminated\n--- library goroutines ---\n%s", strings.Join(bk.LibGoroutines(), "\n\n"))
			}
			return
		}
		if c.Env == "unsub-backlog" && i == 0 {
			// connection 0 subscribes to the witness stream, lets a full window of
			// deliveries go unacknowledged while more are parked in its queue,
			// unsubscribes, and only then acknowledges: the parked messages have
			// no subscription any more when the broker takes them off the queue
			p.AutoAck = false
			for _, f := range frames {
				if !p.C.SendRaw(f) {
					break
				}
			}
			pubs := func() (l []*packet.Publish) {
				for _, g := range p.Inbox {
					if x, ok := g.(*packet.Publish); ok && x.Message.QOS > 0 {
						l = append(l, x)
					}
				}
				return
			}
			deadline := time.Now().Add(ev.Ceiling())
			for len(pubs()) < 10 && !p.EOF && time.Now().Before(deadline) {
				p.PumpWait(time.Millisecond)
			}
			// a few more are published meanwhile and wait in the queue
			time.Sleep(20 * time.Millisecond)
			from := len(p.Inbox)
			_ = p.Send(&packet.Unsubscribe{ID: 77, Topics: []string{"w/priv"}})
			if p.WaitFor(from, func(g packet.Generic) bool { _, ok := g.(*packet.Unsuback); return ok }, ev.Ceiling()) < 0 {
				results[i].v = failf(b, "hostile/closed-without-cause", "connection 0 subscribed, received %d deliveries and unsubscribed: no UNSUBACK (eof=%v)", len(pubs()), p.EOF)
				return
			}
			for _, x := range pubs() {
				_ = p.Send(&packet.Puback{ID: x.ID})
			}
			p.AutoAck = true
			if !p.Ping() {
				results[i].v = failf(b, "hostile/closed-without-cause", "connection 0 only subscribed, unsubscribed and acknowledged what it had received, yet the broker closed it (eof=%v err=%v)", p.EOF, p.EOFErr)
				return
			}
			results[i].rejects = 1
			p.Drop()
			if !b.WaitClosed(bconn) {
				results[i].v = failf(b, "liveness/client-not-terminated", "broker side of connection 0 did not terminate after the peer closed")
			}
			return
		}
		if c.Env == "stalled-publisher" && i == 0 {
			// connection 0 subscribes to the witness stream, never acknowledges
			// and keeps publishing: once its queue is full the witness publisher
			// waits for it inside the backend while its own processor waits for
			// the backend - nobody reads its connection any more. Only the token
			// timeout of its dequeuer ends that; the peer stays until then.
			p.AutoAck = false
			for _, f := range frames {
				if !p.C.SendRaw(f) {
					break
				}
			}
			pub := refcodec.Encode(&refcodec.Packet{Type: refcodec.PUBLISH, Topic: "h/x", Payload: []byte("stall")})
			deadline := time.Now().Add(stallTokenTimeout() + ev.Ceiling())
			for n := 0; !p.EOF && time.Now().Before(deadline); n++ {
				if n < 50 {
					p.C.SendRaw(pub)
				}
				p.PumpWait(time.Millisecond)
			}
			if p.EOF {
				results[i].rejects = 1 // the broker ended the stall itself
			}
			p.Drop()
			if !b.WaitClosed(bconn) {
				results[i].v = failf(b, "liveness/client-not-terminated", "the subscriber that neither acknowledged nor stopped publishing: its broker side never terminated (token timeout %v)\n--- library goroutines ---\n%s", stallTokenTimeout(), strings.Join(bk.LibGoroutines(), "\n\n"))
			}
			return
		}
		for _, f := range frames {
			if !p.C.SendRaw(f) {
				break
			}
			p.Pump()
		}
		if breakAt >= 0 {
			// keep draining (and acknowledging) what the broker sends while waiting:
			// the frame that breaks the protocol may sit behind a PUBLISH whose
			// processing waits for the backend, which in turn may wait for room in
			// this very connection's queue
			if !p.WaitEOF(ev.Ceiling()) || !b.WaitClosed(bconn) {
				results[i].v = failf(b, "hostile/not-closed", "hostile connection %d sent a frame that breaks the protocol (frame %d: %s) but its connection was not closed", i, breakAt, describe(frames[breakAt]))
			}
			return
		}
		if c.Env == "" && determinate && connected && idCount[cid] == 1 && cid != "" && !strings.HasPrefix(cid, witnessPrefix) {
			if !p.Ping() {
				results[i].v = failf(b, "hostile/closed-without-cause", "hostile connection %d sent only packets a client may send, yet the broker closed it (eof=%v err=%v)", i, p.EOF, p.EOFErr)
				return
			}
		}
		p.Pump()
		p.Drop()
		if !b.WaitClosed(bconn) {
			results[i].v = failf(b, "liveness/client-not-terminated", "broker side of hostile connection %d did not terminate after the peer closed\n--- library goroutines ---\n%s", i, strings.Join(bk.LibGoroutines(), "\n\n"))
		}
	}
	var hw sync.WaitGroup
	closeAt := -1
	if c.Env == "backend-close" {
		closeAt = len(c.Conns) / 2
	}
	var closeOK = true
	for i := range c.Conns {
		if i == closeAt {
			hw.Add(1)
			go func() { defer hw.Done(); closeOK = b.Mem.Close(ev.Ceiling()) }()
		}
		if c.Concurrent {
			hw.Add(1)
			go func(i int) { defer hw.Done(); runHostile(i) }(i)
		} else {
			runHostile(i)
		}
	}
	hw.Wait()
	close(hostileDone)
	wg.Wait()
	for i := range results {
		if results[i].v != nil {
			return results[i].v, stats
		}
		if results[i].rejects > 0 && c.Env == "unsub-backlog" {
			stats["unsubscribed-with-parked-messages"]++
		} else if results[i].rejects > 0 && c.Env == "stalled-publisher" {
			stats["stalled-publisher-disconnected-by-token-timeout"]++
		} else if results[i].rejects > 0 {
			stats["publisher-waited-for-slow-subscriber"]++
		}
		if results[i].breakAt >= 0 {
			stats["conns-with-protocol-break"]++
		} else {
			stats["conns-wellbehaved"]++
		}
	}
	if !closeOK {
		return failf(b, "liveness/backend-close-timeout", "MemoryBackend.Close did not see all clients closed within the ceiling"), stats
	}

	// ---- witnesses undisturbed
	if witnessing {
		if pubErr != nil {
			return failf(b, "witness/publisher-disturbed", "the witness publisher's QoS 1 publish #%d was not acknowledged: %v", published, pubErr), stats
		}
		for _, w := range []*peer.Peer{w1, w2} {
			if w.EOF {
				return failf(b, "witness/disconnected", "witness %s was disconnected by the broker (%v) while a hostile client was active", w.Name, w.EOFErr), stats
			}
			next := 0
			final := false
			for _, g := range w.Publishes(0) {
				pl := string(g.Message.Payload)
				if g.Message.Topic != "w/priv" || !strings.HasPrefix(pl, "w-") {
					continue
				}
				if pl == finalTag {
					final = true
					continue
				}
				var k int
				if _, err := fmt.Sscanf(pl, "w-%d", &k); err != nil {
					continue
				}
				if k != next {
					return failf(b, "witness/messages-lost-or-reordered", "witness %s received message w-%d where w-%d was due", w.Name, k, next), stats
				}
				next++
			}
			if !final || next != published {
				return failf(b, "witness/messages-missing", "witness %s received %d of %d numbered messages (final marker seen: %v)", w.Name, next, published, final), stats
			}
			if !w.Ping() {
				return failf(b, "witness/disconnected", "witness %s does not answer PINGREQ any more", w.Name), stats
			}
		}
		stats["witness-messages"] += published
	}

	// ---- resources released
	shut = true
	if !b.Shutdown() && c.Env != "backend-close" {
		return failf(b, "liveness/closed-not-fired", "after every connection ended at least one broker client never fired Closed()\n--- library goroutines ---\n%s", strings.Join(bk.LibGoroutines(), "\n\n")), stats
	}
	setups, terms := map[*broker.Client]int{}, map[*broker.Client]int{}
	for _, call := range b.Rec.Calls() {
		switch {
		case call.Hook == "Setup" && call.Done && call.Err == nil:
			setups[call.Client]++
		case call.Hook == "Terminate" && !call.Done:
			terms[call.Client]++
		}
	}
	for _, cl := range b.Rec.Clients() {
		select {
		case <-cl.Closed():
		case <-time.After(ev.Ceiling()):
			return failf(b, "liveness/closed-not-fired", "a broker client (id %q) never fired Closed()\n--- library goroutines ---\n%s", cl.ID(), strings.Join(bk.LibGoroutines(), "\n\n")), stats
		}
		switch {
		case setups[cl] == 1 && terms[cl] != 1:
			return failf(b, "resources/terminate-count", "client %q was set up once but the backend was told about its termination %d times", cl.ID(), terms[cl]), stats
		case setups[cl] == 0 && terms[cl] > 1:
			return failf(b, "resources/terminate-count", "client %q was never set up but terminated %d times", cl.ID(), terms[cl]), stats
		}
	}
	if left := bk.WaitNoLibGoroutines(baseline, ev.Ceiling()); left != nil {
		return failf(b, "liveness/goroutines-left", "%d library goroutines are still running after every connection ended:\n%s", len(left)-baseline, strings.Join(left, "\n\n")), stats
	}
	return nil, stats
}

func decodeFrames(hx []string) [][]byte {
	out := make([][]byte, 0, len(hx))
	for _, h := range hx {
		b, _ := hex.DecodeString(h)
		// a frame is one declared packet: bytes behind the header-declared extent
		// would belong to the next packet of a real stream and are cut off
		if hd, need, err := refcodec.ParseHeader(b); err == nil && !need && hd.Total() < len(b) {
			b = b[:hd.Total()]
		}
		out = append(out, b)
	}
	return out
}

func describe(f []byte) string {
	p, n, err := refcodec.Decode(f, true)
	if err != nil || n != len(f) {
		h := hex.EncodeToString(f)
		if len(h) > 40 {
			h = h[:40] + "…"
		}
		return fmt.Sprintf("malformed[%d bytes %s]", len(f), h)
	}
	s := strings.ToUpper(packet.Type(p.Type).String())
	switch p.Type {
	case refcodec.PUBLISH:
		s += fmt.Sprintf("(q%d topic=%.20q)", p.QoS, p.Topic)
	case refcodec.SUBSCRIBE, refcodec.UNSUBSCRIBE:
		if len(p.Filters) > 0 {
			s += fmt.Sprintf("(%d filters, first %.20q)", len(p.Filters), p.Filters[0])
		}
	case refcodec.CONNECT:
		s += fmt.Sprintf("(id=%.12q clean=%v will=%v)", p.ClientID, p.Clean, p.HasWill)
	}
	return s
}

// ---- generators

var hostileTopics = []string{"#", "+", "+/+", "w/priv", "w/#", "w/+", "\x00", "a/\x00", "a/\x00/b", "$SYS/x", "/", "//", "a/b/c/d/e/f/g/h", "w/priv/\x00"}

func genFrame(rt *rapid.T, connected bool, q2 *int) ([]byte, string) {
	kind := rapid.IntRange(0, 19).Draw(rt, "kind")
	switch {
	case kind < 11: // a packet a client may send
		typ := rapid.SampledFrom([]byte{refcodec.PUBLISH, refcodec.PUBLISH, refcodec.PUBLISH, refcodec.SUBSCRIBE, refcodec.SUBSCRIBE, refcodec.UNSUBSCRIBE, refcodec.PUBACK, refcodec.PUBREC, refcodec.PUBREL, refcodec.PUBCOMP, refcodec.PINGREQ}).Draw(rt, "ctype")
		p := gen.SmallPacket(rt, typ)
		twist := rapid.IntRange(0, 3).Draw(rt, "twist")
		switch typ {
		case refcodec.PUBLISH:
			if twist == 0 {
				p.Topic = rapid.SampledFrom(hostileTopics).Draw(rt, "htopic")
			} else if twist == 1 && rapid.IntRange(0, 5).Draw(rt, "huge") == 0 {
				p.Topic = strings.Repeat("x", 65535)
			}
			if p.QoS == 2 {
				*q2++
				if *q2 > 9 {
					p.QoS = 1
				}
			}
		case refcodec.SUBSCRIBE, refcodec.UNSUBSCRIBE:
			if twist <= 1 {
				p.Filters[0] = rapid.SampledFrom(append([]string{"", "a/#/b", "a+", "#/#"}, hostileTopics...)).Draw(rt, "hfilter")
			}
		}
		f := refcodec.Encode(p)
		return f, describe(f)
	case kind < 14: // a packet that is out of protocol for a client
		typ := rapid.SampledFrom([]byte{refcodec.CONNECT, refcodec.CONNACK, refcodec.SUBACK, refcodec.UNSUBACK, refcodec.PINGRESP, refcodec.DISCONNECT}).Draw(rt, "stype")
		p := gen.SmallPacket(rt, typ)
		if typ == refcodec.CONNECT {
			p.KeepAlive = 0
		}
		f := refcodec.Encode(p)
		return f, describe(f)
	case kind < 18: // a mutated valid encoding
		p := gen.SmallPacket(rt, byte(rapid.IntRange(1, 14).Draw(rt, "mtype")))
		f := refcodec.Encode(p)
		switch rapid.IntRange(0, 5).Draw(rt, "mut") {
		case 0:
			if len(f) > 1 {
				f = f[:rapid.IntRange(1, len(f)-1).Draw(rt, "cut")]
			}
		case 1:
			i := rapid.IntRange(0, len(f)-1).Draw(rt, "pos")
			f[i] ^= byte(1 << uint(rapid.IntRange(0, 7).Draw(rt, "bit")))
		case 2:
			f = append(f, rapid.SliceOfN(rapid.Byte(), 1, 4).Draw(rt, "tail")...)
		case 3:
			f[0] = (f[0] & 0xF0) | byte(rapid.IntRange(0, 15).Draw(rt, "flags"))
		case 4:
			if len(f) > 1 {
				f[1] = byte(rapid.IntRange(0, 255).Draw(rt, "rl"))
			}
		case 5:
			f[0] = byte(rapid.SampledFrom([]int{0x00, 0xF0, 0xFF, 0x0F}).Draw(rt, "type0"))
		}
		return f, describe(f)
	default: // garbage / oversized declarations
		f := rapid.SampledFrom([][]byte{
			{0x30, 0xFF, 0xFF, 0xFF, 0x7F},
			{0x30, 0xFF, 0xFF, 0xFF, 0xFF, 0x01},
			{0x82, 0x00},
			{0x30, 0x02, 0x00, 0x00},
			{0x32, 0x04, 0x00, 0x01, 'a', 0x00},
			{0x10, 0x00},
			{},
			{0xE0, 0x01, 0x00},
		}).Draw(rt, "garbage")
		if len(f) == 0 {
			f = rapid.SliceOfN(rapid.Byte(), 1, 30).Draw(rt, "random")
		}
		return append([]byte{}, f...), describe(f)
	}
}

func genConn(rt *rapid.T, ids []string) HConn {
	var hc HConn
	q2 := 0
	add := func(f []byte, d string) {
		hc.Frames = append(hc.Frames, hex.EncodeToString(f))
		hc.Desc = append(hc.Desc, d)
	}
	if rapid.IntRange(0, 9).Draw(rt, "connect_first") != 0 {
		p := gen.SmallPacket(rt, refcodec.CONNECT)
		p.KeepAlive = 0
		p.ClientID = rapid.SampledFrom(ids).Draw(rt, "cid")
		if p.ClientID == "" {
			p.Clean = true
		}
		if rapid.Bool().Draw(rt, "will") {
			p.HasWill, p.WillTopic, p.WillPayload, p.WillQoS = true, rapid.SampledFrom([]string{"w/priv", "will", "#"}).Draw(rt, "wtopic"), []byte("hostile-will"), byte(rapid.IntRange(0, 2).Draw(rt, "wq"))
		}
		f := refcodec.Encode(p)
		add(f, describe(f))
	}
	for n := rapid.IntRange(0, 14).Draw(rt, "frames"); n > 0; n-- {
		f, d := genFrame(rt, true, &q2)
		add(f, d)
	}
	return hc
}

func genCase(rt *rapid.T) *Case {
	c := &Case{}
	if rapid.IntRange(0, 3).Draw(rt, "limited") == 0 {
		c.ReadLimit = int64(rapid.SampledFrom([]int{64, 300, 2000}).Draw(rt, "limit"))
	}
	ids := []string{"h1", "h2", "h3", "h4", "h5", "h6"}
	switch rapid.IntRange(0, 9).Draw(rt, "env") {
	case 0, 1:
		c.Env = "kill-timeout"
		ids = []string{"h1", "h1", "h2"}
	case 2:
		c.Env = "backend-close"
	case 3, 4:
		c.Env = fmt.Sprintf("hook:%s:%d", rapid.SampledFrom([]string{"Authenticate", "Setup", "Restore", "Subscribe", "Unsubscribe", "Publish", "Dequeue", "Terminate"}).Draw(rt, "hook"), rapid.IntRange(1, 3).Draw(rt, "nth"))
	case 5:
		ids = []string{"h1", "h1", "h2", ""} // storms sharing client ids
	case 6:
		c.Env = "slow-subscriber"
		c.ReadLimit = 0
	case 7:
		switch rapid.IntRange(0, 3).Draw(rt, "stalled") {
		case 0:
			c.Env = "stalled-publisher"
			c.ReadLimit = 0
		case 1, 2:
			c.Env = "unsub-backlog"
			c.ReadLimit = 0
		}
	}
	n := rapid.IntRange(1, 5).Draw(rt, "conns")
	for i := 0; i < n; i++ {
		c.Conns = append(c.Conns, genConn(rt, ids))
	}
	if c.Env == "unsub-backlog" {
		cp := refcodec.Encode(&refcodec.Packet{Type: refcodec.CONNECT, ProtoName: "MQTT", Level: 4, ClientID: "backlog", Clean: rapid.Bool().Draw(rt, "backlog_clean")})
		sp := refcodec.Encode(&refcodec.Packet{Type: refcodec.SUBSCRIBE, ID: 1, Filters: []string{"w/priv"}, QoSs: []byte{1}})
		c.Conns[0] = HConn{Frames: []string{hex.EncodeToString(cp), hex.EncodeToString(sp)}, Desc: []string{describe(cp), describe(sp) + " then lets a window of deliveries go unacknowledged, unsubscribes, acknowledges"}}
	}
	if c.Env == "slow-subscriber" || c.Env == "stalled-publisher" {
		cp := refcodec.Encode(&refcodec.Packet{Type: refcodec.CONNECT, ProtoName: "MQTT", Level: 4, ClientID: "slow", Clean: rapid.Bool().Draw(rt, "slow_clean")})
		sp := refcodec.Encode(&refcodec.Packet{Type: refcodec.SUBSCRIBE, ID: 1, Filters: []string{rapid.SampledFrom([]string{"w/priv", "#", "w/+"}).Draw(rt, "slow_filter")}, QoSs: []byte{byte(rapid.IntRange(1, 2).Draw(rt, "slow_qos"))}})
		c.Conns[0] = HConn{Frames: []string{hex.EncodeToString(cp), hex.EncodeToString(sp)}, Desc: []string{describe(cp), describe(sp) + map[string]string{"slow-subscriber": " then never acknowledges, leaves once a publisher waits", "stalled-publisher": " then never acknowledges and keeps publishing until the broker disconnects it"}[c.Env]}}
	}
	c.Concurrent = rapid.Bool().Draw(rt, "concurrent")
	return c
}

func nontrivial(c *Case) bool {
	for _, hc := range c.Conns {
		fr := decodeFrames(hc.Frames)
		if b, _, _, _ := model(fr, c.ReadLimit); b >= 0 {
			return true
		}
		for _, f := range fr {
			if len(f) > 60000 {
				return true
			}
		}
	}
	return c.Env != ""
}

func TestC14(t *testing.T) {
	run := ev.Start("C14", "exploration")
	run.Rule("hostile scenarios: 1-5 hostile connections (sequential or concurrent, optionally sharing client ids) each sending up to 15 frames: packets a client may send with hostile field values (wildcard / NUL-bearing / empty / 65535-byte topics and filters, arbitrary ids), packets that are out of protocol for a client, mutated and truncated encodings, garbage and oversized length declarations, optionally with a small engine read limit; environments: none, KillTimeout=1ns (takeover fails in Setup), a subscriber (queue 4, window 2) that never acknowledges the witness stream and leaves once a publisher is stuck behind it, such a subscriber that also keeps publishing and never leaves (only the broker's token timeout, 3 s in all C14 environments, can end that stall), a subscriber that lets a full window go unacknowledged with more parked in its queue, unsubscribes and only then acknowledges, MemoryBackend.Close racing with the connections, the n-th call of one backend hook failing. Meanwhile a witness publisher streams numbered QoS 1 messages to a witness subscribed to '#' and one subscribed to a private topic. Oracle: the process survives; a connection that sent a protocol-breaking frame is closed; a connection that sent only admissible packets still answers PINGREQ; both witnesses receive every numbered message exactly once in order and stay connected; Terminate is called exactly once per successful Setup; Closed() fires for every connection; no library goroutine remains. non-trivial = some frame must be rejected, a boundary-sized field, or a hostile environment; distinct by case")
	run.Assume("hostile peers' inbound data is drained (a subscriber that stops reading stalls the memory backend by documented design)", "at most 9 unreleased QoS 2 publishes and 60 publishes per hostile connection (flow control and the own-queue limit are documented behaviour)")
	defer run.Finish(t)

	exec := func(c *Case) *verdict {
		run.Eval(1)
		run.Inflight(c)
		v, st := runCase(c)
		run.ClearInflight()
		for k, n := range st {
			run.ClassN(k, n)
		}
		env := c.Env
		if i := strings.Index(env, ":"); i > 0 {
			env = strings.Join(strings.Split(env, ":")[:2], ":")
		}
		run.Class("env=" + env)
		if nontrivial(c) {
			run.NonTrivialJSON(c)
		}
		return v
	}
	// regression: the scenario of finding F11 (takeover whose Setup fails)
	if shard, _ := ev.Shard(); shard == 0 {
		conn := func(clean bool) HConn {
			f := refcodec.Encode(&refcodec.Packet{Type: refcodec.CONNECT, ProtoName: "MQTT", Level: 4, ClientID: "h1", Clean: clean})
			g := refcodec.Encode(&refcodec.Packet{Type: refcodec.PINGREQ})
			return HConn{Frames: []string{hex.EncodeToString(f), hex.EncodeToString(g)}, Desc: []string{describe(f), describe(g)}}
		}
		for _, c := range []*Case{
			{Env: "kill-timeout", Conns: []HConn{conn(false), conn(false), conn(true)}, Concurrent: true},
			{Env: "kill-timeout", Conns: []HConn{conn(false), conn(true)}},
			{Env: "hook:Setup:1", Conns: []HConn{conn(false), conn(false)}},
		} {
			if v := exec(c); v != nil {
				run.Violation(v.sig, v.msg, c)
			}
		}
	}
	run.Rapid(t, "hostile", ev.Pick(350, 40000), func(rt *rapid.T) {
		c := genCase(rt)
		if v := exec(c); v != nil {
			run.Candidate(v.sig, v.msg, c)
			rt.Fatalf("%s: %s", v.sig, v.msg)
		}
	})
}

func TestReplay(t *testing.T) {
	var c Case
	ok, err := ev.ReplayCase(&c)
	if !ok {
		t.Skip("no VERIF_REPLAY")
	}
	if err != nil {
		t.Fatal(err)
	}
	for i := 0; i < 10; i++ {
		if v, _ := runCase(&c); v != nil {
			t.Fatalf("VIOLATION reproduced: %s: %s", v.sig, v.msg)
		}
	}
	t.Log("case passes")
}

var _ = memconn.ErrClosed

// FuzzC14: bytes -> one hostile connection (a valid CONNECT, then the input cut
// into frames by length prefixes), judged by the same oracle on a fresh broker.
func FuzzC14(f *testing.F) {
	enc := func(p *refcodec.Packet) []byte { return refcodec.Encode(p) }
	frame := func(parts ...[]byte) []byte {
		var out []byte
		for _, p := range parts {
			if len(p) > 255 {
				p = p[:255]
			}
			out = append(out, byte(len(p)))
			out = append(out, p...)
		}
		return out
	}
	f.Add(frame(enc(&refcodec.Packet{Type: refcodec.SUBSCRIBE, ID: 1, Filters: []string{"#"}, QoSs: []byte{1}}), enc(&refcodec.Packet{Type: refcodec.PUBLISH, Topic: "w/priv", QoS: 1, ID: 2, Payload: []byte("x")})))
	f.Add(frame(enc(&refcodec.Packet{Type: refcodec.PINGREQ}), []byte{0x30, 0xFF, 0xFF, 0xFF, 0x7F}))
	f.Add(frame(enc(&refcodec.Packet{Type: refcodec.PUBREL, ID: 9}), enc(&refcodec.Packet{Type: refcodec.CONNACK}), []byte{0x82, 0x00}))
	f.Add(frame(enc(&refcodec.Packet{Type: refcodec.UNSUBSCRIBE, ID: 3, Filters: []string{"\x00"}}), enc(&refcodec.Packet{Type: refcodec.DISCONNECT})))
	f.Fuzz(func(t *testing.T, b []byte) {
		if len(b) > 2048 {
			return
		}
		cp := refcodec.Encode(&refcodec.Packet{Type: refcodec.CONNECT, ProtoName: "MQTT", Level: 4, ClientID: "fz", Clean: len(b)%2 == 0})
		hc := HConn{Frames: []string{hex.EncodeToString(cp)}}
		for len(b) > 0 && len(hc.Frames) < 16 {
			n := int(b[0])
			b = b[1:]
			if n > len(b) {
				n = len(b)
			}
			if n > 0 {
				hc.Frames = append(hc.Frames, hex.EncodeToString(b[:n]))
			}
			b = b[n:]
		}
		c := &Case{Conns: []HConn{hc}}
		if v, _ := runCase(c); v != nil {
			out, _ := json.MarshalIndent(map[string]interface{}{"property": "C14", "signature": v.sig, "message": v.msg, "tier": "thorough", "case": c}, "", " ")
			_ = os.MkdirAll(ev.Root()+"/replays", 0o755)
			_ = os.WriteFile(fmt.Sprintf("%s/replays/C14-fuzz-%x.json", ev.Root(), ev.Hash(v.sig)), out, 0o644)
			t.Fatalf("%s: %s", v.sig, v.msg)
		}
	})
}
