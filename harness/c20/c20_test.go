// C20 — nothing is processed before an accepted CONNECT; each request gets its response.
package c20

import (
	"fmt"
	"sort"
	"strings"
	"testing"

	"github.com/256dpi/gomqtt/broker"
	"github.com/256dpi/gomqtt/packet"
	"pgregory.net/rapid"

	"verif/internal/bk"
	"verif/internal/conv"
	"verif/internal/ev"
	"verif/internal/refcodec"
)

// Case: a packet sequence sent in one burst.
type Case struct {
	Auth    bool               `json:"auth"` // backend requires user/pass = u/p
	Packets []*refcodec.Packet `json:"packets"`
}

type verdict struct{ sig, msg string }

func key(g packet.Generic) string {
	switch v := g.(type) {
	case *packet.Suback:
		return fmt.Sprintf("SUBACK id=%d codes=%v", v.ID, v.ReturnCodes)
	case *packet.Connack:
		return fmt.Sprintf("CONNACK code=%d", v.ReturnCode)
	}
	if id, ok := packet.GetID(g); ok {
		return fmt.Sprintf("%s id=%d", strings.ToUpper(g.Type().String()), id)
	}
	return strings.ToUpper(g.Type().String())
}

// owed returns what the broker owes for packet p (after a successful connect).
func owed(p *refcodec.Packet) (resp []string, fatal bool) {
	switch p.Type {
	case refcodec.CONNECT, refcodec.CONNACK, refcodec.SUBACK, refcodec.UNSUBACK, refcodec.PINGRESP:
		return nil, true
	case refcodec.DISCONNECT:
		return nil, true
	case refcodec.SUBSCRIBE:
		codes := []packet.QOS{}
		for _, q := range p.QoSs {
			codes = append(codes, packet.QOS(q))
		}
		return []string{fmt.Sprintf("SUBACK id=%d codes=%v", p.ID, codes)}, false
	case refcodec.UNSUBSCRIBE:
		return []string{fmt.Sprintf("UNSUBACK id=%d", p.ID)}, false
	case refcodec.PINGREQ:
		return []string{"PINGRESP"}, false
	case refcodec.PUBLISH:
		switch p.QoS {
		case 1:
			return []string{fmt.Sprintf("PUBACK id=%d", p.ID)}, false
		case 2:
			return []string{fmt.Sprintf("PUBREC id=%d", p.ID)}, false
		}
	case refcodec.PUBREL:
		return []string{fmt.Sprintf("PUBCOMP id=%d", p.ID)}, false
	case refcodec.PUBREC:
		return []string{fmt.Sprintf("PUBREL id=%d", p.ID)}, false
	}
	return nil, false
}

func multiset(l []string) map[string]int {
	m := map[string]int{}
	for _, s := range l {
		m[s]++
	}
	return m
}

func subMultiset(a, b map[string]int) (bool, string) {
	for k, n := range a {
		if b[k] < n {
			return false, k
		}
	}
	return true, ""
}

func runCase(c *Case) *verdict {
	b := bk.New(func(m *broker.MemoryBackend, e *broker.Engine) {
		if c.Auth {
			m.Credentials = map[string]string{"u": "p"}
		}
	})
	defer b.Shutdown()
	p, bconn := b.Dial("x")
	p.AutoAck = false
	fail := func(sig, msg string) *verdict {
		return &verdict{sig, msg + "\n--- event log ---\n" + b.Log.Dump()}
	}
	for _, rp := range c.Packets {
		if err := p.Send(conv.ToLib(rp)); err != nil {
			break // the broker may already have closed the connection
		}
	}
	first := c.Packets[0]
	hooks := func(names ...string) int {
		n := 0
		for _, h := range names {
			n += b.Rec.HookCount(h)
		}
		return n
	}
	got := func() []string {
		var l []string
		for _, g := range p.Inbox {
			l = append(l, key(g))
		}
		return l
	}

	// 1. anything but CONNECT first: closed, no reply, no hook
	if first.Type != refcodec.CONNECT {
		if !p.WaitEOF(ev.Ceiling()) {
			return fail("preconnect/not-closed", fmt.Sprintf("first packet %s: connection stays open", packet.Type(first.Type)))
		}
		b.WaitClosed(bconn)
		if len(p.Inbox) != 0 {
			return fail("preconnect/reply-sent", fmt.Sprintf("first packet %s: broker replied %v", packet.Type(first.Type), got()))
		}
		if n := hooks("Authenticate", "Setup", "Subscribe", "Unsubscribe", "Publish", "Terminate", "Restore"); n != 0 {
			return fail("preconnect/backend-acted", fmt.Sprintf("first packet %s: %d backend hook calls before any CONNECT: %v", packet.Type(first.Type), n, hookNames(b)))
		}
		return nil
	}

	// 2. failed authentication
	authOK := !c.Auth || (first.User == "u" && first.Pass == "p")
	if !authOK {
		if !p.WaitEOF(ev.Ceiling()) {
			return fail("auth/not-closed", "connection stays open after failed authentication")
		}
		b.WaitClosed(bconn)
		g := got()
		if len(g) != 1 || g[0] != "CONNACK code=5" {
			return fail("auth/reply", fmt.Sprintf("failed authentication must yield exactly CONNACK(5), got %v", g))
		}
		if n := hooks("Setup", "Subscribe", "Unsubscribe", "Publish", "Terminate", "Restore"); n != 0 {
			return fail("auth/backend-acted", fmt.Sprintf("failed authentication: backend was called: %v", hookNames(b)))
		}
		return nil
	}

	// 3. connected: compute what is owed up to the first fatal packet
	var owe []string
	fatalAt := -1
	for i, rp := range c.Packets[1:] {
		r, f := owed(rp)
		if f {
			fatalAt = i + 1
			break
		}
		owe = append(owe, r...)
	}
	if fatalAt >= 0 {
		if !p.WaitEOF(ev.Ceiling()) {
			return fail("fatal/not-closed", fmt.Sprintf("packet %d (%s) must close the connection", fatalAt, packet.Type(c.Packets[fatalAt].Type)))
		}
		g := got()
		if len(g) == 0 || g[0] != "CONNACK code=0" {
			return fail("connack/missing", fmt.Sprintf("first reply must be CONNACK(0), got %v", g))
		}
		if ok, k := subMultiset(multiset(g[1:]), multiset(owe)); !ok {
			return fail("fatal/extra-response", fmt.Sprintf("response %q is not owed to any packet before the fatal packet %d; got %v, owed at most %v", k, fatalAt, g[1:], owe))
		}
		return nil
	}
	// no fatal packet: barrier = SUBSCRIBE round trip (ack queue FIFO) + PINGREQ round trip (processor order)
	bar := packet.NewSubscribe()
	bar.ID = 60000
	bar.Subscriptions = []packet.Subscription{{Topic: "s/barrier", QOS: 0}}
	_ = p.Send(bar)
	if p.WaitFor(0, func(g packet.Generic) bool { a, ok := g.(*packet.Suback); return ok && a.ID == 60000 }, ev.Ceiling()) < 0 {
		return fail("liveness/no-barrier-suback", fmt.Sprintf("connection unusable after the sequence (eof=%v): replies so far %v", p.EOF, got()))
	}
	// everything owed must arrive (bounded wait), then a ping closes the window
	want := multiset(owe)
	complete := func() bool {
		ok, _ := subMultiset(want, multiset(got()))
		return ok
	}
	p.WaitFor(0, func(packet.Generic) bool { return complete() }, ev.Ceiling())
	_ = p.Send(packet.NewPingreq())
	npings := want["PINGRESP"] + 1
	p.WaitFor(0, func(packet.Generic) bool { return multiset(got())["PINGRESP"] >= npings }, ev.Ceiling())
	g := got()
	if len(g) == 0 || g[0] != "CONNACK code=0" {
		return fail("connack/missing", fmt.Sprintf("first reply must be CONNACK(0), got %v", g))
	}
	have := multiset(g[1:])
	have["PINGRESP"]--
	have["SUBACK id=60000 codes=[0]"]--
	for k, n := range have {
		if n == 0 {
			delete(have, k)
		}
	}
	if have["CONNACK code=0"] > 0 {
		return fail("connack/more-than-one", fmt.Sprintf("replies: %v", g))
	}
	if ok, k := subMultiset(want, have); !ok {
		sig := "response/missing:" + strings.Fields(k)[0]
		return fail(sig, fmt.Sprintf("owed response %q was not sent; got %v, owed %v", k, sorted(have), owe))
	}
	if ok, k := subMultiset(have, want); !ok {
		return fail("response/extra:"+strings.Fields(k)[0], fmt.Sprintf("response %q is owed to no request; got %v, owed %v", k, sorted(have), owe))
	}
	// SUBACKs in request order per id is implied by the multiset with codes; order of responses of one kind
	return nil
}

func sorted(m map[string]int) []string {
	var l []string
	for k, n := range m {
		l = append(l, fmt.Sprintf("%s x%d", k, n))
	}
	sort.Strings(l)
	return l
}

func hookNames(b *bk.Broker) []string {
	var l []string
	for _, c := range b.Rec.Calls() {
		if !c.Done {
			l = append(l, c.Hook)
		}
	}
	return l
}

func genCase(rt *rapid.T) *Case {
	c := &Case{Auth: rapid.Bool().Draw(rt, "auth")}
	n := rapid.IntRange(1, 12).Draw(rt, "n")
	// long request-only sequences exceed the broker's per-connection token
	// pools (10 parallel publishes / subscribes): every request must still be answered
	long := rapid.IntRange(0, 3).Draw(rt, "long") == 0
	if long {
		n = rapid.IntRange(13, 45).Draw(rt, "n_long")
	}
	q2 := 0
	for i := 0; i < n; i++ {
		var typ byte
		switch {
		case i == 0 && (long || rapid.IntRange(0, 3).Draw(rt, "connect_first") != 0):
			typ = refcodec.CONNECT
		case long:
			typ = rapid.SampledFrom([]byte{refcodec.PUBLISH, refcodec.SUBSCRIBE, refcodec.UNSUBSCRIBE, refcodec.UNSUBSCRIBE, refcodec.PINGREQ, refcodec.PUBREL}).Draw(rt, "type3")
		case rapid.IntRange(0, 5).Draw(rt, "anytype") == 0:
			typ = byte(rapid.IntRange(1, 14).Draw(rt, "type"))
		default:
			typ = rapid.SampledFrom([]byte{refcodec.PUBLISH, refcodec.PUBLISH, refcodec.SUBSCRIBE, refcodec.SUBSCRIBE, refcodec.UNSUBSCRIBE, refcodec.PINGREQ, refcodec.PUBREL, refcodec.PUBACK, refcodec.PUBREC, refcodec.PUBCOMP}).Draw(rt, "type2")
		}
		p := &refcodec.Packet{Type: typ}
		id := rapid.SampledFrom([]uint16{1, 1, 2, 3, 7, 65535}).Draw(rt, "id")
		switch typ {
		case refcodec.CONNECT:
			p.Level, p.ProtoName = 4, "MQTT"
			p.Clean = rapid.Bool().Draw(rt, "clean")
			p.ClientID = "cid"
			p.KeepAlive = uint16(rapid.IntRange(0, 100).Draw(rt, "ka"))
			switch rapid.IntRange(0, 3).Draw(rt, "creds") {
			case 0:
			case 1:
				p.HasUser, p.User, p.HasPass, p.Pass = true, "u", true, "p"
			case 2:
				p.HasUser, p.User, p.HasPass, p.Pass = true, "u", true, "wrong"
			case 3:
				p.HasUser, p.User = true, "nobody"
			}
			if rapid.Bool().Draw(rt, "will") {
				p.HasWill, p.WillTopic, p.WillPayload = true, "p/will", []byte("w")
			}
		case refcodec.CONNACK:
			p.Code = byte(rapid.IntRange(0, 5).Draw(rt, "code"))
		case refcodec.PUBLISH:
			p.QoS = byte(rapid.IntRange(0, 2).Draw(rt, "qos"))
			if p.QoS == 2 {
				q2++
				if q2 > 9 {
					p.QoS = 1
				}
			}
			p.Topic = rapid.SampledFrom([]string{"p/a", "p/b", "p"}).Draw(rt, "topic")
			p.Retain = rapid.IntRange(0, 4).Draw(rt, "retain") == 0
			p.Dup = rapid.IntRange(0, 4).Draw(rt, "dup") == 0
			p.Payload = []byte("x")
			if p.QoS > 0 {
				p.ID = id
			}
		case refcodec.SUBSCRIBE:
			p.ID = id
			for k := rapid.IntRange(1, 8).Draw(rt, "nf"); k > 0; k-- {
				p.Filters = append(p.Filters, rapid.SampledFrom([]string{"s/a", "s/+", "s/#", "s/b/c", "s"}).Draw(rt, "f"))
				p.QoSs = append(p.QoSs, byte(rapid.IntRange(0, 2).Draw(rt, "sq")))
			}
		case refcodec.UNSUBSCRIBE:
			p.ID = id
			for k := rapid.IntRange(1, 3).Draw(rt, "nf"); k > 0; k-- {
				p.Filters = append(p.Filters, rapid.SampledFrom([]string{"s/a", "s/+", "s/#", "s/b/c", "s"}).Draw(rt, "f"))
			}
		case refcodec.SUBACK:
			p.ID, p.Codes = id, []byte{0}
		case refcodec.PUBACK, refcodec.PUBREC, refcodec.PUBREL, refcodec.PUBCOMP, refcodec.UNSUBACK:
			p.ID = id
		}
		c.Packets = append(c.Packets, p)
	}
	return c
}

func TestC20(t *testing.T) {
	run := ev.Start("C20", "exploration")
	run.Rule("rapid-generated packet sequences of length 1-12 over all 14 types (CONNECT first in 3 of 4 cases, otherwise any type) and, in 1 of 4 cases, request-only sequences of 13-45 packets (PUBLISH/SUBSCRIBE/UNSUBSCRIBE/PINGREQ/PUBREL) that exceed the broker's per-connection token pools, backend with and without credentials, CONNECT with right/wrong/missing credentials, arbitrary repeated packet ids from {1,2,3,7,65535}, 1-8 filters per SUBSCRIBE, sent in one burst; compared with the protocol response model (multisets; a SUBSCRIBE and a PINGREQ round trip close the observation window). non-trivial = first packet is not CONNECT, or >= 3 pipelined requests after CONNECT; distinct by case JSON")
	run.Assume("publish topics and subscription filters are disjoint so no deliveries are mixed into the responses; at most 9 QoS 2 PUBLISH per connection (the broker's flow control would otherwise block by design)")
	defer run.Finish(t)
	run.Rapid(t, "sequences", ev.Pick(3000, 150000), func(rt *rapid.T) {
		c := genCase(rt)
		run.Eval(1)
		first := c.Packets[0].Type
		switch {
		case first != refcodec.CONNECT:
			run.Class("first-not-connect")
		case c.Auth && !(c.Packets[0].User == "u" && c.Packets[0].Pass == "p"):
			run.Class("auth-rejected")
		default:
			run.Class("connected")
		}
		if len(c.Packets) > 12 {
			run.Class("long-request-sequence")
		}
		if first != refcodec.CONNECT || len(c.Packets) >= 4 {
			run.NonTrivialJSON(c)
		}
		if v := runCase(c); v != nil {
			run.Candidate(v.sig, v.msg, c)
			rt.Fatalf("%s: %s", v.sig, v.msg)
		}
	})
}

func TestReplay(t *testing.T) {
	var c Case
	ok, err := ev.ReplayCase(&c)
	if !ok {
		t.Skip("no VERIF_REPLAY")
	}
	if err != nil {
		t.Fatal(err)
	}
	for i := 0; i < 10; i++ {
		if v := runCase(&c); v != nil {
			t.Fatalf("VIOLATION reproduced: %s: %s", v.sig, v.msg)
		}
	}
	t.Log("case passes")
}
