// C01 — codec round-trips every well-formed packet; Len() equals the bytes written.
package c01

import (
	"bytes"
	"encoding/json"
	"fmt"
	"os"
	"runtime/debug"
	"testing"

	"github.com/256dpi/gomqtt/packet"
	"pgregory.net/rapid"

	"verif/internal/conv"
	"verif/internal/ev"
	"verif/internal/gen"
	"verif/internal/refcodec"
)

// Case is the replayable unit: a sequence of packets (one for the plain
// round-trip oracle, several for the stream-encoder oracle) and async flags.
type Case struct {
	Packets []*refcodec.Packet `json:"packets"`
	Async   []bool             `json:"async,omitempty"`
}

type verdict struct{ sig, msg string }

func tname(t byte) string { return packet.Type(t).String() }

// checkPacket judges one packet against the reference encoding r.
func checkPacket(p *refcodec.Packet) (v *verdict) {
	defer func() {
		if x := recover(); x != nil {
			v = &verdict{tname(p.Type) + "/panic", fmt.Sprintf("panic: %v\n%s", x, debug.Stack())}
		}
	}()
	r := refcodec.Encode(p)
	lib := conv.ToLib(p)
	// (1) Len
	if lib.Len() != len(r) {
		return &verdict{tname(p.Type) + "/len-mismatch", fmt.Sprintf("Len()=%d, reference encoding has %d bytes", lib.Len(), len(r))}
	}
	// (2) exact buffer
	buf := make([]byte, len(r))
	n, err := lib.Encode(buf)
	if err != nil {
		return &verdict{tname(p.Type) + "/encode-error", fmt.Sprintf("Encode of a well-formed packet failed: %v", err)}
	}
	if n != len(r) {
		return &verdict{tname(p.Type) + "/encode-count", fmt.Sprintf("Encode returned %d, want %d", n, len(r))}
	}
	if !bytes.Equal(buf, r) {
		return &verdict{tname(p.Type) + "/layout", fmt.Sprintf("encoded bytes differ from the reference at offset %d", firstDiff(buf, r))}
	}
	// (3) larger poisoned buffer, shorter buffer
	big := make([]byte, len(r)+9)
	for i := range big {
		big[i] = 0xA5
	}
	n, err = conv.ToLib(p).Encode(big)
	if err != nil || n != len(r) || !bytes.Equal(big[:n], r) {
		return &verdict{tname(p.Type) + "/encode-large-buffer", fmt.Sprintf("Encode into a larger buffer: n=%d err=%v", n, err)}
	}
	for i := len(r); i < len(big); i++ {
		if big[i] != 0xA5 {
			return &verdict{tname(p.Type) + "/writes-past-len", fmt.Sprintf("byte %d past Len()=%d was overwritten", i, len(r))}
		}
	}
	for _, cut := range []int{0, 1, len(r) / 2, len(r) - 1} {
		if cut < 0 || cut >= len(r) {
			continue
		}
		_, err = conv.ToLib(p).Encode(make([]byte, cut))
		if err == nil {
			return &verdict{tname(p.Type) + "/short-buffer-accepted", fmt.Sprintf("Encode into %d bytes (need %d) returned no error", cut, len(r))}
		}
	}
	// (4) decode
	d, _ := packet.Type(p.Type).New()
	dn, err := d.Decode(r)
	if err != nil {
		return &verdict{tname(p.Type) + "/decode-error", fmt.Sprintf("Decode of the reference encoding failed: %v", err)}
	}
	if dn != len(r) {
		return &verdict{tname(p.Type) + "/decode-count", fmt.Sprintf("Decode consumed %d of %d bytes", dn, len(r))}
	}
	if ok, diff := conv.Equal(conv.FromLib(d), conv.Norm(p)); !ok {
		return &verdict{tname(p.Type) + "/roundtrip-field", "decoded packet differs: " + diff}
	}
	// DetectPacket agrees
	if l, ty := packet.DetectPacket(r); l != len(r) || byte(ty) != p.Type {
		return &verdict{tname(p.Type) + "/detect", fmt.Sprintf("DetectPacket = (%d,%d), want (%d,%d)", l, ty, len(r), p.Type)}
	}
	return nil
}

func firstDiff(a, b []byte) int {
	for i := 0; i < len(a) && i < len(b); i++ {
		if a[i] != b[i] {
			return i
		}
	}
	return min(len(a), len(b))
}

// checkSequence sends a sequence through packet.Encoder (pooled buffers) and
// compares the stream with the concatenated reference encodings.
func checkSequence(c *Case) (v *verdict) {
	defer func() {
		if x := recover(); x != nil {
			v = &verdict{"encoder/panic", fmt.Sprintf("panic: %v\n%s", x, debug.Stack())}
		}
	}()
	var out bytes.Buffer
	var want []byte
	enc := packet.NewEncoder(&out)
	for i, p := range c.Packets {
		async := i < len(c.Async) && c.Async[i]
		if err := enc.Write(conv.ToLib(p), async); err != nil {
			return &verdict{"encoder/write-error", fmt.Sprintf("Encoder.Write(packet %d) failed: %v", i, err)}
		}
		want = append(want, refcodec.Encode(p)...)
	}
	if err := enc.Flush(); err != nil {
		return &verdict{"encoder/flush-error", err.Error()}
	}
	if !bytes.Equal(out.Bytes(), want) {
		return &verdict{"encoder/stream-bytes", fmt.Sprintf("stream differs from concatenated reference encodings at offset %d (got %d bytes, want %d)", firstDiff(out.Bytes(), want), out.Len(), len(want))}
	}
	return nil
}

func runCase(c *Case) *verdict {
	for _, p := range c.Packets {
		if v := checkPacket(p); v != nil {
			return v
		}
	}
	if len(c.Packets) > 1 {
		return checkSequence(c)
	}
	return nil
}

func shape(p *refcodec.Packet) []interface{} {
	body := refcodec.Body(p)
	return []interface{}{p.Type, refcodec.FirstByte(p), len(body), len(p.ClientID), len(p.WillTopic), len(p.WillPayload), len(p.User), len(p.Pass),
		len(p.Topic), len(p.Payload), len(p.Filters), len(p.Codes), p.HasWill, p.WillQoS, p.WillRetain, p.Clean, p.Level, p.SessionPresent, p.Code}
}

func brief(p *refcodec.Packet) interface{} {
	return map[string]interface{}{"type": tname(p.Type), "first_byte": refcodec.FirstByte(p), "remaining_length": len(refcodec.Body(p)),
		"field_lengths": map[string]int{"client_id": len(p.ClientID), "will_topic": len(p.WillTopic), "will_payload": len(p.WillPayload), "user": len(p.User),
			"pass": len(p.Pass), "topic": len(p.Topic), "payload": len(p.Payload), "filters": len(p.Filters), "codes": len(p.Codes)}, "id": p.ID}
}

func nontrivial(p *refcodec.Packet) bool {
	rl := len(refcodec.Body(p))
	if rl >= 128 {
		return true
	}
	for _, l := range []int{len(p.ClientID), len(p.WillTopic), len(p.WillPayload), len(p.User), len(p.Pass), len(p.Topic)} {
		if l >= 256 {
			return true
		}
	}
	return p.HasWill || p.HasUser || p.Dup || p.Retain || p.QoS > 0 || p.SessionPresent || p.Code != 0 || p.Level == 3 || len(p.Filters) > 1 || len(p.Codes) > 1
}

func record(run *ev.Run, p *refcodec.Packet) {
	run.Eval(1)
	run.Class("type:" + tname(p.Type))
	rl := len(refcodec.Body(p))
	run.Class(fmt.Sprintf("rl_varint_bytes:%d", refcodec.VarintLen(rl)))
	if nontrivial(p) {
		run.NonTrivial(ev.Hash(shape(p)...), func() interface{} { return brief(p) })
	}
}

func pad(n int, c byte) []byte { return bytes.Repeat([]byte{c}, n) }

// withRL builds a well-formed packet of the type whose remaining length is
// exactly target, or nil when the type cannot have that length.
func withRL(typ byte, target int, variant int) *refcodec.Packet {
	p := &refcodec.Packet{Type: typ}
	switch typ {
	case refcodec.PUBLISH:
		p.QoS = byte(variant % 3)
		p.Topic = "t"
		need := target - 3
		if p.QoS > 0 {
			p.ID = 7
			need -= 2
		}
		if need < 0 {
			return nil
		}
		p.Payload = pad(need, 'p')
	case refcodec.SUBACK:
		if target < 3 {
			return nil
		}
		p.ID = 9
		p.Codes = bytes.Repeat([]byte{0, 1, 2, 0x80}, (target-2)/4+1)[:target-2]
	case refcodec.SUBSCRIBE, refcodec.UNSUBSCRIBE:
		per := 2
		if typ == refcodec.SUBSCRIBE {
			per = 3
		}
		rest := target - 2
		if rest < per {
			return nil
		}
		p.ID = 11
		for rest > 0 {
			l := rest - per
			if l > 65535 {
				l = 65535
				// never leave a remainder smaller than one entry
				if rest-per-l < per {
					l -= per
				}
			}
			if l < 0 {
				return nil
			}
			p.Filters = append(p.Filters, string(pad(l, 'f')))
			if typ == refcodec.SUBSCRIBE {
				p.QoSs = append(p.QoSs, byte(len(p.Filters)%3))
			}
			rest -= per + l
		}
	case refcodec.CONNECT:
		p.Level, p.ProtoName, p.Clean = 4, "MQTT", true
		if variant%2 == 1 {
			p.Level, p.ProtoName = 3, "MQIsdp"
		}
		rest := target - (2 + len(p.ProtoName) + 1 + 1 + 2 + 2)
		if rest < 0 {
			return nil
		}
		take := func(min int) int {
			l := rest
			if l > 65535 {
				l = 65535
			}
			rest -= l
			return l
		}
		p.ClientID = string(pad(take(0), 'c'))
		if rest > 0 {
			// will: 2+1 topic, 2+payload
			if rest < 5 {
				return nil
			}
			p.HasWill, p.WillTopic, p.WillQoS = true, "w", byte(variant%3)
			rest -= 5
			p.WillPayload = pad(take(0), 'W')
		}
		if rest > 0 {
			if rest < 3 {
				return nil
			}
			p.HasUser = true
			rest -= 2
			p.User = string(pad(take(1), 'u'))
		}
		if rest > 0 {
			if rest < 3 {
				return nil
			}
			p.HasPass = true
			rest -= 2
			p.Pass = string(pad(take(1), 's'))
		}
		if rest != 0 {
			return nil
		}
	default:
		return nil
	}
	if len(refcodec.Body(p)) != target {
		panic(fmt.Sprintf("withRL bug: type %d target %d got %d", typ, target, len(refcodec.Body(p))))
	}
	return p
}

func fail(run *ev.Run, v *verdict, c *Case) {
	run.Violation(v.sig, v.msg, c)
}

func TestC01(t *testing.T) {
	run := ev.Start("C01", "exploration")
	run.Rule("well-formed packets of all 14 types built by construction: exhaustive id/flag/code sub-spaces, a sweep placing the remaining length at every varint boundary +-2 for every type with a variable body, field lengths at 0/1/255/256/65534/65535, and rapid-generated mixes (single packets and encoder sequences); non-trivial = remaining length >= 128, a field >= 256 bytes, or a non-default flag/optional-field combination; distinct by (type, first byte, remaining length, field-length vector, flags)")
	run.Assume("the reference codec (verif/internal/refcodec) implements MQTT 3.1.1 section 2 and 3 layouts correctly; it was written from the specification and shares no code with the library")
	defer run.Finish(t)
	shard, shards := ev.Shard()

	one := func(p *refcodec.Packet) bool {
		record(run, p)
		if v := checkPacket(p); v != nil {
			fail(run, v, &Case{Packets: []*refcodec.Packet{p}})
			return false
		}
		return true
	}

	if shard == 0 {
		// --- exhaustive sub-spaces
		for _, typ := range []byte{refcodec.PUBACK, refcodec.PUBREC, refcodec.PUBREL, refcodec.PUBCOMP, refcodec.UNSUBACK} {
			for id := 1; id <= 65535; id++ {
				if !one(&refcodec.Packet{Type: typ, ID: uint16(id)}) {
					break
				}
			}
		}
		run.Exhaustive("ids 1..65535 x {PUBACK,PUBREC,PUBREL,PUBCOMP,UNSUBACK} (327675)")
		for id := 1; id <= 65535; id++ {
			ok := one(&refcodec.Packet{Type: refcodec.SUBSCRIBE, ID: uint16(id), Filters: []string{"a/b"}, QoSs: []byte{byte(id % 3)}}) &&
				one(&refcodec.Packet{Type: refcodec.UNSUBSCRIBE, ID: uint16(id), Filters: []string{"a/b"}}) &&
				one(&refcodec.Packet{Type: refcodec.SUBACK, ID: uint16(id), Codes: []byte{byte(id % 3)}}) &&
				one(&refcodec.Packet{Type: refcodec.PUBLISH, ID: uint16(id), QoS: byte(1 + id%2), Topic: "t", Payload: []byte{1}})
			if !ok {
				break
			}
		}
		run.Exhaustive("ids 1..65535 x {SUBSCRIBE,UNSUBSCRIBE,SUBACK,PUBLISH qos>0} (262140)")
		for _, typ := range []byte{refcodec.PINGREQ, refcodec.PINGRESP, refcodec.DISCONNECT} {
			one(&refcodec.Packet{Type: typ})
		}
		for sp := 0; sp < 2; sp++ {
			for code := 0; code <= 5; code++ {
				one(&refcodec.Packet{Type: refcodec.CONNACK, SessionPresent: sp == 1, Code: byte(code)})
			}
		}
		run.Exhaustive("CONNACK session-present x return code (12)")
		for fl := 0; fl < 16; fl++ {
			qos := byte(fl>>1) & 3
			if qos == 3 {
				continue
			}
			for _, id := range []uint16{1, 255, 256, 65535} {
				for _, pl := range []int{0, 1, 200} {
					p := &refcodec.Packet{Type: refcodec.PUBLISH, Dup: fl&8 != 0, Retain: fl&1 != 0, QoS: qos, Topic: "a/b", Payload: pad(pl, 'x')}
					if qos > 0 {
						p.ID = id
					}
					one(p)
				}
			}
		}
		run.Exhaustive("PUBLISH dup x retain x qos (12 flag combinations) x id boundaries x payload {0,1,200}")
		nshape := 0
		for _, level := range []byte{3, 4} {
			for clean := 0; clean < 2; clean++ {
				for will := 0; will < 7; will++ { // none, qos0..2 x retain
					for auth := 0; auth < 3; auth++ {
						for cid := 0; cid < 2; cid++ {
							if cid == 0 && clean == 0 {
								continue
							}
							p := &refcodec.Packet{Type: refcodec.CONNECT, Level: level, ProtoName: map[byte]string{3: "MQIsdp", 4: "MQTT"}[level], Clean: clean == 1, KeepAlive: 10}
							if cid == 1 {
								p.ClientID = "client"
							}
							if will > 0 {
								p.HasWill, p.WillTopic, p.WillPayload = true, "w/t", []byte("bye")
								p.WillQoS, p.WillRetain = byte((will-1)%3), will > 3
							}
							if auth > 0 {
								p.HasUser, p.User = true, "u"
							}
							if auth > 1 {
								p.HasPass, p.Pass = true, "pw"
							}
							one(p)
							nshape++
						}
					}
				}
			}
		}
		run.Exhaustive(fmt.Sprintf("CONNECT level x clean x will{none,qos0-2 x retain} x auth{none,user,user+pass} x client id{empty,set} (%d shapes)", nshape))
		// Version 0 is documented as an alias of 4
		{
			c := packet.NewConnect()
			c.Version, c.ClientID = 0, "x"
			want := refcodec.Encode(&refcodec.Packet{Type: refcodec.CONNECT, Level: 4, ProtoName: "MQTT", Clean: true, ClientID: "x"})
			buf := make([]byte, c.Len())
			n, err := c.Encode(buf)
			run.Eval(1)
			if err != nil || n != len(want) || !bytes.Equal(buf, want) {
				run.Violation("Connect/version-0-alias", fmt.Sprintf("Version 0 must encode as level 4: n=%d err=%v", n, err), nil)
			}
		}
		var codes func(prefix []byte, depth int)
		cnt := 0
		codes = func(prefix []byte, depth int) {
			if len(prefix) > 0 {
				one(&refcodec.Packet{Type: refcodec.SUBACK, ID: 5, Codes: append([]byte{}, prefix...)})
				cnt++
			}
			if depth == 0 {
				return
			}
			for _, c := range []byte{0, 1, 2, 0x80} {
				codes(append(prefix, c), depth-1)
			}
		}
		codes(nil, 4)
		run.Exhaustive(fmt.Sprintf("SUBACK return-code vectors over {0,1,2,0x80} up to length 4 (%d)", cnt))

		// --- field length boundaries
		for _, l := range []int{0, 1, 255, 256, 65534, 65535} {
			s := string(pad(l, 'z'))
			if l > 0 {
				one(&refcodec.Packet{Type: refcodec.PUBLISH, Topic: s})
				one(&refcodec.Packet{Type: refcodec.CONNECT, Level: 4, ProtoName: "MQTT", Clean: true, ClientID: "c", HasWill: true, WillTopic: s})
				one(&refcodec.Packet{Type: refcodec.CONNECT, Level: 4, ProtoName: "MQTT", Clean: true, ClientID: "c", HasUser: true, User: s})
				one(&refcodec.Packet{Type: refcodec.CONNECT, Level: 4, ProtoName: "MQTT", Clean: true, ClientID: "c", HasUser: true, User: "u", HasPass: true, Pass: s})
			}
			one(&refcodec.Packet{Type: refcodec.CONNECT, Level: 4, ProtoName: "MQTT", Clean: true, ClientID: s})
			one(&refcodec.Packet{Type: refcodec.CONNECT, Level: 4, ProtoName: "MQTT", Clean: true, ClientID: "c", HasWill: true, WillTopic: "w", WillPayload: []byte(s)})
			one(&refcodec.Packet{Type: refcodec.SUBSCRIBE, ID: 1, Filters: []string{s, "x"}, QoSs: []byte{1, 2}})
			one(&refcodec.Packet{Type: refcodec.UNSUBSCRIBE, ID: 1, Filters: []string{"x", s}})
		}
	}

	// --- remaining length boundary sweep (sharded by index)
	bounds := []int{0, 1, 127, 128, 16383, 16384, 2097151, 2097152}
	idx := 0
	for _, typ := range []byte{refcodec.PUBLISH, refcodec.CONNECT, refcodec.SUBSCRIBE, refcodec.UNSUBSCRIBE, refcodec.SUBACK} {
		for _, b := range bounds {
			for d := -2; d <= 2; d++ {
				for variant := 0; variant < 3; variant++ {
					idx++
					if idx%shards != shard {
						continue
					}
					if b+d < 0 {
						continue
					}
					if p := withRL(typ, b+d, variant); p != nil {
						one(p)
						run.Class("rl_boundary_sweep")
					}
				}
			}
		}
	}
	if ev.Thorough() && shard == 0 {
		// the largest legal packet: remaining length 268 435 455
		p := withRL(refcodec.PUBLISH, refcodec.MaxRL, 1)
		one(p)
		run.Class("rl_max_268435455")
	}

	// --- random single packets
	run.Rapid(t, "roundtrip", ev.Pick(3000, 400000), func(rt *rapid.T) {
		p := gen.Packet(rt)
		record(run, p)
		if v := checkPacket(p); v != nil {
			run.Candidate(v.sig, v.msg, &Case{Packets: []*refcodec.Packet{p}})
			rt.Fatalf("%s: %s", v.sig, v.msg)
		}
	})
	// --- random encoder sequences (large before small: pooled buffer holds stale bytes)
	run.Rapid(t, "encoder-sequence", ev.Pick(600, 60000), func(rt *rapid.T) {
		n := rapid.IntRange(2, 8).Draw(rt, "n")
		c := &Case{}
		for i := 0; i < n; i++ {
			var p *refcodec.Packet
			if rapid.Bool().Draw(rt, "small") {
				p = gen.SmallPacket(rt, gen.Type(rt))
			} else {
				p = gen.Packet(rt)
			}
			c.Packets = append(c.Packets, p)
			c.Async = append(c.Async, rapid.Bool().Draw(rt, "async"))
			record(run, p)
		}
		run.Class("encoder_sequence")
		if v := checkSequence(c); v != nil {
			run.Candidate(v.sig, v.msg, c)
			rt.Fatalf("%s: %s", v.sig, v.msg)
		}
	})
}

func TestReplay(t *testing.T) {
	var c Case
	ok, err := ev.ReplayCase(&c)
	if !ok {
		t.Skip("no VERIF_REPLAY")
	}
	if err != nil {
		t.Fatal(err)
	}
	if v := runCase(&c); v != nil {
		t.Fatalf("VIOLATION reproduced: %s: %s", v.sig, v.msg)
	}
	t.Log("case passes")
}

// FuzzC01 decodes fuzz bytes into a packet structure through rapid's
// generator (bytes -> bitstream), so the coverage-guided engine explores
// packet values rather than raw input validation.
func FuzzC01(f *testing.F) {
	f.Add([]byte{0})
	f.Add(bytes.Repeat([]byte{0xff, 0x10, 0x80, 0x01}, 64))
	f.Fuzz(rapid.MakeFuzz(func(rt *rapid.T) {
		p := gen.Packet(rt)
		if v := checkPacket(p); v != nil {
			writeFuzzReplay("C01", v, &Case{Packets: []*refcodec.Packet{p}})
			rt.Fatalf("%s: %s", v.sig, v.msg)
		}
	}))
}

func writeFuzzReplay(prop string, v *verdict, c interface{}) {
	b, _ := json.MarshalIndent(map[string]interface{}{"property": prop, "signature": v.sig, "message": v.msg, "tier": "thorough", "case": c}, "", " ")
	_ = os.MkdirAll(ev.Root()+"/replays", 0o755)
	_ = os.WriteFile(fmt.Sprintf("%s/replays/%s-fuzz-%x.json", ev.Root(), prop, ev.Hash(v.sig)), b, 0o644)
}
