// C16 — the inflight window towards a client is respected and delivery keeps flowing.
package c16

import (
	"fmt"
	"testing"
	"time"

	"github.com/256dpi/gomqtt/broker"
	"github.com/256dpi/gomqtt/packet"
	"pgregory.net/rapid"

	"verif/internal/bk"
	"verif/internal/ev"
	"verif/internal/memconn"
	"verif/internal/peer"
)

// Case is one acknowledgement plan.
//
//	Window:    configured inflight window w.
//	QoS:       QoS of the n numbered messages, in publication order.
//	Batch:     acknowledgements are released when this many deliveries are
//	           waiting for one (1 = immediately); in any case when the window is
//	           full or everything has arrived.
//	Delay:     >0: sliding plan - delivery k is acknowledged when delivery k+Delay
//	           arrives (Delay < Window); overrides Batch.
//	Reverse:   release a batch in reverse arrival order.
//	HoldComp:  PUBCOMP is not sent on PUBREL arrival but with the next release.
//	Reconnect: >0: after that many QoS>0 deliveries the subscriber drops the
//	           connection without acknowledging what is pending and reconnects
//	           with clean session off. The publisher then publishes everything
//	           up front (n <= 90), otherwise it runs concurrently.
type Case struct {
	Window    int   `json:"window"`
	QoS       []int `json:"qos"`
	Batch     int   `json:"batch"`
	Delay     int   `json:"delay,omitempty"`
	Reverse   bool  `json:"reverse,omitempty"`
	HoldComp  bool  `json:"hold_comp,omitempty"`
	Reconnect []int `json:"reconnect,omitempty"`
	// idle plan: the broker's token timeout is shortened to TokenTimeoutMs and
	// the publisher pauses IdleMs (> timeout) before message IdleBefore; the
	// subscriber acknowledges at once, so no wait for a slot ever lasts long.
	TokenTimeoutMs int `json:"token_timeout_ms,omitempty"`
	IdleBefore     int `json:"idle_before,omitempty"`
	IdleMs         int `json:"idle_ms,omitempty"`
	// back-pressure plan: the session queue holds only Queue messages (0 = 100),
	// so the concurrent publisher keeps waiting for room inside the backend, and
	// with Unsub the subscriber puts an UNSUBSCRIBE for an unrelated filter in
	// front of every batch of acknowledgements: other requests of a client that
	// acknowledges everything must not get in the way of the acknowledgements.
	Queue int  `json:"queue,omitempty"`
	Unsub bool `json:"unsub,omitempty"`
}

type verdict struct{ sig, msg string }

const (
	stReceived = iota // PUBLISH received, nothing sent
	stRecSent         // PUBREC sent, waiting for PUBREL
	stRelRcvd         // PUBREL received, PUBCOMP not sent
)

type pend struct {
	id    packet.ID
	qos   int
	state int
	tag   string
}

type sub struct {
	c       *Case
	b       *bk.Broker
	p       *peer.Peer
	bconn   *memconn.Conn
	pending []*pend           // unacknowledged deliveries of the live connection, arrival order
	got     map[string]int    // arrivals per tag (application level, retransmissions excluded for QoS 2)
	done    map[string]bool   // QoS>0 tags whose handshake the subscriber completed
	seenQ   map[string]bool   // QoS>0 tags seen at least once
	recSet  map[packet.ID]string // receiver state: QoS 2 ids passed to the application, PUBCOMP not yet sent
	scanned int
	unsubs  int
	maxSeen int
	arrQ    int // QoS>0 deliveries (including retransmissions) seen, for Reconnect
	totalQ  int
	total0  int
	full    int // how often the window was observed completely used
	resumed int
	resumedWithPending int
}

func (s *sub) fail(sig, format string, a ...interface{}) *verdict {
	return &verdict{sig, fmt.Sprintf(format, a...) + "\n--- event log (tail) ---\n" + tail(s.b.Log.Dump(), 6000)}
}

func tail(s string, n int) string {
	if len(s) > n {
		return "...\n" + s[len(s)-n:]
	}
	return s
}

func (s *sub) find(id packet.ID) *pend {
	for _, p := range s.pending {
		if p.id == id {
			return p
		}
	}
	return nil
}

func (s *sub) remove(x *pend) {
	var keep []*pend
	for _, p := range s.pending {
		if p != x {
			keep = append(keep, p)
		}
	}
	s.pending = keep
}

func (s *sub) allArrived() bool { return len(s.seenQ) == s.totalQ }

// absorb processes newly received packets; it returns a verdict when the
// window invariant is broken.
func (s *sub) absorb() *verdict {
	for ; s.scanned < len(s.p.Inbox); s.scanned++ {
		switch g := s.p.Inbox[s.scanned].(type) {
		case *packet.Publish:
			tag := string(g.Message.Payload)
			if g.Message.QOS == 0 {
				s.got[tag]++
				continue
			}
			s.arrQ++
			s.seenQ[tag] = true
			if old := s.find(g.ID); old != nil {
				// a retransmission on the same connection is never expected; count it once
				s.remove(old)
			}
			if g.Message.QOS == 1 {
				s.got[tag]++
			} else if _, known := s.recSet[g.ID]; !known {
				s.got[tag]++
				s.recSet[g.ID] = tag
			}
			s.pending = append(s.pending, &pend{id: g.ID, qos: int(g.Message.QOS), tag: tag})
			if len(s.pending) > s.maxSeen {
				s.maxSeen = len(s.pending)
			}
			if len(s.pending) > s.c.Window {
				ids := []string{}
				for _, p := range s.pending {
					ids = append(ids, fmt.Sprintf("%d(q%d,%s)", p.id, p.qos, p.tag))
				}
				return s.fail("window/exceeded", "the subscriber holds %d QoS 1/2 deliveries it has not acknowledged yet (%v) although the inflight window is %d", len(s.pending), ids, s.c.Window)
			}
			// sliding plan: acknowledge the oldest while more than Delay are pending
			if s.c.Delay > 0 {
				for s.releasable() > 0 && len(s.pending) > s.c.Delay {
					s.releaseOne(s.firstReleasable())
				}
			}
		case *packet.Pubrel:
			x := s.find(g.ID)
			if x == nil {
				// PUBREL for a handshake begun on an earlier connection
				x = &pend{id: g.ID, qos: 2, state: stRelRcvd}
				s.pending = append(s.pending, x)
				s.arrQ++
				if len(s.pending) > s.c.Window {
					return s.fail("window/exceeded", "the subscriber holds %d unacknowledged QoS 1/2 deliveries (retransmitted PUBREL included) although the inflight window is %d", len(s.pending), s.c.Window)
				}
			}
			x.state = stRelRcvd
			if !s.c.HoldComp {
				s.releaseOne(x)
			}
		}
	}
	return nil
}

func (s *sub) releasable() int {
	n := 0
	for _, p := range s.pending {
		if p.state != stRecSent {
			n++
		}
	}
	return n
}

func (s *sub) firstReleasable() *pend {
	for _, p := range s.pending {
		if p.state != stRecSent {
			return p
		}
	}
	return nil
}

func (s *sub) releaseOne(x *pend) {
	switch {
	case x.qos == 1:
		_ = s.p.Send(&packet.Puback{ID: x.id})
		s.done[x.tag] = true
		s.remove(x)
	case x.state == stReceived:
		_ = s.p.Send(&packet.Pubrec{ID: x.id})
		x.state = stRecSent
	case x.state == stRelRcvd:
		_ = s.p.Send(&packet.Pubcomp{ID: x.id})
		delete(s.recSet, x.id)
		s.remove(x)
	}
}

// maybeRelease applies the batch rule.
func (s *sub) maybeRelease() {
	n := s.releasable()
	if n == 0 {
		return
	}
	full := len(s.pending) >= s.c.Window
	if full {
		s.full++
	}
	batch := s.c.Batch
	if s.c.Delay > 0 {
		batch = 1 << 30 // the sliding plan releases in absorb; here only full / all-arrived
	}
	if !(n >= batch || full || s.allArrived()) {
		return
	}
	var rel []*pend
	for _, p := range s.pending {
		if p.state != stRecSent {
			rel = append(rel, p)
		}
	}
	if s.c.Reverse {
		for i, j := 0, len(rel)-1; i < j; i, j = i+1, j-1 {
			rel[i], rel[j] = rel[j], rel[i]
		}
	}
	if s.c.Unsub && len(rel) > 0 {
		s.unsubs++
		_ = s.p.Send(&packet.Unsubscribe{ID: packet.ID(30000 + s.unsubs%20000), Topics: []string{"c16x/none"}})
	}
	for _, p := range rel {
		s.releaseOne(p)
	}
}

func (s *sub) connect(first bool) *verdict {
	s.p, s.bconn = s.b.Dial("sub")
	s.p.AutoAck = false
	s.scanned = 0
	ack, err := s.p.ConnectID("sub", false)
	if err != nil {
		return s.fail("harness/connect", "%v", err)
	}
	if !first && !ack.SessionPresent {
		return s.fail("resume/session-lost", "unclean reconnect did not resume the session")
	}
	if first {
		if _, err := s.p.Subscribe([]packet.Subscription{{Topic: "c16/#", QOS: 2}}); err != nil {
			return s.fail("harness/subscribe", "%v", err)
		}
	}
	return nil
}

func runCase(c *Case) (*verdict, *sub) {
	b := bk.New(func(m *broker.MemoryBackend, e *broker.Engine) {
		m.ClientInflightMessages = c.Window
		m.SessionQueueSize = 100
		if c.Queue > 0 {
			m.SessionQueueSize = c.Queue
		}
		if c.TokenTimeoutMs > 0 {
			m.ClientTokenTimeout = time.Duration(c.TokenTimeoutMs) * time.Millisecond * ev.Slow()
		}
	})
	defer b.Shutdown()
	s := &sub{c: c, b: b, got: map[string]int{}, done: map[string]bool{}, seenQ: map[string]bool{}, recSet: map[packet.ID]string{}}
	for _, q := range c.QoS {
		if q > 0 {
			s.totalQ++
		} else {
			s.total0++
		}
	}
	if v := s.connect(true); v != nil {
		return v, s
	}
	pub, _ := b.Dial("pub")
	if _, err := pub.ConnectID("pub", true); err != nil {
		return s.fail("harness/publisher-connect", "%v", err), s
	}
	publishAll := func() error {
		for i, q := range c.QoS {
			if c.IdleMs > 0 && i == c.IdleBefore {
				time.Sleep(time.Duration(c.IdleMs) * time.Millisecond * ev.Slow())
			}
			if err := pub.Publish("c16/m", []byte(fmt.Sprintf("m%03d-q%d", i, q)), packet.QOS(q), false); err != nil {
				return err
			}
		}
		return nil
	}
	pubErr := make(chan error, 1)
	if len(c.Reconnect) > 0 {
		// everything is published up front, so that no publish falls into the
		// interval in which the subscriber's old connection is going down
		pubErr <- publishAll()
	} else {
		go func() { pubErr <- publishAll() }()
	}
	reconnects := append([]int{}, c.Reconnect...)
	deadline := time.Now().Add(ev.Ceiling())
	progress := func() { deadline = time.Now().Add(ev.Ceiling()) }
	pubDone := false
	for {
		before := len(s.p.Inbox)
		s.p.Pump()
		if v := s.absorb(); v != nil {
			return v, s
		}
		if s.p.EOF {
			return s.fail("connection/closed-by-broker", "the broker closed the subscriber's connection (%v) although every delivery was being acknowledged", s.p.EOFErr), s
		}
		if len(reconnects) > 0 && s.arrQ >= reconnects[0] && len(s.pending) > 0 {
			reconnects = reconnects[1:]
			s.resumed++
			s.resumedWithPending += len(s.pending)
			s.p.Drop()
			if !b.WaitClosed(s.bconn) {
				return s.fail("liveness/client-not-terminated", "broker side of the dropped subscriber connection did not terminate"), s
			}
			s.pending = nil
			if v := s.connect(false); v != nil {
				return v, s
			}
			progress()
			continue
		}
		s.maybeRelease()
		if len(s.p.Inbox) != before {
			progress()
		}
		if !pubDone {
			select {
			case err := <-pubErr:
				if err != nil {
					return s.fail("publisher/handshake-incomplete", "%v", err), s
				}
				pubDone = true
				progress()
			default:
			}
		}
		if pubDone && s.allArrived() && len(s.pending) == 0 && (len(c.Reconnect) > 0 || s.count0() == s.total0) {
			break
		}
		if time.Now().After(deadline) {
			return s.fail("progress/stalled", "delivery stalled: %d of %d QoS 1/2 messages and %d of %d QoS 0 messages arrived, %d deliveries are waiting for the subscriber's acknowledgement (window %d), publisher finished=%v", len(s.seenQ), s.totalQ, s.count0(), s.total0, len(s.pending), c.Window, pubDone), s
		}
		s.p.PumpWait(500 * time.Microsecond)
	}
	// the connection must still be alive and every message must have arrived
	if !s.p.Ping() {
		return s.fail("connection/closed-by-broker", "the subscriber's connection does not answer PINGREQ after all deliveries were acknowledged"), s
	}
	for i, q := range c.QoS {
		tag := fmt.Sprintf("m%03d-q%d", i, q)
		n := s.got[tag]
		switch {
		case q == 0 && len(c.Reconnect) > 0:
			// QoS 0 deliveries queued at the moment of a connection loss are not retained (not part of this property)
		case n == 0:
			return s.fail("delivery/missing", "message %s never arrived", tag), s
		case q != 1 && n > 1:
			return s.fail("delivery/duplicate", "QoS %d message %s arrived %d times", q, tag, n), s
		}
	}
	return nil, s
}

func (s *sub) count0() int {
	n := 0
	for i, q := range s.c.QoS {
		if q == 0 && s.got[fmt.Sprintf("m%03d-q%d", i, q)] > 0 {
			n++
		}
	}
	return n
}

func genCase(rt *rapid.T) *Case {
	c := &Case{Window: rapid.SampledFrom([]int{1, 1, 2, 2, 3, 4, 5, 7, 10}).Draw(rt, "window")}
	kind := rapid.SampledFrom([]string{"immediate", "batch", "batch-full", "batch-full", "delay", "reconnect", "reconnect", "qos0-burst", "immediate", "batch", "batch-full", "delay", "reconnect", "qos0-burst", "idle", "backpressure", "backpressure"}).Draw(rt, "plan")
	maxN := 20 * c.Window
	mix := rapid.SampledFrom([][]int{{1}, {2}, {1, 2}, {0, 1, 2}, {0, 0, 1, 2, 2}}).Draw(rt, "mix")
	n := rapid.IntRange(1, maxN).Draw(rt, "n")
	c.Batch = 1
	switch kind {
	case "batch":
		c.Batch = rapid.IntRange(1, c.Window).Draw(rt, "batch")
	case "batch-full":
		c.Batch = c.Window
	case "delay":
		if c.Window > 1 {
			c.Delay = rapid.IntRange(1, c.Window-1).Draw(rt, "delay")
		}
	case "reconnect":
		c.Batch = rapid.SampledFrom([]int{1, c.Window, c.Window + 5}).Draw(rt, "batch")
		if n > 90 {
			n = 90
		}
		k := rapid.IntRange(1, 3).Draw(rt, "nreconnect")
		at := 0
		for i := 0; i < k; i++ {
			at += rapid.IntRange(1, 2*c.Window+1).Draw(rt, "after")
			c.Reconnect = append(c.Reconnect, at)
		}
	case "backpressure":
		// window stays full until released, tiny queue: the publisher waits for room all the time
		c.Batch = c.Window
		c.Queue = rapid.IntRange(1, 4).Draw(rt, "queue")
		c.Unsub = rapid.IntRange(0, 3).Draw(rt, "unsub") > 0
		mix = [][]int{{1}, {2}, {1, 2}}[rapid.IntRange(0, 2).Draw(rt, "m")]
		if n < c.Window+c.Queue+2 {
			n = c.Window + c.Queue + 2
		}
	case "idle":
		// a connection that was idle for longer than the token timeout and then fills its window
		c.Window = rapid.SampledFrom([]int{1, 2}).Draw(rt, "w")
		c.TokenTimeoutMs = 400
		c.IdleMs = 600
		n = rapid.IntRange(2, 8).Draw(rt, "n")
		c.IdleBefore = rapid.IntRange(1, n-1).Draw(rt, "idle_before")
		mix = [][]int{{1}, {2}, {1, 2}}[rapid.IntRange(0, 2).Draw(rt, "m")]
	case "qos0-burst":
		// many QoS 0 deliveries, then a full window of unacknowledged QoS 1/2 ones
		n0 := rapid.IntRange(c.Window, 50*c.Window).Draw(rt, "n0")
		if n0 > 180 {
			n0 = 180
		}
		for i := 0; i < n0; i++ {
			c.QoS = append(c.QoS, 0)
		}
		for i := 0; i < c.Window+rapid.IntRange(0, 3).Draw(rt, "extra"); i++ {
			c.QoS = append(c.QoS, rapid.SampledFrom([]int{1, 2}).Draw(rt, "q"))
		}
		c.Batch = c.Window
		c.HoldComp = rapid.Bool().Draw(rt, "hold")
		return c
	}
	for i := 0; i < n; i++ {
		c.QoS = append(c.QoS, rapid.SampledFrom(mix).Draw(rt, "q"))
	}
	c.Reverse = rapid.Bool().Draw(rt, "reverse")
	c.HoldComp = rapid.Bool().Draw(rt, "hold")
	return c
}

func classify(c *Case) string {
	switch {
	case c.Queue > 0 && c.Unsub:
		return "backpressure+unsubscribe"
	case c.Queue > 0:
		return "backpressure"
	case c.IdleMs > 0:
		return "idle-then-full-window"
	case len(c.Reconnect) > 0:
		return "reconnect"
	case c.Delay > 0:
		return "sliding-delay"
	case c.Batch >= c.Window && c.Window > 1:
		return "batch=window"
	case c.Batch > 1:
		return "batch<window"
	}
	return "immediate"
}

func TestC16(t *testing.T) {
	run := ev.Start("C16", "exploration")
	run.Rule("acknowledgement plans: window w in {1,2,3,4,5,7,10}, n <= 20*w numbered messages of mixed QoS published by a second peer (concurrently, or up front for reconnect plans), subscriber acknowledges per plan {immediately, in batches of b <= w, batch = full window, sliding delay d < w, reversed within a batch, PUBCOMP withheld until the next release, drop + unclean reconnect after j deliveries with unacknowledged ones pending (1-3 times), connection idle for longer than a shortened token timeout (400 ms) before the window fills again, QoS 0 burst followed by a full unacknowledged window, back-pressure (session queue of 1-4, publisher waiting for room inside the backend) with an UNSUBSCRIBE for an unrelated filter in front of every batch of acknowledgements}; only valid acknowledgements (each received id once). Oracle at the subscriber at EVERY arrival, retransmissions included: received-and-not-yet-acknowledged QoS 1/2 deliveries <= w (a lower bound of the broker's own count); progress: with everything eventually acknowledged all n arrive, the connection stays alive, a full window of w is reached again after each resume (batch = window plans stall otherwise). non-trivial = n >= 3*w or a reconnect with unacknowledged deliveries; distinct by plan")
	run.Assume("idle plans: the subscriber acknowledges within microseconds, far below the 400 ms token timeout configured there", "a delivery stall is judged by a 10 s ceiling without any arrival (typical latency < 1 ms); the broker's own token timeout is set to 30 s so that it cannot mask a stall")
	defer run.Finish(t)

	exec := func(c *Case) *verdict {
		run.Eval(1)
		run.Inflight(c)
		v, s := runCase(c)
		run.ClearInflight()
		run.Class("plan=" + classify(c))
		if s.full > 0 {
			run.Class("window-observed-full")
		}
		if s.totalQ >= 3*c.Window || s.resumedWithPending > 0 || c.IdleMs > 0 {
			run.NonTrivialJSON(c)
		}
		if s.resumedWithPending > 0 {
			run.Class("resume-with-unacked")
		}
		return v
	}
	fixed := []*Case{
		{Window: 1, QoS: []int{2, 2, 1, 2}, Batch: 1, HoldComp: true},
		{Window: 2, QoS: []int{2, 1, 2, 1, 2, 2, 1}, Batch: 2, HoldComp: true, Reconnect: []int{2, 4}},
		{Window: 3, QoS: []int{0, 0, 0, 0, 0, 0, 0, 0, 0, 1, 1, 1, 2}, Batch: 3},
		{Window: 4, QoS: []int{1, 1, 2, 2, 1, 1, 2, 2, 1, 1, 2, 2, 1, 1}, Batch: 9, Reconnect: []int{3}},
		{Window: 1, QoS: []int{1, 1, 2, 1}, Batch: 1, TokenTimeoutMs: 400, IdleBefore: 1, IdleMs: 600},
		{Window: 10, QoS: []int{1, 2, 1, 2, 1, 2, 1, 2, 1, 2, 1, 2, 1, 2, 1, 2, 1, 2, 1, 2, 1, 2, 1, 2, 1, 2, 1, 2, 1, 2, 1, 2}, Batch: 10, Reverse: true, HoldComp: true},
	}
	if shard, _ := ev.Shard(); shard == 0 {
		for _, c := range fixed {
			if v := exec(c); v != nil {
				run.Violation(v.sig, v.msg, c)
			}
		}
	}
	run.Rapid(t, "plans", ev.Pick(500, 40000), func(rt *rapid.T) {
		c := genCase(rt)
		if v := exec(c); v != nil {
			run.Candidate(v.sig, v.msg, c)
			rt.Fatalf("%s: %s", v.sig, v.msg)
		}
	})
}

func TestReplay(t *testing.T) {
	var c Case
	ok, err := ev.ReplayCase(&c)
	if !ok {
		t.Skip("no VERIF_REPLAY")
	}
	if err != nil {
		t.Fatal(err)
	}
	for i := 0; i < 5; i++ {
		if v, _ := runCase(&c); v != nil {
			t.Fatalf("VIOLATION reproduced: %s: %s", v.sig, v.msg)
		}
	}
	t.Log("case passes")
}
