// C03 — stream framing is correct under any fragmentation or coalescing.
package c03

import (
	"bytes"
	"encoding/hex"
	"encoding/json"
	"errors"
	"fmt"
	"io"
	"net"
	"os"
	"sync"
	"testing"
	"time"

	"github.com/256dpi/gomqtt/packet"
	"github.com/256dpi/gomqtt/transport"
	"github.com/gorilla/websocket"
	"pgregory.net/rapid"

	"verif/internal/carrier"
	"verif/internal/conv"
	"verif/internal/ev"
	"verif/internal/refcodec"
)

// PSpec describes one packet compactly; build() expands it deterministically.
type PSpec struct {
	Type  byte `json:"t"`
	Size  int  `json:"n,omitempty"` // payload bytes / list length driver
	QoS   byte `json:"q,omitempty"`
	Flags byte `json:"f,omitempty"` // bit0 dup, bit1 retain
	Async bool `json:"async,omitempty"`
}

// Case is a packet sequence, a chunk plan and the layer under test.
type Case struct {
	Layer   string  `json:"layer"` // decoder truncate limit encoder baseconn tcp ws ws-reverse
	Pkts    []PSpec `json:"pkts"`
	Plan    []int   `json:"plan,omitempty"`
	Cut     int     `json:"cut,omitempty"`      // truncate: bytes removed from the end of the stream
	Limit   int64   `json:"limit,omitempty"`    // limit: read limit
	DelayUs int     `json:"delay_us,omitempty"` // encoder/baseconn: max write delay
	Pauses  []int   `json:"pauses,omitempty"`   // encoder: microseconds to sleep before write i (cyclic)
	Conns   int     `json:"conns,omitempty"`    // concurrent: number of connections sending the sequence at the same time
	Raw     string  `json:"raw,omitempty"`      // stream: arbitrary bytes (hex) instead of Pkts
}

type verdict struct{ sig, msg string }

func vf(sig, format string, a ...interface{}) *verdict {
	return &verdict{sig, fmt.Sprintf(format, a...)}
}

func build(i int, s PSpec) *refcodec.Packet {
	p := &refcodec.Packet{Type: s.Type}
	fill := func(n int) []byte {
		b := make([]byte, n)
		for k := range b {
			b[k] = byte(k*7 + i*13 + 1)
		}
		return b
	}
	id := uint16(i%65535 + 1)
	switch s.Type {
	case refcodec.CONNECT:
		p.ProtoName, p.Level, p.ClientID, p.KeepAlive = "MQTT", 4, fmt.Sprintf("cid-%d", i), uint16(i)
		if s.Size > 0 {
			n := s.Size
			if n > 65535 {
				n = 65535
			}
			p.HasWill, p.WillTopic, p.WillPayload, p.WillQoS = true, "w/t", fill(n), s.QoS%3
		}
	case refcodec.CONNACK:
		p.Code = byte(s.Size % 6)
		p.SessionPresent = s.Flags&1 == 1
	case refcodec.PUBLISH:
		p.Topic = fmt.Sprintf("t/%d", i)
		p.Payload = fill(s.Size)
		p.QoS = s.QoS % 3
		p.Dup, p.Retain = s.Flags&1 == 1, s.Flags&2 == 2
		if p.QoS > 0 {
			p.ID = id
		}
	case refcodec.PUBACK, refcodec.PUBREC, refcodec.PUBREL, refcodec.PUBCOMP, refcodec.UNSUBACK:
		p.ID = id
	case refcodec.SUBSCRIBE, refcodec.UNSUBSCRIBE:
		p.ID = id
		n := 1 + s.Size/24
		if n > 3000 {
			n = 3000
		}
		for k := 0; k < n; k++ {
			p.Filters = append(p.Filters, fmt.Sprintf("filter/%d/%d/+/#", i, k))
			if s.Type == refcodec.SUBSCRIBE {
				p.QoSs = append(p.QoSs, byte(k%3))
			}
		}
	case refcodec.SUBACK:
		p.ID = id
		n := 1 + s.Size
		if n > 60000 {
			n = 60000
		}
		for k := 0; k < n; k++ {
			p.Codes = append(p.Codes, []byte{0, 1, 2, 0x80}[k%4])
		}
	}
	return conv.Norm(p)
}

func buildAll(c *Case) (pkts []*refcodec.Packet, enc [][]byte, stream []byte) {
	for i, s := range c.Pkts {
		p := build(i, s)
		b := refcodec.Encode(p)
		pkts = append(pkts, p)
		enc = append(enc, b)
		stream = append(stream, b...)
	}
	return
}

// chunkReader hands out the stream in chunks per plan, then err.
type chunkReader struct {
	data  []byte
	plan  []int
	i     int
	end   error
	calls int
}

func (r *chunkReader) Read(p []byte) (int, error) {
	r.calls++
	if len(r.data) == 0 {
		return 0, r.end
	}
	n := len(p)
	if len(r.plan) > 0 {
		if k := r.plan[r.i%len(r.plan)]; k > 0 && k < n {
			n = k
		}
		r.i++
	}
	if n > len(r.data) {
		n = len(r.data)
	}
	copy(p, r.data[:n])
	r.data = r.data[n:]
	return n, nil
}

func same(want *refcodec.Packet, got packet.Generic) (bool, string) {
	return conv.Equal(want, conv.Norm(conv.FromLib(got)))
}

// ---- (a) decoder under arbitrary read sizes, (b) truncation

func runDecoder(c *Case) *verdict {
	pkts, _, stream := buildAll(c)
	cut := 0
	if c.Layer == "truncate" {
		cut = c.Cut
		if cut >= len(stream) {
			cut = len(stream) - 1
		}
		if cut < 1 {
			cut = 1
		}
	}
	data := stream[:len(stream)-cut]
	// which packets are complete in the truncated stream?
	complete, off := 0, 0
	for _, p := range pkts {
		n := len(refcodec.Encode(p))
		if off+n <= len(data) {
			complete++
			off += n
		} else {
			break
		}
	}
	torn := off < len(data)
	d := packet.NewDecoder(&chunkReader{data: append([]byte{}, data...), plan: c.Plan, end: io.EOF})
	for i := 0; i < complete; i++ {
		g, err := d.Read()
		if err != nil {
			return vf("decoder/packet-lost", "packet %d of %d (%s, %d bytes) was not decoded: %v (plan %v)", i, len(pkts), packet.Type(pkts[i].Type), len(refcodec.Encode(pkts[i])), err, c.Plan)
		}
		if ok, why := same(pkts[i], g); !ok {
			return vf("decoder/packet-altered", "packet %d (%s) differs after decoding from a fragmented stream: %s (plan %v)", i, packet.Type(pkts[i].Type), why, c.Plan)
		}
	}
	g, err := d.Read()
	switch {
	case g != nil:
		return vf("decoder/extra-packet", "after the %d complete packets the decoder returned another packet (%s) from %d remaining bytes", complete, g.Type(), len(data)-off)
	case err == nil:
		return vf("decoder/no-error-at-end", "decoder returned neither packet nor error at the end of the stream")
	case torn && err == io.EOF:
		return vf("decoder/torn-packet-clean-eof", "the stream ends %d bytes into packet %d but the decoder reports a clean io.EOF", len(data)-off, complete)
	case !torn && err != io.EOF:
		return vf("decoder/error-at-clean-end", "the stream ends at a packet boundary, decoder reports %v instead of io.EOF", err)
	}
	return nil
}

// ---- (c) read limit: refusal precedes buffering

var errWouldBlock = errors.New("no more data for now")

func runLimit(c *Case) *verdict {
	pkts, enc, _ := buildAll(c)
	for i, p := range pkts {
		h, _, _ := refcodec.ParseHeader(enc[i])
		over := int64(len(enc[i])) > c.Limit
		// the reader supplies the fixed header first; asking for more is recorded
		r := &chunkReader{data: append([]byte{}, enc[i]...), plan: []int{h.HdrLen, 1 << 30}, end: io.EOF}
		d := packet.NewDecoder(r)
		d.SetReadLimit(c.Limit)
		g, err := d.Read()
		switch {
		case over && err != packet.ErrReadLimitExceeded:
			return vf("limit/not-refused", "packet %d (%s) has %d bytes, limit %d: Read returned packet=%v err=%v", i, packet.Type(p.Type), len(enc[i]), c.Limit, g != nil, err)
		case over && r.calls > 1:
			return vf("limit/buffered-before-refusal", "packet %d (%d bytes, limit %d) was refused only after the decoder had asked the connection for its body (%d reads)", i, len(enc[i]), c.Limit, r.calls)
		case !over && err != nil:
			return vf("limit/refused-within-limit", "packet %d has %d bytes, limit %d: %v", i, len(enc[i]), c.Limit, err)
		case !over:
			if ok, why := same(p, g); !ok {
				return vf("decoder/packet-altered", "packet %d differs: %s", i, why)
			}
		}
		// the same with the limit set while the reader is already waiting for the
		// packet: the limit in force when the packet arrives is the one that counts
		gr := &gatedReader{data: append([]byte{}, enc[i]...), gate: make(chan struct{}), waiting: make(chan struct{})}
		d2 := packet.NewDecoder(gr)
		type res struct {
			g   packet.Generic
			err error
		}
		done := make(chan res, 1)
		go func() { g, err := d2.Read(); done <- res{g, err} }()
		select {
		case <-gr.waiting:
		case <-time.After(ev.Ceiling()):
			return vf("harness/gated-reader", "the decoder never asked for data")
		}
		d2.SetReadLimit(c.Limit)
		close(gr.gate)
		var r2 res
		select {
		case r2 = <-done:
		case <-time.After(ev.Ceiling()):
			return vf("hang/read", "Read did not return")
		}
		if over && r2.err != packet.ErrReadLimitExceeded {
			return vf("limit/not-refused:set-while-waiting", "packet %d has %d bytes; SetReadLimit(%d) was called while Read was waiting for it: Read returned packet=%v err=%v", i, len(enc[i]), c.Limit, r2.g != nil, r2.err)
		}
		if !over && r2.err != nil {
			return vf("limit/refused-within-limit", "packet %d has %d bytes, limit %d (set while waiting): %v", i, len(enc[i]), c.Limit, r2.err)
		}
	}
	return nil
}

// gatedReader blocks its first Read until gate is closed (a connection on
// which nothing has arrived yet) and signals that the read is pending.
type gatedReader struct {
	data    []byte
	gate    chan struct{}
	waiting chan struct{}
	once    sync.Once
}

func (g *gatedReader) Read(p []byte) (int, error) {
	g.once.Do(func() { close(g.waiting) })
	<-g.gate
	if len(g.data) == 0 {
		return 0, io.EOF
	}
	n := copy(p, g.data)
	g.data = g.data[n:]
	return n, nil
}

// ---- (d) encoder: wire bytes are the concatenation of the encodings

type recWriter struct {
	mu    sync.Mutex
	buf   bytes.Buffer
	calls []int
}

func (w *recWriter) Write(p []byte) (int, error) {
	w.mu.Lock()
	defer w.mu.Unlock()
	w.calls = append(w.calls, len(p))
	return w.buf.Write(p)
}

func runEncoder(c *Case) *verdict {
	pkts, enc, stream := buildAll(c)
	sofar := 0
	w := &recWriter{}
	e := packet.NewEncoder(w)
	e.SetMaxWriteDelay(time.Duration(c.DelayUs) * time.Microsecond)
	for i, p := range pkts {
		if len(c.Pauses) > 0 {
			if us := c.Pauses[i%len(c.Pauses)]; us > 0 {
				time.Sleep(time.Duration(us) * time.Microsecond)
			}
		}
		if err := e.Write(conv.ToLib(p), c.Pkts[i].Async); err != nil {
			return vf("encoder/write-error", "packet %d (%s): %v", i, packet.Type(p.Type), err)
		}
		sofar += len(enc[i])
		if !c.Pkts[i].Async {
			w.mu.Lock()
			n := w.buf.Len()
			w.mu.Unlock()
			if n != sofar {
				return vf("encoder/sync-write-not-flushed", "packet %d was written with immediate flush, but only %d of the %d bytes written so far are on the wire when Write returns", i, n, sofar)
			}
		}
	}
	if err := e.Flush(); err != nil {
		return vf("encoder/flush-error", "%v", err)
	}
	w.mu.Lock()
	got := append([]byte{}, w.buf.Bytes()...)
	w.mu.Unlock()
	if !bytes.Equal(got, stream) {
		return vf("encoder/wire-bytes", "bytes on the wire (%d) differ from the concatenated encodings (%d); first difference at offset %d", len(got), len(stream), firstDiff(got, stream))
	}
	return nil
}

func firstDiff(a, b []byte) int {
	for i := 0; i < len(a) && i < len(b); i++ {
		if a[i] != b[i] {
			return i
		}
	}
	if len(a) < len(b) {
		return len(a)
	}
	return len(b)
}

// ---- receive helper: n packets then EOF

func receiveAll(conn interface {
	Receive() (packet.Generic, error)
}, pkts []*refcodec.Packet, what string) *verdict {
	for i, p := range pkts {
		g, err := conn.Receive()
		if err != nil {
			return vf(what+"/packet-lost", "packet %d of %d (%s) was not received: %v", i, len(pkts), packet.Type(p.Type), err)
		}
		if ok, why := same(p, g); !ok {
			return vf(what+"/packet-altered", "packet %d (%s) differs after transit: %s", i, packet.Type(p.Type), why)
		}
	}
	g, err := conn.Receive()
	if g != nil || err == nil {
		return vf(what+"/extra-packet", "after all %d packets the receiver got packet=%v err=%v", len(pkts), g != nil, err)
	}
	return nil
}

func withCeiling(f func() *verdict, what string) *verdict {
	ch := make(chan *verdict, 1)
	go func() { ch <- f() }()
	select {
	case v := <-ch:
		return v
	case <-time.After(ev.Ceiling()):
		return vf(what+"/stalled", "transfer did not finish within %v", ev.Ceiling())
	}
}

// ---- (e) BaseConn pair over the in-memory carrier with a re-chunker

func runBaseConn(c *Case) *verdict {
	pkts, _, stream := buildAll(c)
	a, b := carrier.Pipe("sender", "receiver")
	b.Plan = c.Plan
	snd, rcv := transport.NewBaseConn(a), transport.NewBaseConn(b)
	snd.SetMaxWriteDelay(time.Duration(c.DelayUs) * time.Microsecond)
	errc := make(chan error, 1)
	go func() {
		for i, p := range pkts {
			if err := snd.Send(conv.ToLib(p), c.Pkts[i].Async); err != nil {
				errc <- fmt.Errorf("send %d: %v", i, err)
				return
			}
		}
		errc <- snd.Close()
	}()
	v := withCeiling(func() *verdict { return receiveAll(rcv, pkts, "baseconn") }, "baseconn")
	if err := <-errc; err != nil && v == nil {
		return vf("baseconn/send-error", "%v", err)
	}
	if v != nil {
		return v
	}
	// the bytes that crossed the carrier are exactly the encodings
	var wire int
	for _, o := range a.Ops() {
		if o.Kind == "write" {
			wire += o.N
		}
	}
	if wire != len(stream) {
		return vf("baseconn/wire-bytes", "%d bytes crossed the carrier, the encodings have %d", wire, len(stream))
	}
	return nil
}

// ---- (f) TCP loopback: raw socket writer per plan -> NetConn receiver

func runTCP(c *Case) *verdict {
	pkts, _, stream := buildAll(c)
	ln, err := net.Listen("tcp", "127.0.0.1:0")
	if err != nil {
		return vf("harness/listen", "%v", err)
	}
	defer ln.Close()
	go func() {
		w, err := net.Dial("tcp", ln.Addr().String())
		if err != nil {
			return
		}
		defer w.Close()
		data, i := stream, 0
		for len(data) > 0 {
			n := len(data)
			if len(c.Plan) > 0 {
				if k := c.Plan[i%len(c.Plan)]; k > 0 && k < n {
					n = k
				}
				i++
			}
			if _, err := w.Write(data[:n]); err != nil {
				return
			}
			data = data[n:]
		}
	}()
	raw, err := ln.Accept()
	if err != nil {
		return vf("harness/accept", "%v", err)
	}
	conn := transport.NewNetConn(raw)
	defer conn.Close()
	return withCeiling(func() *verdict { return receiveAll(conn, pkts, "tcp") }, "tcp")
}

// ---- (g) WebSocket loopback

func wsPair() (transport.Conn, *websocket.Conn, func(), error) {
	ln, err := net.Listen("tcp", "127.0.0.1:0")
	if err != nil {
		return nil, nil, nil, err
	}
	srv := transport.NewWebSocketServer(ln, nil)
	type res struct {
		c   *websocket.Conn
		err error
	}
	ch := make(chan res, 1)
	go func() {
		c, _, err := websocket.DefaultDialer.Dial("ws://"+ln.Addr().String()+"/", nil)
		ch <- res{c, err}
	}()
	conn, err := srv.Accept()
	r := <-ch
	if err != nil || r.err != nil {
		_ = srv.Close()
		return nil, nil, nil, fmt.Errorf("accept=%v dial=%v", err, r.err)
	}
	return conn, r.c, func() { _ = r.c.Close(); _ = conn.Close(); _ = srv.Close() }, nil
}

func runWS(c *Case) *verdict {
	pkts, _, stream := buildAll(c)
	conn, raw, done, err := wsPair()
	if err != nil {
		return vf("harness/websocket", "%v", err)
	}
	defer done()
	if c.Layer == "ws-reverse" {
		// WebSocketConn sends, the raw client concatenates the binary messages
		go func() {
			for i, p := range pkts {
				if conn.Send(conv.ToLib(p), c.Pkts[i].Async) != nil {
					return
				}
			}
			_ = conn.Send(packet.NewDisconnect(), false)
		}()
		want := append(append([]byte{}, stream...), 0xE0, 0x00)
		var got []byte
		_ = raw.SetReadDeadline(time.Now().Add(ev.Ceiling()))
		for len(got) < len(want) {
			mt, b, err := raw.ReadMessage()
			if err != nil {
				return vf("ws/wire-bytes", "raw client read %d of %d bytes, then %v", len(got), len(want), err)
			}
			if mt != websocket.BinaryMessage {
				return vf("ws/not-binary", "message type %d", mt)
			}
			got = append(got, b...)
		}
		if !bytes.Equal(got, want) {
			return vf("ws/wire-bytes", "bytes received by the raw client differ from the concatenated encodings at offset %d", firstDiff(got, want))
		}
		return nil
	}
	go func() {
		// binary messages whose boundaries follow the plan (fractions of a packet, several packets, empty messages)
		data, i, empties := stream, 0, 0
		for len(data) > 0 {
			n := len(data)
			if len(c.Plan) > 0 {
				k := c.Plan[i%len(c.Plan)]
				i++
				if k == 0 {
					if raw.WriteMessage(websocket.BinaryMessage, nil) != nil {
						return
					}
					empties++
					if empties <= len(c.Plan) { // (a plan of zeros only: one round of empty messages, then the data)
						continue
					}
				} else if k < n {
					n = k
				}
				if k != 0 {
					empties = 0
				}
			}
			if raw.WriteMessage(websocket.BinaryMessage, data[:n]) != nil {
				return
			}
			data = data[n:]
		}
		_ = raw.WriteMessage(websocket.CloseMessage, websocket.FormatCloseMessage(websocket.CloseNormalClosure, ""))
	}()
	return withCeiling(func() *verdict { return receiveAll(conn, pkts, "ws") }, "ws")
}

// ---- (h) several connections of one process at the same time (they share the codec's buffer pool)

// pipeCarrier is net.Pipe with the deadline semantics of a TCP socket:
// net.Pipe refuses SetReadDeadline once the PEER has closed, a socket does
// not. BaseConn.Receive resets the deadline after every packet and gives the
// packet up when that fails, so over a bare net.Pipe the last packets before a
// close are lost - an artefact of that carrier, not of TCP/WebSocket.
type pipeCarrier struct{ net.Conn }

func (p pipeCarrier) SetReadDeadline(t time.Time) error {
	if err := p.Conn.SetReadDeadline(t); err != nil && err != io.ErrClosedPipe {
		return err
	}
	return nil
}

func runConcurrent(c *Case) *verdict {
	pkts, _, _ := buildAll(c)
	n := c.Conns
	if n < 2 {
		n = 2
	}
	res := make(chan *verdict, 2*n)
	for k := 0; k < n; k++ {
		a, b := net.Pipe() // synchronous: a write blocks until the peer has read it
		snd, rcv := transport.NewBaseConn(pipeCarrier{a}), transport.NewBaseConn(pipeCarrier{b})
		snd.SetMaxWriteDelay(time.Duration(c.DelayUs) * time.Microsecond)
		go func() {
			for i, p := range pkts {
				if err := snd.Send(conv.ToLib(p), c.Pkts[i].Async); err != nil {
					res <- vf("concurrent/send-error", "send %d: %v", i, err)
					return
				}
			}
			_ = snd.Close()
			res <- nil
		}()
		go func() { res <- receiveAll(rcv, pkts, "concurrent") }()
	}
	deadline := time.After(ev.Ceiling())
	var first *verdict
	for k := 0; k < 2*n; k++ {
		select {
		case v := <-res:
			if v != nil && first == nil {
				first = v
			}
		case <-deadline:
			return vf("concurrent/stalled", "transfers did not finish within %v", ev.Ceiling())
		}
	}
	return first
}

func runCase(c *Case) *verdict {
	switch c.Layer {
	case "stream":
		raw, _ := hex.DecodeString(c.Raw)
		return judgeStream(raw, c.Plan, c.Limit)
	case "concurrent":
		return runConcurrent(c)
	case "decoder", "truncate":
		return runDecoder(c)
	case "limit":
		return runLimit(c)
	case "encoder":
		return runEncoder(c)
	case "baseconn":
		return runBaseConn(c)
	case "tcp":
		return runTCP(c)
	case "ws", "ws-reverse":
		return runWS(c)
	}
	return vf("harness/layer", "unknown layer %q", c.Layer)
}

// ---- generators

var clientTypes = []byte{1, 2, 3, 3, 3, 3, 4, 5, 6, 7, 8, 9, 10, 11, 12, 13, 14}

func genPkts(rt *rapid.T, max int, sizes []int) []PSpec {
	n := rapid.IntRange(1, max).Draw(rt, "npkts")
	var out []PSpec
	for i := 0; i < n; i++ {
		s := PSpec{Type: rapid.SampledFrom(clientTypes).Draw(rt, "type"), QoS: byte(rapid.IntRange(0, 2).Draw(rt, "qos")), Flags: byte(rapid.IntRange(0, 3).Draw(rt, "flags")), Async: rapid.Bool().Draw(rt, "async")}
		switch rapid.IntRange(0, 5).Draw(rt, "sizeclass") {
		case 0, 1:
			s.Size = rapid.IntRange(0, 40).Draw(rt, "size")
		case 2:
			s.Size = rapid.SampledFrom(sizes).Draw(rt, "size_b") + rapid.IntRange(-12, 12).Draw(rt, "delta")
			if s.Size < 0 {
				s.Size = 0
			}
		case 3:
			s.Size = rapid.IntRange(100, 300).Draw(rt, "size_m")
		default:
			s.Size = rapid.IntRange(0, 9000).Draw(rt, "size_l")
		}
		out = append(out, s)
	}
	return out
}

func genPlan(rt *rapid.T, zeros bool) []int {
	switch rapid.IntRange(0, 4).Draw(rt, "planclass") {
	case 0:
		return nil // everything at once
	case 1:
		return []int{1}
	case 2:
		k := rapid.SampledFrom([]int{1, 2, 3, 5, 17, 4095, 4096, 4097}).Draw(rt, "k")
		return rapid.SliceOfN(rapid.IntRange(1, k), 1, 8).Draw(rt, "plan")
	default:
		lo := 1
		if zeros {
			lo = 0
		}
		return rapid.SliceOfN(rapid.IntRange(lo, 6000), 1, 10).Draw(rt, "plan2")
	}
}

func classify(c *Case) (nontrivial bool) {
	_, enc, stream := buildAll(c)
	if len(c.Plan) == 0 {
		return c.Layer == "limit" || c.Layer == "truncate" || (c.Layer == "encoder" && len(c.Pkts) > 1)
	}
	// does a fragment boundary fall strictly inside a fixed header, or a packet straddle 4096?
	bounds := map[int]bool{}
	off, i := 0, 0
	for off < len(stream) {
		k := c.Plan[i%len(c.Plan)]
		i++
		if k <= 0 {
			k = 0
		}
		off += k
		bounds[off] = true
		if k == 0 && i > 10000 {
			break
		}
	}
	start := 0
	for _, e := range enc {
		h, _, _ := refcodec.ParseHeader(e)
		for j := 1; j < h.HdrLen; j++ {
			if bounds[start+j] {
				return true
			}
		}
		if start/4096 != (start+len(e)-1)/4096 {
			return true
		}
		start += len(e)
	}
	return len(c.Pkts) >= 2
}

func TestC03(t *testing.T) {
	run := ev.Start("C03", "exploration")
	run.Rule("packet sequences of 1-12 packets over all 14 types, sizes biased to the 4096-byte buffer boundary and to the read limit (+-12), pushed through each stream layer under a chunk plan (cyclic list of read/write/message sizes; 1-byte, around 4096, random up to 6000, empty WebSocket messages): (a) packet.Decoder over a reader that returns chunks per plan - for streams up to 64 bytes EVERY split point and the 1-byte plan are enumerated; (b) the stream cut at every offset of the last packet (short streams) or at generated offsets; (c) read limit around the packet sizes with a reader that supplies the fixed header only (a second read = the decoder buffered before refusing); (d) packet.Encoder with generated async flags, max write delay 0/1/5 ms and pauses, bytes compared with the reference encodings; (e) BaseConn pair over the in-memory carrier with the re-chunker; (f) TCP loopback with a raw socket writer following the plan into a NetConn; (g) WebSocket loopback: raw gorilla client -> WebSocketConn with message boundaries per plan, and WebSocketConn -> raw client; (i) metamorphic: arbitrary byte streams (valid streams with generated mutations; native fuzzing in the thorough tier) decoded in one piece and under a chunk plan must give the same packets and the same kind of final error; (h) 2-8 BaseConn pairs over synchronous net.Pipe carriers sending the sequence (with packets of 9-33 KiB) at the same time (they share the codec's buffer pool). Oracle: the receiver obtains exactly the sent packets in order, then an error and never an extra packet; a torn packet yields an error, not a packet and not a clean EOF; wire bytes = concatenation of the reference encodings. non-trivial = a fragment boundary strictly inside a fixed header, a packet straddling the 4096-byte boundary, or >= 2 packets; distinct by case")
	run.Assume("trusts verif/internal/refcodec for the wire bytes (checked against the library by C01)", "real TCP segmentation is whatever loopback does with the write plan")
	defer run.Finish(t)
	exec := func(c *Case) *verdict {
		run.Eval(1)
		run.Class("layer=" + c.Layer)
		if classify(c) {
			run.NonTrivialJSON(c)
		}
		return runCase(c)
	}
	shard, shards := ev.Shard()
	// bounded-exhaustive: short streams, every split point, every truncation offset
	idx, n := 0, 0
	short := [][]PSpec{
		{{Type: 12}, {Type: 4}, {Type: 3, Size: 3, QoS: 1}},
		{{Type: 3, Size: 0}, {Type: 14}},
		{{Type: 8, Size: 20}, {Type: 9, Size: 2}},
		{{Type: 2, Size: 1}, {Type: 3, Size: 130, QoS: 2}},
		{{Type: 1, Size: 5}, {Type: 13}},
		{{Type: 3, Size: 16384}, {Type: 12}},
		{{Type: 10, Size: 30}, {Type: 11}, {Type: 5}, {Type: 6}, {Type: 7}},
		{{Type: 3, Size: 2097152}, {Type: 13}}, // remaining length needs 4 bytes
	}
	for _, ps := range short {
		c0 := &Case{Layer: "decoder", Pkts: ps}
		_, enc, stream := buildAll(c0)
		limit := len(stream)
		if limit > 200 {
			limit = 200 // long streams: the first 200 split points (covers the first headers) and the last packet
		}
		huge := len(stream) > 100000
		if huge {
			limit = 8 // every split point inside the 5-byte fixed header
		}
		for split := 1; split < limit; split++ {
			idx++
			if idx%shards != shard {
				continue
			}
			n++
			if v := exec(&Case{Layer: "decoder", Pkts: ps, Plan: []int{split, 1 << 30}}); v != nil {
				run.Violation(v.sig, v.msg, &Case{Layer: "decoder", Pkts: ps, Plan: []int{split, 1 << 30}})
			}
		}
		last := len(enc[len(enc)-1])
		if last > 200 {
			last = 200
		}
		if huge {
			last = 0
		}
		for cut := 1; cut <= last; cut++ {
			idx++
			if idx%shards != shard {
				continue
			}
			n++
			for _, plan := range [][]int{nil, {1}} {
				c := &Case{Layer: "truncate", Pkts: ps, Cut: cut, Plan: plan}
				if v := exec(c); v != nil {
					run.Violation(v.sig, v.msg, c)
				}
			}
		}
		if shard == 0 && !huge {
			if v := exec(&Case{Layer: "decoder", Pkts: ps, Plan: []int{1}}); v != nil {
				run.Violation(v.sig, v.msg, &Case{Layer: "decoder", Pkts: ps, Plan: []int{1}})
			}
		}
	}
	run.Exhaustive(fmt.Sprintf("%d short packet sequences: every split point (first 200) of the stream and every truncation offset (up to 200) inside the last packet, one-piece and byte-at-a-time: %d cases (%d in this shard)", len(short), idx, n))

	sizes := []int{4060, 4070, 4080, 4090, 4096, 8180}
	run.Rapid(t, "decoder", ev.Pick(500, 40000), func(rt *rapid.T) {
		c := &Case{Layer: rapid.SampledFrom([]string{"decoder", "decoder", "truncate"}).Draw(rt, "layer"), Pkts: genPkts(rt, 12, sizes), Plan: genPlan(rt, false)}
		if c.Layer == "truncate" {
			c.Cut = rapid.IntRange(1, 5000).Draw(rt, "cut")
		}
		if v := exec(c); v != nil {
			run.Candidate(v.sig, v.msg, c)
			rt.Fatalf("%s: %s", v.sig, v.msg)
		}
	})
	run.Rapid(t, "streams", ev.Pick(300, 40000), func(rt *rapid.T) {
		// a valid stream with a few generated mutations (flipped bytes, inserted garbage, cut) read under a plan
		_, _, stream := buildAll(&Case{Pkts: genPkts(rt, 6, []int{100, 4090})})
		data := append([]byte{}, stream...)
		for n := rapid.IntRange(0, 4).Draw(rt, "mutations"); n > 0 && len(data) > 0; n-- {
			i := rapid.IntRange(0, len(data)-1).Draw(rt, "pos")
			switch rapid.IntRange(0, 3).Draw(rt, "mut") {
			case 0:
				data[i] ^= byte(1 << uint(rapid.IntRange(0, 7).Draw(rt, "bit")))
			case 1:
				data = append(data[:i], append(rapid.SliceOfN(rapid.Byte(), 1, 5).Draw(rt, "ins"), data[i:]...)...)
			case 2:
				data = data[:i]
			case 3:
				data[i] = byte(rapid.SampledFrom([]int{0x00, 0xFF, 0x80, 0x7F}).Draw(rt, "val"))
			}
		}
		c := &Case{Layer: "stream", Raw: hex.EncodeToString(data), Plan: genPlan(rt, false), Limit: int64(rapid.SampledFrom([]int{1 << 16, 1 << 16, 50, 4096}).Draw(rt, "slimit"))} // never unlimited: a mutated length may declare 256 MiB
		run.Eval(1)
		run.Class("layer=stream-metamorphic")
		run.NonTrivialJSON(c)
		if v := runCase(c); v != nil {
			run.Candidate(v.sig, v.msg, c)
			rt.Fatalf("%s: %s", v.sig, v.msg)
		}
	})
	run.Rapid(t, "limit", ev.Pick(300, 20000), func(rt *rapid.T) {
		c := &Case{Layer: "limit", Limit: int64(rapid.SampledFrom([]int{2, 4, 100, 4096, 4100, 8192}).Draw(rt, "limit"))}
		c.Pkts = genPkts(rt, 6, []int{int(c.Limit) - 8, int(c.Limit) - 4, int(c.Limit), 4090})
		if v := exec(c); v != nil {
			run.Candidate(v.sig, v.msg, c)
			rt.Fatalf("%s: %s", v.sig, v.msg)
		}
	})
	run.Rapid(t, "encoder", ev.Pick(150, 10000), func(rt *rapid.T) {
		c := &Case{Layer: "encoder", Pkts: genPkts(rt, 12, sizes), DelayUs: rapid.SampledFrom([]int{0, 1000, 5000}).Draw(rt, "delay")}
		if rapid.Bool().Draw(rt, "paused") {
			c.Pauses = rapid.SliceOfN(rapid.SampledFrom([]int{0, 0, 200, 1200, 3000}), 1, 4).Draw(rt, "pauses")
		}
		if v := exec(c); v != nil {
			run.Candidate(v.sig, v.msg, c)
			rt.Fatalf("%s: %s", v.sig, v.msg)
		}
	})
	run.Rapid(t, "baseconn", ev.Pick(300, 20000), func(rt *rapid.T) {
		c := &Case{Layer: "baseconn", Pkts: genPkts(rt, 12, sizes), Plan: genPlan(rt, false), DelayUs: rapid.SampledFrom([]int{0, 500, 2000}).Draw(rt, "delay")}
		if v := exec(c); v != nil {
			run.Candidate(v.sig, v.msg, c)
			rt.Fatalf("%s: %s", v.sig, v.msg)
		}
	})
	run.Rapid(t, "concurrent", ev.Pick(60, 4000), func(rt *rapid.T) {
		c := &Case{Layer: "concurrent", Conns: rapid.IntRange(2, 8).Draw(rt, "conns"), DelayUs: rapid.SampledFrom([]int{0, 500}).Draw(rt, "delay")}
		c.Pkts = genPkts(rt, 10, []int{4090, 4096, 9000, 20000, 33000})
		for i := range c.Pkts {
			if c.Pkts[i].Type == 3 && rapid.IntRange(0, 2).Draw(rt, "big") == 0 {
				c.Pkts[i].Size = rapid.SampledFrom([]int{9000, 20000, 33000}).Draw(rt, "bigsize")
			}
		}
		if v := exec(c); v != nil {
			run.Candidate(v.sig, v.msg, c)
			rt.Fatalf("%s: %s", v.sig, v.msg)
		}
	})
	run.Rapid(t, "sockets", ev.Pick(150, 6000), func(rt *rapid.T) {
		c := &Case{Layer: rapid.SampledFrom([]string{"tcp", "ws", "ws", "ws-reverse"}).Draw(rt, "layer"), Pkts: genPkts(rt, 10, sizes)}
		c.Plan = genPlan(rt, c.Layer == "ws")
		if v := exec(c); v != nil {
			run.Candidate(v.sig, v.msg, c)
			rt.Fatalf("%s: %s", v.sig, v.msg)
		}
	})
}

func TestReplay(t *testing.T) {
	var c Case
	ok, err := ev.ReplayCase(&c)
	if !ok {
		t.Skip("no VERIF_REPLAY")
	}
	if err != nil {
		t.Fatal(err)
	}
	for i := 0; i < 3; i++ {
		if v := runCase(&c); v != nil {
			t.Fatalf("VIOLATION reproduced: %s: %s", v.sig, v.msg)
		}
	}
	t.Log("case passes")
}

// ---- metamorphic relation on arbitrary byte streams: whatever the chunking,
// the decoder yields the same packets and ends with the same kind of error

func decodeAll(data []byte, plan []int, limit int64) (pkts []*refcodec.Packet, end string) {
	d := packet.NewDecoder(&chunkReader{data: append([]byte{}, data...), plan: plan, end: io.EOF})
	d.SetReadLimit(limit)
	for i := 0; i < 10000; i++ {
		g, err := d.Read()
		if err != nil {
			switch err {
			case io.EOF:
				return pkts, "eof"
			case io.ErrUnexpectedEOF:
				return pkts, "unexpected-eof"
			case packet.ErrReadLimitExceeded:
				return pkts, "limit"
			case packet.ErrDetectionOverflow:
				return pkts, "overflow"
			}
			return pkts, "error"
		}
		pkts = append(pkts, conv.Norm(conv.FromLib(g)))
	}
	return pkts, "too-many"
}

func judgeStream(data []byte, plan []int, limit int64) *verdict {
	a, ea := decodeAll(data, nil, limit)
	b, eb := decodeAll(data, plan, limit)
	if len(a) != len(b) {
		return vf("metamorphic/packet-count", "the same %d bytes decode to %d packets in one piece and to %d packets when read in chunks %v (ends: %s / %s)", len(data), len(a), len(b), plan, ea, eb)
	}
	for i := range a {
		if ok, why := conv.Equal(a[i], b[i]); !ok {
			return vf("metamorphic/packet-differs", "packet %d differs between one-piece and chunked (%v) decoding: %s", i, plan, why)
		}
	}
	if ea != eb {
		return vf("metamorphic/end-differs", "after %d packets the stream ends with %q in one piece and %q in chunks %v", len(a), ea, eb, plan)
	}
	// and every packet the decoder returned is a packet of the stream: re-encoding the
	// prefix of reference packets must reproduce a prefix of the bytes, unless leniencies re-normalise
	return nil
}

func FuzzC03(f *testing.F) {
	for _, ps := range [][]PSpec{{{Type: 12}, {Type: 3, Size: 3, QoS: 1}}, {{Type: 8, Size: 20}, {Type: 9, Size: 2}}, {{Type: 1, Size: 5}, {Type: 13}}, {{Type: 3, Size: 4090}, {Type: 14}}} {
		_, _, s := buildAll(&Case{Pkts: ps})
		f.Add(s, []byte{1}, uint16(0))
		f.Add(s, []byte{3, 200, 7}, uint16(100))
		f.Add(append(s[:len(s)-1], 0xFF, 0xFF, 0xFF, 0xFF, 0x7F), []byte{2}, uint16(0))
	}
	f.Fuzz(func(t *testing.T, data []byte, planBytes []byte, limit uint16) {
		if len(data) > 1<<16 || len(planBytes) > 16 {
			return
		}
		var plan []int
		for _, b := range planBytes {
			plan = append(plan, int(b)+1)
		}
		if limit == 0 {
			limit = 65535 // never unlimited: the input may declare a 256 MiB packet
		}
		if v := judgeStream(data, plan, int64(limit)); v != nil {
			out, _ := json.MarshalIndent(map[string]interface{}{"property": "C03", "signature": v.sig, "message": v.msg, "tier": "thorough", "case": &Case{Layer: "stream", Raw: hex.EncodeToString(data), Plan: plan, Limit: int64(limit)}}, "", " ")
			_ = os.MkdirAll(ev.Root()+"/replays", 0o755)
			_ = os.WriteFile(fmt.Sprintf("%s/replays/C03-fuzz-%x.json", ev.Root(), ev.Hash(v.sig)), out, 0o644)
			t.Fatalf("%s: %s", v.sig, v.msg)
		}
	})
}
