// C10 — the client delivers inbound QoS 2 messages exactly once and finishes its handshakes.
package c10

import (
	"errors"
	"fmt"
	"strings"
	"sync"
	"sync/atomic"
	"testing"
	"time"

	"github.com/256dpi/gomqtt/client"
	"github.com/256dpi/gomqtt/client/future"
	"github.com/256dpi/gomqtt/packet"
	"pgregory.net/rapid"

	"verif/internal/ev"
	"verif/internal/fb"
	"verif/internal/memconn"
)

// Op is one step of the fake broker's script (interpreted against the sender
// state of the packet id, so that the script always obeys the MQTT sender rules):
//
//	pub  id   QoS 2: idle -> fresh PUBLISH; PUBLISH unanswered -> the same PUBLISH again with DUP; otherwise skipped
//	rel  id   PUBREC received / PUBREL unanswered -> (re)send PUBREL; otherwise skipped
//	rel2 id   like rel but the PUBREL is sent twice back to back (a repeated PUBREL)
//	pub1      a fresh QoS 1 message
//	pub0      a fresh QoS 0 message
//	drop      the broker cuts the connection; the client reconnects with the same session
//	amnesia   the broker cuts the connection and loses its session (restart without persistence): every
//	          open handshake is forgotten on its side, the next CONNACK says "no session present", and
//	          packet ids are used again for NEW messages while the client may still hold the old ones
//	relclose id  like rel, but the application is slow with that delivery and, while its callback
//	          is still running, calls Client.Close() from another goroutine; as soon as Close has
//	          returned it resumes with a new client on the same session (the broker repeats PUBREL)
type Op struct {
	Kind string `json:"k"`
	ID   int    `json:"id,omitempty"`
}

// Case is a script, the application's verdicts (true = the callback returns an
// error, cyclic), the callback mode and one fault on the client's connection.
type Case struct {
	Ops    []Op   `json:"ops"`
	Reject []bool `json:"reject,omitempty"`
	Early  bool   `json:"early,omitempty"`
	Clean  bool   `json:"clean,omitempty"` // clean session: a reconnect discards all handshake state on both sides
	FailAt int64  `json:"fail_at,omitempty"`
	After  bool   `json:"after,omitempty"`
	// SessFailAt: the k-th operation of the client's session store (a wrapper of
	// the library's MemorySession) fails, counted from the first established connection
	SessFailAt int64 `json:"sess_fail_at,omitempty"`
}

type verdict struct{ sig, msg string }

const (
	idle = iota
	recWait
	relPending
	compWait
)

type msg struct {
	tag      string
	qos      int
	accepted int32
	rejected int32
	forgiven bool // its handshake was cut off by the end of a clean-session connection
}

type runner struct {
	c     *Case
	log   *memconn.Log
	d     *fb.Dialer
	sess  *fb.Session
	cl    *client.Client
	link  *fb.Link
	alive bool

	st             [4]int
	cur            [4]*msg // current message per QoS 2 id (1..3)
	unacked        []*q1   // QoS 1 messages sent and not acknowledged
	msgs           map[string]*msg
	mmu            sync.Mutex // msgs is read by callbacks of a client that is on its way out
	nmsg           int
	nbar           int
	calls          int64
	nrejects       int64
	final          int32 // final phase: the application accepts everything
	armed          bool
	base           int64
	consumed       int64
	faultHit       bool
	resumes        int
	dupPub, repRel int
	pending        *verdict // first violation seen while driving the script

	// slow delivery (relclose): the next callback invocation waits for gate
	gateArmed   int32
	gateEntered chan struct{}
	gate        chan struct{}
	appCloses   int
	appCalls    int
	sessBase    int64
	lost        bool // the broker has lost its session: next CONNACK without session present
	amnesias    int
}

type q1 struct {
	id packet.ID
	m  *msg
}

var errApp = errors.New("application rejects the message")

func (r *runner) fail(sig, format string, a ...interface{}) *verdict {
	return &verdict{sig, fmt.Sprintf(format, a...) + "\n--- event log ---\n" + r.log.Dump()}
}

func (r *runner) callback(m *packet.Message, err error) error {
	if m == nil {
		r.log.Add(memconn.Event{Actor: "app", Op: "callback-error", Note: fmt.Sprint(err)})
		return nil
	}
	tag := string(m.Payload)
	r.mmu.Lock()
	mm := r.msgs[tag]
	r.mmu.Unlock()
	reject := false
	if !strings.HasPrefix(tag, "barrier") && atomic.LoadInt32(&r.final) == 0 && len(r.c.Reject) > 0 {
		k := atomic.AddInt64(&r.calls, 1) - 1
		reject = r.c.Reject[int(k)%len(r.c.Reject)]
		if reject && atomic.AddInt64(&r.nrejects, 1) > 6 {
			reject = false // an application that rejected six deliveries accepts from then on (keeps scripts finite)
		}
	}
	note := "accepted"
	if reject {
		note = "REJECTED"
	}
	r.log.Add(memconn.Event{Actor: "app", Op: "callback", Tag: tag, QoS: int(m.QOS), Note: note})
	if mm != nil {
		if reject {
			atomic.AddInt32(&mm.rejected, 1)
		} else {
			atomic.AddInt32(&mm.accepted, 1)
		}
	}
	if !strings.HasPrefix(tag, "barrier") && atomic.CompareAndSwapInt32(&r.gateArmed, 1, 0) {
		r.log.Add(memconn.Event{Actor: "app", Op: "callback-slow", Tag: tag, Note: "the application is busy with this delivery"})
		close(r.gateEntered)
		select {
		case <-r.gate:
		case <-time.After(ev.Ceiling() * 3):
		}
		r.log.Add(memconn.Event{Actor: "app", Op: "callback-returns", Tag: tag})
	}
	if reject {
		return errApp
	}
	return nil
}

// apiFailed: an API call returned an error; legitimate only when the connection is gone.
func (r *runner) apiFailed() bool {
	l := r.link
	deadline := time.Now().Add(ev.Ceiling())
	for !l.Broker.EOF && time.Now().Before(deadline) {
		l.Broker.PumpWait(time.Millisecond)
	}
	if l.Broker.EOF {
		r.died("an API call")
	} else if r.pending == nil {
		r.pending = r.fail("api/error-on-live-connection", "a client API call failed although the connection is alive")
	}
	return false
}

// relClose: PUBREL with a slow application that closes the client meanwhile.
// It returns false when the connection is gone (always, unless the client
// answered without involving the application).
func (r *runner) relClose(id int) bool {
	from := len(r.link.Broker.Inbox)
	r.gateEntered, r.gate = make(chan struct{}), make(chan struct{})
	atomic.StoreInt32(&r.gateArmed, 1)
	release := func() {
		atomic.StoreInt32(&r.gateArmed, 0)
		select {
		case <-r.gate:
		default:
			close(r.gate)
		}
	}
	_ = r.link.Broker.Send(&packet.Pubrel{ID: packet.ID(id)})
	if r.st[id] == compWait {
		r.repRel++
	}
	r.st[id] = compWait
	isComp := func(g packet.Generic) bool { a, ok := g.(*packet.Pubcomp); return ok && a.ID == packet.ID(id) }
	deadline := time.Now().Add(ev.Ceiling())
	entered := false
	for !entered {
		select {
		case <-r.gateEntered:
			entered = true
			continue
		default:
		}
		if i := r.link.Broker.WaitFor(from, isComp, time.Millisecond); i >= 0 {
			// answered without a delivery (the client had completed this id before)
			release()
			r.st[id] = idle
			if acc := atomic.LoadInt32(&r.cur[id].accepted); !r.c.Early && (acc < 1 || acc > r.maxAcc()) && r.pending == nil {
				r.pending = r.fail("qos2/not-exactly-once", "the handshake of %s (id %d) was completed with PUBCOMP; the application accepted the message %d times", r.cur[id].tag, id, acc)
			}
			return r.pending == nil
		}
		if r.link.Broker.EOF {
			release()
			r.died(fmt.Sprintf("PUBCOMP id=%d", id))
			return false
		}
		if time.Now().After(deadline) {
			release()
			if r.pending == nil {
				r.pending = r.fail("liveness/no-answer", "PUBREL id=%d: neither a delivery nor PUBCOMP within the ceiling", id)
			}
			return false
		}
	}
	// the application is inside its callback: Close from another goroutine
	r.appCloses++
	cl := r.cl
	closed := make(chan struct{})
	r.log.Add(memconn.Event{Actor: "app", Op: "close-call", Note: "Client.Close() from another goroutine while the callback runs"})
	go func() {
		_ = cl.Close()
		r.log.Add(memconn.Event{Actor: "app", Op: "close-returned"})
		close(closed)
	}()
	early := false
	select {
	case <-closed:
		early = true // Close returned although the callback has not
	case <-time.After(20 * time.Millisecond):
	}
	r.cl = nil
	r.link.Broker.Drop()
	r.account(r.link)
	if early {
		// the application believes the client is gone and resumes at once; the
		// broker repeats PUBREL (sender rule) while the old callback is still busy
		v := r.connect()
		release()
		if v != nil && r.pending == nil {
			r.pending = v
		}
		return false
	}
	release()
	select {
	case <-closed:
	case <-time.After(ev.Ceiling()):
		if r.pending == nil {
			r.pending = r.fail("liveness/close-hangs", "Client.Close, called while the callback was running, did not return after the callback returned")
		}
	}
	return false
}

// connect (re)establishes the connection and lets the broker retransmit per sender rules.
func (r *runner) connect() *verdict {
	for attempt := 0; attempt < 14; attempt++ {
		if r.cl != nil {
			done := make(chan struct{})
			cl := r.cl
			go func() { _ = cl.Close(); close(done) }()
			select {
			case <-done:
			case <-time.After(ev.Ceiling()):
				return r.fail("liveness/close-hangs", "Client.Close did not return after the connection ended")
			}
			r.cl = nil
		}
		remaining := int64(0)
		if r.armed && r.c.FailAt > 0 && !r.faultHit && r.c.FailAt > r.consumed {
			remaining = r.c.FailAt - r.consumed
		}
		r.d.Plan = func(int) (bool, func(*memconn.Conn)) {
			return false, func(ce *memconn.Conn) {
				if remaining > 0 {
					ce.FailAt, ce.FailAfter = remaining, r.c.After
				}
			}
		}
		cfg := client.NewConfigWithClientID("mem://b", "c10")
		cfg.CleanSession = r.c.Clean
		cfg.Dialer = r.d
		cfg.KeepAlive = "0s"
		cfg.AlwaysAnnounceOnPublish = r.c.Early
		cl := client.New()
		cl.Session = r.sess
		cl.Callback = r.callback
		cf, err := cl.Connect(cfg)
		if err != nil {
			// the CONNECT could not be sent (injected fault): nothing to close, try again
			if l := r.d.Next(time.Millisecond); l != nil {
				r.account(l)
			}
			continue
		}
		r.cl = cl
		l, _, err := r.d.Accept(fb.Connack(packet.ConnectionAccepted, !r.c.Clean && !r.lost && (r.resumes > 0 || attempt > 0)))
		if l == nil {
			return r.fail("harness/accept", "%v", err)
		}
		r.link = l
		if err != nil || cf.Wait(ev.Ceiling()) != nil {
			r.account(l)
			continue
		}
		r.alive = true
		r.lost = false
		if !r.armed {
			// the fault plan counts the client's connection operations from here on
			r.armed = true
			r.base = l.ClientEnd.Ops()
			if r.c.FailAt > 0 {
				l.ClientEnd.SetFail(r.c.FailAt, r.c.After)
			}
			r.sessBase = r.sess.Ops()
			if r.c.SessFailAt > 0 {
				r.sess.FailAt(r.c.SessFailAt)
			}
		}
		// sender-rule retransmissions after a resume
		ok := true
		for id := 1; id <= 3 && ok; id++ {
			switch r.st[id] {
			case recWait:
				ok = r.sendPublish(id, true)
			case relPending, compWait:
				ok = r.sendRel(id, 1)
			}
		}
		for _, u := range append([]*q1{}, r.unacked...) {
			if !ok {
				break
			}
			ok = r.sendQ1(u, true)
		}
		if r.pending != nil {
			return r.pending
		}
		if ok {
			return nil
		}
	}
	return r.fail("harness/reconnect-loop", "could not re-establish a working connection")
}

// account: the connection l ended; book its operations against the fault plan.
func (r *runner) account(l *fb.Link) {
	r.alive = false
	if r.c.Clean || r.lost {
		// a clean session ends with its connection: both sides forget the open handshakes
		for id := 1; id <= 3; id++ {
			if r.st[id] != idle && r.cur[id] != nil {
				r.cur[id].forgiven = true
			}
			r.st[id] = idle
		}
		for _, u := range r.unacked {
			u.m.forgiven = true
		}
		r.unacked = nil
	}
	if r.armed {
		r.consumed += l.ClientEnd.Ops() - r.base
		r.base = 0
		if r.c.FailAt > 0 && r.consumed >= r.c.FailAt {
			r.faultHit = true
		}
	}
	r.resumes++
}

// died: the connection ended while the broker was waiting; is there a legitimate cause?
func (r *runner) died(what string) {
	l := r.link
	l.Broker.Drop()
	cause := ""
	for _, e := range r.log.Events() {
		if e.Actor == l.ClientEnd.Name && (e.Op == "send-lost" || e.Op == "fail-after-send" || e.Op == "recv-lost" || strings.Contains(e.Note, "connection fails right after")) {
			cause = "fault"
		}
	}
	for _, e := range r.log.Events() {
		if e.Actor == "session" && strings.Contains(e.Note, "INJECTED-FAILURE") {
			cause = "fault"
		}
	}
	if cause == "" {
		// a rejected delivery is the only other reason for the client to close
		last := ""
		for _, e := range r.log.Events() {
			if e.Actor == "app" && e.Op == "callback" {
				last = e.Note
			}
			if e.Actor == l.ClientEnd.Name && e.Op == "close" {
				break
			}
		}
		if last == "REJECTED" {
			cause = "reject"
		}
	}
	if cause == "" && r.pending == nil {
		r.pending = r.fail("connection/closed-without-cause", "the client closed the connection while the broker was waiting for %s, without a fault or a rejected delivery", what)
	}
	r.account(l)
}

// expect sends a QoS 1 barrier behind the packets whose answer is awaited and
// waits for want; it returns (answered, connection still alive). Because the
// client handles packets one at a time and its sends are ordered, the
// barrier's PUBACK arriving first proves that the answer was never sent.
func (r *runner) expect(from int, what string, want func(packet.Generic) bool) (bool, bool) {
	r.nbar++
	bar := &packet.Publish{ID: packet.ID(60000 + r.nbar), Message: packet.Message{Topic: "c10/barrier", QOS: 1, Payload: []byte(fmt.Sprintf("barrier-%d", r.nbar))}}
	_ = r.link.Broker.Send(bar)
	got := false
	i := r.link.Broker.WaitFor(from, func(g packet.Generic) bool {
		if want(g) {
			got = true
			return true
		}
		a, ok := g.(*packet.Puback)
		return ok && a.ID == bar.ID
	}, ev.Ceiling())
	if i >= 0 && got {
		// consume the barrier's PUBACK too, so that the stream stays aligned
		r.link.Broker.WaitFor(i, func(g packet.Generic) bool { a, ok := g.(*packet.Puback); return ok && a.ID == bar.ID }, ev.Ceiling())
		if r.link.Broker.EOF {
			r.died("the barrier acknowledgement")
			return true, false
		}
		return true, true
	}
	if r.link.Broker.EOF {
		r.died(what)
		return false, false
	}
	if i >= 0 {
		return false, true // barrier acknowledged, answer missing
	}
	if r.pending == nil {
		r.pending = r.fail("liveness/no-answer", "neither %s nor the barrier acknowledgement arrived on a live connection", what)
	}
	return false, true
}

// maxAcc is the number of accepted deliveries one QoS 2 handshake may show: 1 -
// or 2 when the injected fault was a failing DeletePacket (the record of a
// delivered message could not be removed, so the repeated PUBREL delivers it
// again; no client can do better with such a store).
func (r *runner) maxAcc() int32 {
	for _, e := range r.log.Events() {
		if e.Actor == "session" && e.Op == "DeletePacket" && strings.Contains(e.Note, "INJECTED-FAILURE") {
			return 2
		}
	}
	return 1
}

func (r *runner) newMsg(qos int) *msg {
	r.nmsg++
	m := &msg{tag: fmt.Sprintf("m%d-q%d", r.nmsg, qos), qos: qos}
	r.mmu.Lock()
	r.msgs[m.tag] = m
	r.mmu.Unlock()
	return m
}

// sendPublish (QoS 2) returns false when the connection died.
func (r *runner) sendPublish(id int, dup bool) bool {
	m := r.cur[id]
	from := len(r.link.Broker.Inbox)
	_ = r.link.Broker.Send(&packet.Publish{ID: packet.ID(id), Dup: dup, Message: packet.Message{Topic: "c10/t", QOS: 2, Payload: []byte(m.tag)}})
	r.st[id] = recWait
	if dup {
		r.dupPub++
	}
	ok, alive := r.expect(from, fmt.Sprintf("PUBREC id=%d", id), func(g packet.Generic) bool { a, ok := g.(*packet.Pubrec); return ok && a.ID == packet.ID(id) })
	if !alive && r.c.Clean {
		return false // the clean session is gone, and with it this handshake (see account)
	}
	if ok {
		r.st[id] = relPending
	} else if alive && r.pending == nil {
		r.pending = r.fail("qos2/publish-not-answered", "QoS 2 PUBLISH id=%d (%s, dup=%v) was not answered by PUBREC although later packets were acknowledged", id, m.tag, dup)
	}
	return alive && r.pending == nil
}

// sendRel sends n PUBRELs back to back and expects n PUBCOMPs.
func (r *runner) sendRel(id int, n int) bool {
	m := r.cur[id]
	from := len(r.link.Broker.Inbox)
	wasComp := r.st[id] == compWait
	for k := 0; k < n; k++ {
		_ = r.link.Broker.Send(&packet.Pubrel{ID: packet.ID(id)})
	}
	r.st[id] = compWait
	if wasComp || n > 1 {
		r.repRel++
	}
	seen := 0
	ok, alive := r.expect(from, fmt.Sprintf("%d PUBCOMP id=%d", n, id), func(g packet.Generic) bool {
		if a, isComp := g.(*packet.Pubcomp); isComp && a.ID == packet.ID(id) {
			seen++
		}
		return seen == n
	})
	if !alive && r.c.Clean && seen == 0 {
		return false
	}
	if seen > 0 {
		// the handshake is complete: judge the deliveries
		r.st[id] = idle
		acc := atomic.LoadInt32(&m.accepted)
		if !r.c.Early && r.pending == nil {
			switch {
			case acc == 0:
				r.pending = r.fail("qos2/completed-without-delivery", "the handshake of %s (id %d) was completed with PUBCOMP but the application never accepted the message", m.tag, id)
			case acc > r.maxAcc():
				r.pending = r.fail("qos2/delivered-more-than-once", "QoS 2 message %s (id %d) was passed to the application and accepted %d times over one handshake", m.tag, id, acc)
			}
		}
	}
	if !ok && alive && r.pending == nil {
		r.pending = r.fail("qos2/pubrel-not-answered", "%d PUBREL id=%d were sent, %d PUBCOMP came back although later packets were acknowledged (%s)", n, id, seen, m.tag)
	}
	return alive && r.pending == nil
}

func (r *runner) sendQ1(u *q1, dup bool) bool {
	from := len(r.link.Broker.Inbox)
	_ = r.link.Broker.Send(&packet.Publish{ID: u.id, Dup: dup, Message: packet.Message{Topic: "c10/t", QOS: 1, Payload: []byte(u.m.tag)}})
	ok, alive := r.expect(from, fmt.Sprintf("PUBACK id=%d", u.id), func(g packet.Generic) bool { a, ok := g.(*packet.Puback); return ok && a.ID == u.id })
	if !alive && r.c.Clean && !ok {
		return false
	}
	if ok {
		var keep []*q1
		for _, x := range r.unacked {
			if x != u {
				keep = append(keep, x)
			}
		}
		r.unacked = keep
		if atomic.LoadInt32(&u.m.accepted) == 0 && r.pending == nil {
			r.pending = r.fail("qos1/acknowledged-without-delivery", "QoS 1 message %s was acknowledged with PUBACK but never accepted by the application", u.m.tag)
		}
	} else if alive && r.pending == nil {
		r.pending = r.fail("qos1/publish-not-answered", "QoS 1 PUBLISH id=%d (%s) was not answered by PUBACK although later packets were acknowledged", u.id, u.m.tag)
	}
	return alive && r.pending == nil
}

func runCase(c *Case) (*verdict, int64, *runner) {
	log := memconn.NewLog()
	r := &runner{c: c, log: log, d: fb.NewDialer(log), sess: fb.NewSession(log), msgs: map[string]*msg{}}
	defer func() {
		if r.cl != nil {
			go r.cl.Close()
		}
	}()
	// step runs f on a live connection; f returns false when the connection
	// died under it. After the reconnect the broker's sender-rule
	// retransmissions (in connect) have carried the open handshakes forward,
	// and f decides from the state whether anything is left to do.
	step := func(f func() bool) *verdict {
		for guard := 0; guard < 14; guard++ {
			if !r.alive {
				if v := r.connect(); v != nil {
					return v
				}
			}
			if r.pending != nil {
				return r.pending
			}
			if f() || r.pending != nil {
				return r.pending
			}
		}
		return r.fail("harness/step-loop", "step does not converge")
	}
	if v := r.connect(); v != nil {
		return v, 0, r
	}
	for _, op := range c.Ops {
		op := op
		var v *verdict
		switch op.Kind {
		case "pub":
			id := op.ID
			switch r.st[id] {
			case idle:
				r.cur[id] = r.newMsg(2)
				first := true
				v = step(func() bool {
					if first {
						first = false
						return r.sendPublish(id, false)
					}
					if r.st[id] == recWait { // still unanswered after a resume
						return r.sendPublish(id, true)
					}
					return true
				})
			case recWait:
				v = step(func() bool {
					if r.st[id] == recWait {
						return r.sendPublish(id, true)
					}
					return true
				})
			}
		case "rel", "rel2":
			id := op.ID
			if r.st[id] == relPending || r.st[id] == compWait {
				n := 1
				if op.Kind == "rel2" {
					n = 2
				}
				v = step(func() bool {
					if r.st[id] == relPending || r.st[id] == compWait {
						return r.sendRel(id, n)
					}
					return true
				})
			}
		case "relclose":
			id := op.ID
			if r.st[id] == relPending || r.st[id] == compWait {
				first := true
				v = step(func() bool {
					if r.st[id] != relPending && r.st[id] != compWait {
						return true
					}
					if first {
						first = false
						return r.relClose(id)
					}
					return r.sendRel(id, 1) // after the resume: the repeated PUBREL
				})
			}
		case "pub1":
			u := &q1{id: packet.ID(100 + r.nmsg), m: r.newMsg(1)}
			r.unacked = append(r.unacked, u)
			v = step(func() bool {
				for _, x := range r.unacked {
					if x == u {
						return r.sendQ1(u, false)
					}
				}
				return true
			})
		case "pub0":
			m := r.newMsg(0)
			v = step(func() bool {
				from := len(r.link.Broker.Inbox)
				_ = r.link.Broker.Send(&packet.Publish{Message: packet.Message{Topic: "c10/t", QOS: 0, Payload: []byte(m.tag)}})
				_, alive := r.expect(from, "the barrier", func(packet.Generic) bool { return false })
				if alive && atomic.LoadInt32(&m.accepted)+atomic.LoadInt32(&m.rejected) != 1 && r.pending == nil {
					r.pending = r.fail("qos0/not-delivered-once", "QoS 0 message %s reached the callback %d times although it was received on a live connection", m.tag, atomic.LoadInt32(&m.accepted)+atomic.LoadInt32(&m.rejected))
				}
				return true
			})
		case "appsub", "appunsub", "apppub":
			// the application uses the client API meanwhile; the client's own packet
			// ids (1, 2, 3 ...) coincide with the ids of the inbound handshakes
			kind := op.Kind
			r.appCalls++
			done := false
			v = step(func() bool {
				if done {
					return true
				}
				from := len(r.link.Broker.Inbox)
				var wait func(time.Duration) error
				var want packet.Type
				switch kind {
				case "appsub":
					f, err := r.cl.Subscribe("c10/app", 0)
					if err != nil {
						return r.apiFailed()
					}
					wait, want = f.Wait, packet.SUBSCRIBE
				case "appunsub":
					f, err := r.cl.Unsubscribe("c10/app")
					if err != nil {
						return r.apiFailed()
					}
					wait, want = f.Wait, packet.UNSUBSCRIBE
				default:
					f, err := r.cl.Publish("c10/out", []byte("out"), 1, false)
					if err != nil {
						return r.apiFailed()
					}
					wait, want = f.Wait, packet.PUBLISH
				}
				i := r.link.Broker.WaitFor(from, func(g packet.Generic) bool {
					if x, ok := g.(*packet.Publish); ok && x.Dup {
						// an earlier publish of the application, re-sent from the session after a reconnect
						_ = r.link.Broker.Send(&packet.Puback{ID: x.ID})
						return false
					}
					return g.Type() == want
				}, ev.Ceiling())
				if i < 0 {
					if r.link.Broker.EOF {
						r.died("the application's " + kind)
						return false
					}
					if r.pending == nil {
						r.pending = r.fail("api/request-not-sent", "the application's %s did not reach the broker on a live connection", kind)
					}
					return false
				}
				id, _ := packet.GetID(r.link.Broker.Inbox[i])
				switch want {
				case packet.SUBSCRIBE:
					_ = r.link.Broker.Send(&packet.Suback{ID: id, ReturnCodes: []packet.QOS{0}})
				case packet.UNSUBSCRIBE:
					_ = r.link.Broker.Send(&packet.Unsuback{ID: id})
				default:
					_ = r.link.Broker.Send(&packet.Puback{ID: id})
				}
				done = true
				if err := wait(ev.Ceiling()); err != nil && !r.link.Broker.EOF && r.pending == nil {
					if err == future.ErrTimeout {
						r.pending = r.fail("api/future-unresolved", "the broker acknowledged the application's %s (id %d), its future did not complete", kind, id)
					}
				}
				// a barrier: the acknowledgement has been processed
				_, alive := r.expect(len(r.link.Broker.Inbox), "the barrier", func(packet.Generic) bool { return false })
				return alive
			})
		case "drop":
			if r.alive {
				r.link.Broker.Drop()
				r.account(r.link)
			}
		case "amnesia":
			if r.alive && !r.c.Clean {
				r.lost = true
				r.amnesias++
				r.log.Add(memconn.Event{Actor: "broker", Op: "session-lost", Note: "the broker restarts without its session: open handshakes forgotten, ids start over"})
				r.link.Broker.Drop()
				r.account(r.link)
			}
		}
		if v != nil {
			return v, 0, r
		}
	}
	// final phase: the application accepts everything, every handshake is driven to its end
	atomic.StoreInt32(&r.final, 1)
	for guard := 0; ; guard++ {
		if guard > 30 {
			return r.fail("harness/final-loop", "final phase does not converge"), 0, r
		}
		if !r.alive {
			if v := r.connect(); v != nil {
				return v, 0, r
			}
			continue
		}
		progress := false
		for id := 1; id <= 3 && r.alive; id++ {
			switch r.st[id] {
			case recWait:
				r.sendPublish(id, true)
				progress = true
			case relPending, compWait:
				r.sendRel(id, 1)
				progress = true
			}
			if r.pending != nil {
				return r.pending, 0, r
			}
		}
		if r.alive && len(r.unacked) > 0 {
			r.sendQ1(r.unacked[0], true)
			progress = true
			if r.pending != nil {
				return r.pending, 0, r
			}
		}
		if !progress && r.alive {
			break
		}
	}
	// history clauses
	evs := log.Events()
	for i, e := range evs {
		if e.Actor == "app" && e.Op == "callback" && e.Note == "REJECTED" {
			// after a rejected delivery the client sends nothing more on that connection
			conn := ""
			for j := i - 1; j >= 0 && conn == ""; j-- {
				if strings.HasPrefix(evs[j].Actor, "client#") && evs[j].Op == "recv" {
					conn = evs[j].Actor
				}
			}
			for _, x := range evs[i+1:] {
				if x.Actor == conn && x.Op == "send" {
					return r.fail("reject/acknowledged-anyway", "the application rejected %s, yet the client afterwards sent %s id=%d on the same connection", e.Tag, x.Type, x.ID), 0, r
				}
			}
		}
	}
	r.mmu.Lock()
	all := make([]*msg, 0, len(r.msgs))
	for _, m := range r.msgs {
		all = append(all, m)
	}
	r.mmu.Unlock()
	for _, m := range all {
		if m.forgiven {
			if m.qos == 2 && !c.Early && atomic.LoadInt32(&m.accepted) > r.maxAcc() {
				return r.fail("qos2/not-exactly-once", "QoS 2 message %s was accepted by the application %d times", m.tag, m.accepted), 0, r
			}
			continue
		}
		if acc := atomic.LoadInt32(&m.accepted); m.qos == 2 && !c.Early && (acc < 1 || acc > r.maxAcc()) {
			return r.fail("qos2/not-exactly-once", "QoS 2 message %s was accepted by the application %d times in total", m.tag, m.accepted), 0, r
		}
		if m.qos == 1 && atomic.LoadInt32(&m.accepted) == 0 {
			return r.fail("qos1/never-delivered", "QoS 1 message %s was never accepted by the application", m.tag), 0, r
		}
	}
	ops := r.consumed
	if r.alive {
		ops += r.link.ClientEnd.Ops() - r.base
	}
	return nil, ops, r
}

func genCase(rt *rapid.T) *Case {
	c := &Case{Early: rapid.IntRange(0, 4).Draw(rt, "early") == 0, Clean: rapid.IntRange(0, 2).Draw(rt, "clean") == 0}
	n := rapid.IntRange(1, 10).Draw(rt, "n")
	for i := 0; i < n; i++ {
		k := rapid.SampledFrom([]string{"pub", "pub", "pub", "rel", "rel", "rel", "rel2", "pub1", "pub0", "drop", "relclose", "amnesia", "appsub", "appunsub", "apppub"}).Draw(rt, "kind")
		c.Ops = append(c.Ops, Op{Kind: k, ID: rapid.IntRange(1, 3).Draw(rt, "id")})
	}
	if rapid.Bool().Draw(rt, "rejecting") {
		c.Reject = rapid.SliceOfN(rapid.Bool(), 1, 4).Draw(rt, "reject")
		all := true
		for _, x := range c.Reject {
			all = all && x
		}
		if all {
			c.Reject = append(c.Reject, false) // the application accepts eventually
		}
	}
	return c
}

func TestC10(t *testing.T) {
	run := ev.Start("C10", "fault_enumeration")
	run.Rule("fake-broker scripts of 1-10 steps over {QoS 2 PUBLISH on ids 1-3 (fresh, or the unanswered one again with DUP), PUBREL (also repeated while unanswered, or twice back to back), fresh QoS 1 / QoS 0 messages, drop + resume with the same session, PUBREL to a slow application that calls Client.Close() from another goroutine while the callback is still running and resumes with a new client as soon as Close has returned, the broker losing its session (CONNACK without session present, open handshakes forgotten, packet ids reused for new messages while the client still stores the old ones), the application's own Subscribe / Unsubscribe / QoS 1 Publish in between (answered by the fake broker; the client's packet ids coincide with the ids of the inbound handshakes)}, interpreted against the sender state so that the broker always obeys the MQTT sender rules (after every resume it retransmits PUBLISH dup / PUBREL as a correct broker would); application verdicts (accept / reject) drawn per callback invocation; both callback modes; clean session on and off (with a clean session a reconnect discards the open handshakes on both sides). Every script runs fault free and then once per (operation k, before/after) for EVERY send and receive on the client's connection(s), and once per session operation k failing (the client's session is a fault-injecting wrapper of the library's MemorySession). Oracle = the sender-side handshake model: every PUBLISH answered by PUBREC/PUBACK and every PUBREL by PUBCOMP (a QoS 1 barrier behind the packet makes a missing answer definite), per completed handshake exactly one accepted delivery (default mode), no acknowledgement after a rejected delivery and the connection closed, nothing delivered zero times in the end. non-trivial = a retransmission, a repeated PUBREL, a rejected delivery or a fault while a handshake is open; distinct by (script, fault)")
	run.Assume("early callback mode (AlwaysAnnounceOnPublish) documents redelivery: only the acknowledgement clauses are judged there")
	defer run.Finish(t)

	faultRuns, sessFaultRuns := 0, 0
	one := func(c *Case) *verdict {
		run.Eval(1)
		run.Inflight(c)
		v, _, r := runCase(c)
		run.ClearInflight()
		if r.dupPub+r.repRel+r.resumes > 0 || len(c.Reject) > 0 {
			run.NonTrivialJSON(c)
		}
		return v
	}
	exec := func(c *Case, report func(*verdict, *Case)) {
		run.Eval(1)
		run.Inflight(c)
		v, ops, r := runCase(c)
		run.ClearInflight()
		if r.dupPub+r.repRel+r.resumes > 0 || len(c.Reject) > 0 {
			run.NonTrivialJSON(c)
		}
		if r.dupPub > 0 {
			run.Class("duplicate-publish")
		}
		if r.repRel > 0 {
			run.Class("repeated-pubrel")
		}
		if r.appCloses > 0 {
			run.Class("close-during-callback")
		}
		if r.amnesias > 0 {
			run.Class("broker-lost-session")
		}
		if r.appCalls > 0 {
			run.Class("application-api-calls")
		}
		if v != nil {
			report(v, c)
			return
		}
		for k := int64(1); k <= ops; k++ {
			for _, after := range []bool{false, true} {
				fc := &Case{Ops: c.Ops, Reject: c.Reject, Early: c.Early, Clean: c.Clean, FailAt: k, After: after}
				faultRuns++
				if fv := one(fc); fv != nil {
					report(fv, fc)
					return
				}
			}
		}
		for k := int64(1); k <= r.sess.Ops()-r.sessBase; k++ {
			fc := &Case{Ops: c.Ops, Reject: c.Reject, Early: c.Early, Clean: c.Clean, SessFailAt: k}
			sessFaultRuns++
			if fv := one(fc); fv != nil {
				report(fv, fc)
				return
			}
		}
	}
	fixed := []*Case{
		{Ops: []Op{{"pub", 1}, {"rel2", 1}}},
		{Ops: []Op{{"pub", 1}, {"rel2", 1}, {"pub", 2}, {"drop", 0}, {"pub", 2}, {"rel", 2}}, Clean: true},
		{Ops: []Op{{"pub", 1}, {"pub", 2}, {"rel", 2}, {"drop", 0}, {"rel", 1}, {"pub", 1}, {"rel", 1}}},
		{Ops: []Op{{"pub", 1}, {"rel", 1}, {"pub1", 0}, {"pub0", 0}}, Reject: []bool{true, false}},
		{Ops: []Op{{"pub", 3}, {"drop", 0}, {"pub", 3}, {"rel", 3}}, Early: true},
		{Ops: []Op{{"pub", 1}, {"relclose", 1}, {"pub", 1}, {"rel", 1}}},
		{Ops: []Op{{"pub", 1}, {"amnesia", 0}, {"pub", 1}, {"rel", 1}}},
		{Ops: []Op{{"pub", 1}, {"appunsub", 0}, {"rel", 1}, {"pub", 2}, {"appsub", 0}, {"apppub", 0}, {"rel", 2}}},
		{Ops: []Op{{"pub", 1}, {"pub", 2}, {"rel", 2}, {"amnesia", 0}, {"pub", 2}, {"pub", 1}, {"rel", 1}, {"rel", 2}}, Early: true},
		{Ops: []Op{{"pub", 2}, {"pub", 1}, {"relclose", 2}, {"relclose", 1}, {"pub1", 0}}},
	}
	if shard, _ := ev.Shard(); shard == 0 {
		for _, c := range fixed {
			exec(c, func(v *verdict, fc *Case) { run.Violation(v.sig, v.msg, fc) })
		}
	}
	run.Rapid(t, "scripts", ev.Pick(150, 6000), func(rt *rapid.T) {
		c := genCase(rt)
		if c.Early {
			run.Class("mode=early")
		} else {
			run.Class("mode=default")
		}
		exec(c, func(v *verdict, fc *Case) {
			run.Candidate(v.sig, v.msg, fc)
			rt.Fatalf("%s: %s", v.sig, v.msg)
		})
	})
	run.Set("fault_positions_enumerated", faultRuns)
	run.Set("session_fault_positions_enumerated", sessFaultRuns)
}

func TestReplay(t *testing.T) {
	var c Case
	ok, err := ev.ReplayCase(&c)
	if !ok {
		t.Skip("no VERIF_REPLAY")
	}
	if err != nil {
		t.Fatal(err)
	}
	for i := 0; i < 5; i++ {
		if v, _, _ := runCase(&c); v != nil {
			t.Fatalf("VIOLATION reproduced: %s: %s", v.sig, v.msg)
		}
	}
	t.Log("case passes")
}
