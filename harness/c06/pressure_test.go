package c06

import (
	"fmt"
	"sync"
	"time"

	"github.com/256dpi/gomqtt/broker"
	"github.com/256dpi/gomqtt/packet"
	"pgregory.net/rapid"

	"verif/internal/bk"
	"verif/internal/ev"
	"verif/internal/peer"
)

// Pressure is a fan-out scenario under back-pressure (small session queues,
// inflight window 1).
//
//	Kind "stalled": one subscriber never acknowledges; the publisher's publish
//	  waits in the backend behind its full queue (documented), then the stalled
//	  subscriber's connection breaks. Every message acknowledged to the publisher
//	  must still reach every healthy subscriber exactly once.
//	Kind "self": a client publishes to its own subscription without
//	  acknowledging its deliveries until its own queue is full. Every publish
//	  that was acknowledged must be delivered to it (after it reconnects and
//	  acknowledges), the others are refused with the connection.
type Pressure struct {
	Kind         string `json:"kind"`
	Queue        int    `json:"queue"`
	Healthy      []bool `json:"healthy,omitempty"` // healthy subscribers: persistent session?
	StalledClean bool   `json:"stalled_clean,omitempty"`
	Messages     int    `json:"messages"`
	QoS          int    `json:"qos"`
}

func runPressure(c *Pressure) *verdict {
	b := bk.New(func(m *broker.MemoryBackend, e *broker.Engine) {
		m.SessionQueueSize = c.Queue
		m.ClientInflightMessages = 1
	})
	defer b.Shutdown()
	fail := func(sig, format string, a ...interface{}) *verdict {
		return &verdict{"pressure:" + sig, fmt.Sprintf(format, a...) + "\n--- event log (tail) ---\n" + tail(b.Log.Dump(), 7000)}
	}
	topic := "c06/p"
	if c.Kind == "self" {
		p, conn := b.Dial("self")
		p.AutoAck = false
		if _, err := p.ConnectID("self", false); err != nil {
			return fail("harness", "%v", err)
		}
		if _, err := p.Subscribe([]packet.Subscription{{Topic: topic, QOS: 1}}); err != nil {
			return fail("harness", "%v", err)
		}
		acked := map[string]bool{}
		for i := 0; i < c.Messages && !p.EOF; i++ {
			tag := fmt.Sprintf("self-%d", i)
			id := packet.ID(100 + i)
			from := len(p.Inbox)
			_ = p.Send(&packet.Publish{ID: id, Message: packet.Message{Topic: topic, Payload: []byte(tag), QOS: 1}})
			// PUBACK or the end of the connection (own queue full: refused, as documented)
			if p.WaitFor(from, func(g packet.Generic) bool { a, ok := g.(*packet.Puback); return ok && a.ID == id }, ev.Ceiling()) >= 0 {
				acked[tag] = true
			} else if !p.EOF {
				return fail("no-answer", "publish %s to the client's own subscription was neither acknowledged nor refused", tag)
			}
		}
		got := map[string]int{}
		collect := func(q *peer.Peer) {
			for _, g := range q.Publishes(0) {
				got[string(g.Message.Payload)]++
			}
		}
		// drain: acknowledge what is there, reconnecting if the broker closed the connection
		drain := func(q *peer.Peer) {
			q.AutoAck = true
			for _, g := range q.Inbox {
				if pub, ok := g.(*packet.Publish); ok && pub.Message.QOS == 1 {
					_ = q.Send(&packet.Puback{ID: pub.ID})
				}
			}
			deadline := time.Now().Add(ev.Ceiling())
			idle := 0
			for idle < 30 && time.Now().Before(deadline) && !q.EOF {
				n := len(q.Inbox)
				q.PumpWait(time.Millisecond)
				if len(q.Inbox) == n {
					idle++
				} else {
					idle = 0
				}
			}
		}
		if !p.EOF {
			drain(p)
		}
		collect(p)
		p.Drop()
		b.WaitClosed(conn)
		p2, _ := b.Dial("self")
		if ack, err := p2.ConnectID("self", false); err != nil || !ack.SessionPresent {
			return fail("harness", "reconnect: %v", err)
		}
		drain(p2)
		// retransmissions (DUP) of what p left unacknowledged count once
		seen := map[string]bool{}
		for _, g := range p2.Publishes(0) {
			t := string(g.Message.Payload)
			if g.Dup && got[t] > 0 {
				continue
			}
			if !seen[t] || !g.Dup {
				got[t]++
			}
			seen[t] = true
		}
		for tag := range acked {
			if got[tag] == 0 {
				return fail("self/acknowledged-publish-lost", "publish %s to the client's own subscription was acknowledged with PUBACK (its session queue of %d was full) but never delivered to it", tag, c.Queue)
			}
		}
		return nil
	}
	// ---- stalled subscriber
	stalled, sconn := b.Dial("stalled")
	stalled.AutoAck = false
	if _, err := stalled.ConnectID("stalled", c.StalledClean); err != nil {
		return fail("harness", "%v", err)
	}
	if _, err := stalled.Subscribe([]packet.Subscription{{Topic: topic, QOS: 1}}); err != nil {
		return fail("harness", "%v", err)
	}
	var healthy []*peer.Peer
	for i, persistent := range c.Healthy {
		h, _ := b.Dial(fmt.Sprintf("h%d", i))
		if _, err := h.ConnectID(fmt.Sprintf("h%d", i), !persistent); err != nil {
			return fail("harness", "%v", err)
		}
		if _, err := h.Subscribe([]packet.Subscription{{Topic: topic, QOS: packet.QOS(1 + i%2)}}); err != nil {
			return fail("harness", "%v", err)
		}
		healthy = append(healthy, h)
	}
	pub, _ := b.Dial("pub")
	if _, err := pub.ConnectID("pub", true); err != nil {
		return fail("harness", "%v", err)
	}
	var wg sync.WaitGroup
	stop := make(chan struct{})
	for _, h := range healthy {
		h := h
		wg.Add(1)
		go func() { // healthy subscribers read and acknowledge all the time
			defer wg.Done()
			for !h.EOF {
				select {
				case <-stop:
					return
				default:
				}
				h.PumpWait(time.Millisecond)
			}
		}()
	}
	acked := make(chan int, 1)
	go func() {
		n := 0
		for i := 0; i < c.Messages; i++ {
			if err := pub.Publish(topic, []byte(fmt.Sprintf("m-%d", i)), packet.QOS(c.QoS), false); err != nil {
				break
			}
			n++
		}
		acked <- n
	}()
	// wait until a publish is stuck in the backend (or all went through), then the stalled subscriber leaves
	deadline := time.Now().Add(2 * time.Second * ev.Slow())
	stuck := 0
	for stuck < 3 && time.Now().Before(deadline) {
		time.Sleep(time.Millisecond)
		open := 0
		for _, call := range b.Rec.Calls() {
			if call.Hook == "Publish" {
				if call.Done {
					open--
				} else {
					open++
				}
			}
		}
		if open > 0 {
			stuck++
		} else {
			stuck = 0
		}
	}
	stalled.Drop()
	if !b.WaitClosed(sconn) {
		close(stop)
		return fail("stalled/not-terminated", "the stalled subscriber's connection broke but its broker side never terminated")
	}
	var n int
	select {
	case n = <-acked:
	case <-time.After(ev.Ceiling()):
		close(stop)
		return fail("publisher/stuck", "the publisher's handshakes did not complete after the stalled subscriber had gone")
	}
	// a final marker message closes the observation
	if err := pub.Publish(topic, []byte("final"), 1, false); err != nil {
		close(stop)
		return fail("publisher/stuck", "%v", err)
	}
	close(stop)
	wg.Wait()
	for i, h := range healthy {
		// make sure the final marker is in (pump from this goroutine now)
		h.WaitFor(0, func(g packet.Generic) bool {
			p, ok := g.(*packet.Publish)
			return ok && string(p.Message.Payload) == "final"
		}, ev.Ceiling())
		count := map[string]int{}
		for _, g := range h.Publishes(0) {
			count[string(g.Message.Payload)]++
		}
		for k := 0; k < n; k++ {
			tag := fmt.Sprintf("m-%d", k)
			switch {
			case count[tag] == 0:
				return fail("stalled/healthy-subscriber-missed-message", "message %s was acknowledged to the publisher while another subscriber of the topic was stalled and then went away; healthy subscriber %d (of %d) never received it", tag, i, len(healthy))
			case count[tag] > 1:
				return fail("stalled/duplicate", "healthy subscriber %d received %s %d times", i, tag, count[tag])
			}
		}
	}
	return nil
}

func genPressure(rt *rapid.T) *Pressure {
	c := &Pressure{Kind: rapid.SampledFrom([]string{"stalled", "stalled", "self"}).Draw(rt, "kind"), Queue: rapid.IntRange(1, 3).Draw(rt, "queue"), QoS: rapid.IntRange(1, 2).Draw(rt, "qos")}
	c.Messages = c.Queue + 1 + rapid.IntRange(1, 4).Draw(rt, "extra")
	if c.Kind == "stalled" {
		c.StalledClean = rapid.Bool().Draw(rt, "stalled_clean")
		c.Healthy = rapid.SliceOfN(rapid.Bool(), 2, 12).Draw(rt, "healthy")
	}
	return c
}
