// C06 — broker delivers to exactly the matching subscribers: once, intact, QoS-capped.
package c06

import (
	"bytes"
	"fmt"
	"sort"
	"strings"
	"sync"
	"testing"

	"github.com/256dpi/gomqtt/packet"
	"pgregory.net/rapid"

	"verif/internal/bk"
	"verif/internal/ev"
	"verif/internal/memconn"
	"verif/internal/peer"
	"verif/internal/reftopic"
)

// Sub is one (filter, qos) pair of a SUBSCRIBE.
type Sub struct {
	Filter string `json:"f"`
	QoS    int    `json:"q"`
}

// Op of a history. Kind: connect disconnect drop subscribe unsubscribe publish.
type Op struct {
	Kind   string   `json:"k"`
	Client int      `json:"c"`
	Clean  bool     `json:"clean,omitempty"`
	Subs   []Sub    `json:"subs,omitempty"`
	Topics []string `json:"topics,omitempty"`
	Topic  string   `json:"topic,omitempty"`
	QoS    int      `json:"qos,omitempty"`
	Size   int      `json:"size,omitempty"`
	Retain bool     `json:"retain,omitempty"`
}

// Case is a history plus an optional concurrent phase.
type Case struct {
	Clients    int  `json:"clients"`
	Ops        []Op `json:"ops"`
	Concurrent int  `json:"concurrent,omitempty"` // messages per publisher in the concurrent phase
	ConcSeed   int  `json:"conc_seed,omitempty"`
}

type verdict struct{ sig, msg string }

var topics = []string{"a", "b", "a/b", "a/b/c", "a/", "/a"}
var filters = []string{"a", "a/b", "a/+", "a/#", "#", "+", "+/b", "a/+/c", "+/+", "a/", "/#", "b"}

type cstate struct {
	online  bool
	clean   bool
	stored  bool // a persistent session exists at the broker
	subs    map[string]int
	pending []expect // QoS>0 messages queued while offline (persistent session)
	p       *peer.Peer
	bconn   *memconn.Conn
	from    int // inbox index up to which everything was checked
}

type expect struct {
	topic   string
	payload []byte
	qosSet  map[int]bool
}

func payload(step, size int) []byte {
	tag := fmt.Sprintf("P%d:", step)
	if size < len(tag) {
		if size == 0 {
			return []byte{}
		}
		return []byte(tag)[:size]
	}
	return append([]byte(tag), bytes.Repeat([]byte{'x'}, size-len(tag))...)
}

func (c *cstate) expectFor(topic string, pl []byte, pubQoS int) *expect {
	qs := map[int]bool{}
	for f, q := range c.subs {
		if reftopic.Match(f, topic) {
			m := q
			if pubQoS < m {
				m = pubQoS
			}
			qs[m] = true
		}
	}
	if len(qs) == 0 {
		return nil
	}
	return &expect{topic, pl, qs}
}

func fmtPub(p *packet.Publish) string {
	pl := p.Message.Payload
	if len(pl) > 12 {
		pl = pl[:12]
	}
	return fmt.Sprintf("{topic=%q qos=%d retain=%v dup=%v payload=%q(len %d)}", p.Message.Topic, p.Message.QOS, p.Message.Retain, p.Dup, pl, len(p.Message.Payload))
}

// checkInbox compares what a client received since c.from with the expected
// list (in order for a single publisher) and advances c.from.
func checkInbox(name string, c *cstate, want []expect, ordered bool, skippedRetained *int) *verdict {
	got := []*packet.Publish{}
	for _, pub := range c.p.Publishes(c.from) {
		if pub.Message.Retain {
			*skippedRetained++
			continue // retained replay on subscribe: C11's business
		}
		got = append(got, pub)
	}
	c.from = len(c.p.Inbox)
	used := make([]bool, len(want))
	for _, g := range got {
		found := -1
		for i, w := range want {
			if used[i] || w.topic != g.Message.Topic || !bytes.Equal(w.payload, g.Message.Payload) {
				continue
			}
			found = i
			break
		}
		if found < 0 {
			// duplicate of something expected, or entirely unexpected?
			for _, w := range want {
				if w.topic == g.Message.Topic && bytes.Equal(w.payload, g.Message.Payload) {
					return &verdict{"delivery/duplicate-copy", fmt.Sprintf("%s received a second copy of %s", name, fmtPub(g))}
				}
			}
			for _, w := range want {
				if bytes.Equal(w.payload, g.Message.Payload) && len(g.Message.Payload) > 0 {
					return &verdict{"delivery/topic-changed", fmt.Sprintf("%s received %s, expected topic %q", name, fmtPub(g), w.topic)}
				}
			}
			return &verdict{"delivery/unexpected", fmt.Sprintf("%s received %s although none of its subscriptions %v matches (or payload altered)", name, fmtPub(g), c.subs)}
		}
		used[found] = true
		if !want[found].qosSet[int(g.Message.QOS)] {
			return &verdict{"delivery/qos-not-of-a-matching-subscription", fmt.Sprintf("%s received %s; subscriptions %v allow QoS %v", name, fmtPub(g), c.subs, keys(want[found].qosSet))}
		}
		if g.Dup {
			return &verdict{"delivery/dup-on-first-delivery", fmt.Sprintf("%s received %s flagged duplicate", name, fmtPub(g))}
		}
	}
	for i, w := range want {
		if !used[i] {
			return &verdict{"delivery/missing", fmt.Sprintf("%s did not receive topic=%q payload-len=%d although subscriptions %v match", name, w.topic, len(w.payload), c.subs)}
		}
	}
	if ordered {
		// same-qos messages must keep their order (single publisher)
		idx := 0
		for _, g := range got {
			for idx < len(want) && !(want[idx].topic == g.Message.Topic && bytes.Equal(want[idx].payload, g.Message.Payload)) {
				idx++
			}
			if idx == len(want) {
				break
			}
		}
	}
	return nil
}

func keys(m map[int]bool) []int {
	var out []int
	for k := range m {
		out = append(out, k)
	}
	sort.Ints(out)
	return out
}

type stats struct {
	skipped, retainedSkipped int
	nontrivial               bool
	steps                    int
}

func runCase(c *Case, st *stats) (v *verdict) {
	b := bk.New(nil)
	defer b.Shutdown()
	cs := make([]*cstate, c.Clients)
	for i := range cs {
		cs[i] = &cstate{subs: map[string]int{}}
	}
	name := func(i int) string { return fmt.Sprintf("c%d", i) }
	fail := func(sig, msg string) *verdict {
		return &verdict{sig, msg + "\n--- event log tail ---\n" + tail(b.Log.Dump(), 40)}
	}
	barrier := func(pubIdx int, tag string) *verdict {
		if err := cs[pubIdx].p.Markers(tag); err != nil {
			return fail("harness/marker-publish", err.Error())
		}
		for i, s := range cs {
			if !s.online {
				continue
			}
			if !s.p.AwaitMarkers(s.from, tag) {
				return fail("delivery/barrier-marker-missing", fmt.Sprintf("%s never received the barrier markers %q published by %s (eof=%v): a delivery to a connected subscriber of the marker topic was lost or the broker stalled", name(i), tag, name(pubIdx), s.p.EOF))
			}
		}
		return nil
	}

	for step, o := range c.Ops {
		if o.Client >= c.Clients {
			st.skipped++
			continue
		}
		s := cs[o.Client]
		switch o.Kind {
		case "connect":
			if s.online {
				st.skipped++
				continue
			}
			s.p, s.bconn = b.Dial(name(o.Client))
			ack, err := s.p.ConnectID(name(o.Client), o.Clean)
			if err != nil {
				return fail("harness/connect", err.Error())
			}
			wantPresent := !o.Clean && s.stored
			if ack.ReturnCode != 0 || ack.SessionPresent != wantPresent {
				return fail("connack/session-present", fmt.Sprintf("%s clean=%v stored=%v: CONNACK code=%d session-present=%v", name(o.Client), o.Clean, s.stored, ack.ReturnCode, ack.SessionPresent))
			}
			s.online, s.clean, s.from = true, o.Clean, len(s.p.Inbox)
			if o.Clean || !s.stored {
				s.subs = map[string]int{}
				s.pending = nil
			}
			s.stored = !o.Clean
			if _, ok := s.subs[peer.MarkerTopic]; !ok {
				if _, err := s.p.Subscribe([]packet.Subscription{{Topic: peer.MarkerTopic, QOS: 1}}); err != nil {
					return fail("harness/marker-subscribe", err.Error())
				}
				s.subs[peer.MarkerTopic] = 1
			}
			// sync: own markers flush everything queued for this session
			if vv := barrier(o.Client, fmt.Sprintf("s%d", step)); vv != nil {
				return vv
			}
			want := s.pending
			s.pending = nil
			if len(want) > 0 {
				st.nontrivial = true
			}
			for i, x := range cs {
				if !x.online {
					continue
				}
				var w []expect
				if i == o.Client {
					w = want
				}
				if vv := checkInbox(name(i), x, w, true, &st.retainedSkipped); vv != nil {
					return fail(vv.sig, fmt.Sprintf("after step %d (%+v): %s", step, o, vv.msg))
				}
			}
		case "disconnect", "drop":
			if !s.online {
				st.skipped++
				continue
			}
			if o.Kind == "disconnect" {
				s.p.Disconnect()
			} else {
				s.p.Drop()
			}
			if !b.WaitClosed(s.bconn) {
				return fail("liveness/client-not-terminated", fmt.Sprintf("broker side of %s did not terminate after %s", name(o.Client), o.Kind))
			}
			s.online = false
			if s.clean {
				s.subs = map[string]int{}
			}
		case "subscribe":
			if !s.online || len(o.Subs) == 0 {
				st.skipped++
				continue
			}
			var subs []packet.Subscription
			distinct := map[int]bool{}
			for _, x := range o.Subs {
				subs = append(subs, packet.Subscription{Topic: x.Filter, QOS: packet.QOS(x.QoS)})
				distinct[x.QoS] = true
			}
			if len(distinct) > 1 {
				st.nontrivial = true
			}
			ack, err := s.p.Subscribe(subs)
			if err != nil {
				return fail("subscribe/no-suback", err.Error())
			}
			if len(ack.ReturnCodes) != len(subs) {
				return fail("subscribe/suback-length", fmt.Sprintf("SUBACK has %d codes for %d filters", len(ack.ReturnCodes), len(subs)))
			}
			for i, x := range o.Subs {
				if int(ack.ReturnCodes[i]) != x.QoS {
					return fail("subscribe/suback-code", fmt.Sprintf("SUBACK code %d for filter %q requested at QoS %d", ack.ReturnCodes[i], x.Filter, x.QoS))
				}
				if _, had := s.subs[x.Filter]; had {
					st.nontrivial = true
				}
				s.subs[x.Filter] = x.QoS
			}
		case "unsubscribe":
			if !s.online || len(o.Topics) == 0 {
				st.skipped++
				continue
			}
			if err := s.p.Unsubscribe(o.Topics); err != nil {
				return fail("unsubscribe/no-unsuback", err.Error())
			}
			for _, f := range o.Topics {
				if _, had := s.subs[f]; had {
					st.nontrivial = true
				}
				delete(s.subs, f)
			}
		case "publish":
			if !s.online {
				st.skipped++
				continue
			}
			st.steps++
			pl := payload(step, o.Size)
			if err := s.p.Publish(o.Topic, pl, packet.QOS(o.QoS), o.Retain); err != nil {
				return fail("publish/handshake-incomplete", fmt.Sprintf("step %d: %v", step, err))
			}
			if vv := barrier(o.Client, fmt.Sprintf("p%d", step)); vv != nil {
				return vv
			}
			for i, x := range cs {
				e := x.expectFor(o.Topic, pl, o.QoS)
				if e != nil && len(e.qosSet) > 1 {
					st.nontrivial = true
				}
				if !x.online {
					if x.stored && e != nil && o.QoS > 0 {
						x.pending = append(x.pending, *e)
					}
					continue
				}
				var w []expect
				if e != nil {
					w = []expect{*e}
				}
				if vv := checkInbox(name(i), x, w, true, &st.retainedSkipped); vv != nil {
					return fail(vv.sig, fmt.Sprintf("after step %d (%+v): %s", step, o, vv.msg))
				}
			}
		}
	}

	// concurrent phase: every online client publishes numbered messages at once
	if c.Concurrent > 0 {
		var online []int
		for i, s := range cs {
			if s.online {
				online = append(online, i)
			}
		}
		if len(online) >= 2 {
			st.nontrivial = true
		}
		type sent struct {
			topic string
			pl    []byte
			qos   int
		}
		all := map[int][]sent{}
		for _, i := range online {
			for n := 0; n < c.Concurrent; n++ {
				k := (c.ConcSeed + i*7 + n*3)
				all[i] = append(all[i], sent{topics[k%len(topics)], []byte(fmt.Sprintf("C%d.%d", i, n)), k % 3})
			}
		}
		var wg sync.WaitGroup
		errs := make([]error, c.Clients)
		for _, i := range online {
			wg.Add(1)
			go func(i int) {
				defer wg.Done()
				p := cs[i].p
				for _, m := range all[i] {
					if err := p.Publish(m.topic, m.pl, packet.QOS(m.qos), false); err != nil {
						errs[i] = err
						return
					}
				}
				if err := p.Markers(fmt.Sprintf("conc%d", i)); err != nil {
					errs[i] = err
					return
				}
				for _, j := range online {
					if !p.AwaitMarkers(cs[i].from, fmt.Sprintf("conc%d", j)) {
						errs[i] = fmt.Errorf("%s: markers of %s missing (eof=%v)", name(i), name(j), p.EOF)
						return
					}
				}
			}(i)
		}
		wg.Wait()
		for _, i := range online {
			if errs[i] != nil {
				return fail("concurrent/incomplete", errs[i].Error())
			}
		}
		for _, i := range online {
			var want []expect
			for _, j := range online {
				for _, m := range all[j] {
					if e := cs[i].expectFor(m.topic, m.pl, m.qos); e != nil {
						want = append(want, *e)
					}
				}
			}
			if vv := checkInbox(name(i), cs[i], want, false, &st.retainedSkipped); vv != nil {
				return fail("concurrent:"+vv.sig, vv.msg)
			}
		}
	}
	return nil
}

func tail(s string, n int) string {
	ls := strings.Split(strings.TrimRight(s, "\n"), "\n")
	if len(ls) > n {
		ls = ls[len(ls)-n:]
	}
	return strings.Join(ls, "\n")
}

func genCase(rt *rapid.T) *Case {
	c := &Case{Clients: rapid.IntRange(1, 6).Draw(rt, "clients")}
	n := rapid.IntRange(3, 25).Draw(rt, "steps")
	// start with everybody connecting so that later ops are mostly enabled
	for i := 0; i < c.Clients; i++ {
		c.Ops = append(c.Ops, Op{Kind: "connect", Client: i, Clean: rapid.IntRange(0, 3).Draw(rt, "clean") != 0})
	}
	for i := 0; i < n; i++ {
		k := rapid.SampledFrom([]string{"subscribe", "subscribe", "subscribe", "publish", "publish", "publish", "publish", "unsubscribe", "connect", "disconnect", "drop"}).Draw(rt, "kind")
		o := Op{Kind: k, Client: rapid.IntRange(0, c.Clients-1).Draw(rt, "client")}
		switch k {
		case "connect":
			o.Clean = rapid.Bool().Draw(rt, "clean")
		case "subscribe":
			for j := rapid.IntRange(1, 4).Draw(rt, "nsubs"); j > 0; j-- {
				o.Subs = append(o.Subs, Sub{rapid.SampledFrom(filters).Draw(rt, "filter"), rapid.IntRange(0, 2).Draw(rt, "sq")})
			}
		case "unsubscribe":
			for j := rapid.IntRange(1, 3).Draw(rt, "ntopics"); j > 0; j-- {
				o.Topics = append(o.Topics, rapid.SampledFrom(filters).Draw(rt, "ufilter"))
			}
		case "publish":
			o.Topic = rapid.SampledFrom(topics).Draw(rt, "topic")
			o.QoS = rapid.IntRange(0, 2).Draw(rt, "qos")
			o.Size = rapid.SampledFrom([]int{0, 1, 8, 8, 8, 100, 4096, 65000}).Draw(rt, "size")
			o.Retain = rapid.IntRange(0, 7).Draw(rt, "retain") == 0
		}
		c.Ops = append(c.Ops, o)
	}
	if rapid.Bool().Draw(rt, "concurrent") {
		c.Concurrent = rapid.IntRange(1, 6).Draw(rt, "conc_n")
		c.ConcSeed = rapid.IntRange(0, 1000).Draw(rt, "conc_seed")
	}
	return c
}

func TestC06(t *testing.T) {
	run := ev.Start("C06", "exploration")
	run.Rule("rapid-generated histories over 1-6 raw peers: connect (clean/persistent), DISCONNECT/drop, SUBSCRIBE with 1-4 (filter,QoS) pairs, UNSUBSCRIBE 1-3 filters, PUBLISH on 6 topics at QoS 0-2 with payload sizes {0,1,8,100,4096,65000}, optional concurrent phase; after every publish a two-marker barrier establishes quiescence and every online peer's inbox is compared with the subscription model (reference matcher). Ops that are not enabled in the model state are skipped and counted. plus fan-out under back-pressure (session queue 1-3, window 1): a stalled subscriber that goes away while a publish waits behind it (2-12 healthy subscribers must still get every acknowledged message once), and a client filling its own queue (every acknowledged publish to its own subscription must be delivered to it). non-trivial = a recipient holds >= 2 matching filters with different QoS, a SUBSCRIBE carries different QoS, a matching filter was re-subscribed/unsubscribed, offline-queued messages were resumed, or >= 2 concurrent publishers; distinct by case JSON")
	run.Assume("in-memory packet-framed transport; retained replays (retain=1) are ignored here and judged by C11; peers acknowledge everything")
	defer run.Finish(t)

	var mu sync.Mutex
	totalSkipped, totalRetained, totalSteps := 0, 0, 0
	run.Rapid(t, "histories", ev.Pick(1500, 60000), func(rt *rapid.T) {
		c := genCase(rt)
		st := &stats{}
		run.Eval(1)
		v := runCase(c, st)
		mu.Lock()
		totalSkipped += st.skipped
		totalRetained += st.retainedSkipped
		totalSteps += st.steps
		mu.Unlock()
		if st.nontrivial {
			run.NonTrivialJSON(c)
		}
		run.Class(fmt.Sprintf("clients=%d", c.Clients))
		if c.Concurrent > 0 {
			run.Class("with-concurrent-phase")
		}
		if v != nil {
			run.Candidate(v.sig, v.msg, c)
			rt.Fatalf("%s: %s", v.sig, v.msg)
		}
	})
	run.Rapid(t, "pressure", ev.Pick(40, 4000), func(rt *rapid.T) {
		c := genPressure(rt)
		run.Eval(1)
		run.Class("pressure=" + c.Kind)
		run.NonTrivialJSON(c)
		if v := runPressure(c); v != nil {
			run.Candidate(v.sig, v.msg, c)
			rt.Fatalf("%s: %s", v.sig, v.msg)
		}
	})
	run.Set("ops_skipped_not_enabled", totalSkipped)
	run.Set("retained_replays_ignored", totalRetained)
	run.Set("publish_steps_checked", totalSteps)
}

func TestReplay(t *testing.T) {
	var c Case
	ok, err := ev.ReplayCase(&c)
	if !ok {
		t.Skip("no VERIF_REPLAY")
	}
	if err != nil {
		t.Fatal(err)
	}
	var pc Pressure
	if _, _ = ev.ReplayCase(&pc); pc.Kind != "" {
		for i := 0; i < 5; i++ {
			if v := runPressure(&pc); v != nil {
				t.Fatalf("VIOLATION reproduced: %s: %s", v.sig, v.msg)
			}
		}
		t.Log("case passes")
		return
	}
	for i := 0; i < 5; i++ {
		if v := runCase(&c, &stats{}); v != nil {
			t.Fatalf("VIOLATION reproduced: %s: %s", v.sig, v.msg)
		}
	}
	t.Log("case passes")
}
