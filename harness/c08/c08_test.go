// C08 — broker never loses an accepted QoS>=1 message for a persistent subscriber.
package c08

import (
	"fmt"
	"strings"
	"testing"
	"time"

	"github.com/256dpi/gomqtt/broker"
	"github.com/256dpi/gomqtt/packet"
	"github.com/256dpi/gomqtt/session"
	"pgregory.net/rapid"

	"verif/internal/bk"
	"verif/internal/ev"
	"verif/internal/memconn"
	"verif/internal/peer"
)

// Round of a subscriber script.
//
//	Pub:  QoS (1|2) of the messages a second peer publishes at the start of
//	      the round (while the subscriber is online, window-blocked or offline).
//	Acts: what the subscriber does with the unacknowledged deliveries, in
//	      arrival order (cyclic): "full" = complete the handshake, "half" =
//	      PUBREC but withhold PUBCOMP (QoS 1: withhold), "none" = withhold.
//	End:  "" | "drop" | "disconnect" | "clean" | "unclean" (reconnect when offline).
type Round struct {
	Pub  []int    `json:"pub,omitempty"`
	Acts []string `json:"acts,omitempty"`
	End  string   `json:"end,omitempty"`
}

// Case is a subscriber script plus one fault position on the subscriber's
// broker-side connection(s).
type Case struct {
	Window int     `json:"window"`
	Rounds []Round `json:"rounds"`
	FailAt int64   `json:"fail_at,omitempty"`
	After  bool    `json:"after,omitempty"`

	// Dying: QoS of the messages published while the subscriber's connection
	// has been lost but its client is not terminated yet (see runDying);
	// Before / Offline: messages published before the loss (left
	// unacknowledged) and after the termination.
	Dying   []int `json:"dying,omitempty"`
	Before  []int `json:"before,omitempty"`
	Offline []int `json:"offline,omitempty"`
	// Bystander: a second, clean-session subscriber to the same topic at QoS 0
	// is online all the time (it gets its copies first while the persistent
	// subscriber is away)
	Bystander bool `json:"bystander,omitempty"`
}

type verdict struct{ sig, msg string }

type message struct {
	tag      string
	qos      int
	forgiven bool // accepted before a clean connect discarded the session
}

type arrival struct {
	id   packet.ID
	qos  int
	tag  string
	rec  bool // PUBREC sent (qos2)
	rel  bool // PUBREL received
	done bool // PUBACK / PUBCOMP sent
}

type runner struct {
	c                 *Case
	b                 *bk.Broker
	pub               *peer.Peer
	p                 *peer.Peer // subscriber
	bconn             *memconn.Conn
	online            bool
	stored            bool  // the broker holds a persistent session for "sub"
	subscribed        bool  // the current session is known to hold the subscription
	cleanConn         bool  // the live (or last) connection used a clean session
	setupDone         bool  // initial connect+subscribe finished: the fault plan counts from here
	base              int64 // operations of the first connection that precede the fault plan
	consumed          int64
	faultHit          bool
	scanned           int // inbox index processed by the receiver model
	msgs              []*message
	byTag             map[string]*message
	pending           []*arrival           // unacknowledged deliveries on the live connection, arrival order
	recSet            map[packet.ID]string // receiver session: ids whose QoS 2 PUBLISH was passed on, PUBCOMP not sent
	app               map[string]int       // application level deliveries per tag
	seen              map[string]bool      // tags whose PUBLISH reached the subscriber at least once
	epoch             int64                // log seq of the last clean connect
	resumes           int
	faultWhileUnacked bool
}

func (r *runner) fail(sig, format string, a ...interface{}) *verdict {
	return &verdict{sig, fmt.Sprintf(format, a...) + "\n--- event log ---\n" + r.b.Log.Dump()}
}

// ---- state derived from the harness-owned event log ------------------------

type brokerView struct {
	inflight map[uint16]string // id -> tag: PUBLISH handed to the connection (sent, lost or after close), not acknowledged at the broker
	gotRec   map[uint16]bool   // broker received PUBREC for the id (since its PUBLISH)
	sentTags map[string]bool
	sentOK   int // PUBLISH/PUBREL/other packets actually delivered to the subscriber on the live connection
}

func (r *runner) view() brokerView {
	v := brokerView{map[uint16]string{}, map[uint16]bool{}, map[string]bool{}, 0}
	for _, e := range r.b.Log.Events() {
		if e.Seq <= r.epoch || !strings.HasPrefix(e.Actor, "broker<sub") {
			continue
		}
		switch {
		case e.Type == "Publish" && e.QoS > 0 && (e.Op == "send" || e.Op == "send-lost" || e.Op == "send-closed"):
			v.inflight[e.ID] = e.Tag
			v.sentTags[e.Tag] = true
			if !e.Dup {
				delete(v.gotRec, e.ID)
			}
		case e.Op == "recv" && e.Type == "Pubrec":
			if _, ok := v.inflight[e.ID]; ok {
				v.gotRec[e.ID] = true
			}
		case e.Op == "recv" && (e.Type == "Puback" || e.Type == "Pubcomp"):
			delete(v.inflight, e.ID)
			delete(v.gotRec, e.ID)
		}
	}
	return v
}

func (r *runner) queued(v brokerView) int {
	n := 0
	for _, m := range r.msgs {
		if !m.forgiven && !v.sentTags[m.tag] {
			n++
		}
	}
	return n
}

func (r *runner) deliveredToSub() int {
	n := 0
	name := r.bconn.Name
	for _, e := range r.b.Log.Events() {
		if e.Actor == name && e.Op == "send" {
			n++
		}
	}
	return n
}

// ---- receiver model -----------------------------------------------------------

func (r *runner) absorb() *verdict {
	for ; r.scanned < len(r.p.Inbox); r.scanned++ {
		switch g := r.p.Inbox[r.scanned].(type) {
		case *packet.Publish:
			tag := string(g.Message.Payload)
			m := r.byTag[tag]
			if m == nil {
				return r.fail("delivery/unknown-message", "subscriber received an unknown message %q", tag)
			}
			if m.forgiven {
				return r.fail("clean/stale-delivery", "message %s accepted before the clean-session connect was delivered afterwards", tag)
			}
			if int(g.Message.QOS) != m.qos {
				return r.fail("delivery/qos-changed", "message %s published at QoS %d arrived at QoS %d", tag, m.qos, g.Message.QOS)
			}
			if m.qos == 2 && r.seen[tag] && !g.Dup {
				return r.fail("qos2/offered-again-as-new", "QoS 2 message %s was offered a second time without the DUP flag (id %d)", tag, g.ID)
			}
			r.seen[tag] = true
			// drop an older pending entry with the same id (retransmission)
			var keep []*arrival
			for _, a := range r.pending {
				if a.id != g.ID {
					keep = append(keep, a)
				}
			}
			r.pending = keep
			a := &arrival{id: g.ID, qos: m.qos, tag: tag}
			if m.qos == 1 {
				r.app[tag]++
			} else if _, known := r.recSet[g.ID]; !known {
				r.app[tag]++
				r.recSet[g.ID] = tag
			}
			r.pending = append(r.pending, a)
		case *packet.Pubrel:
			found := false
			for _, a := range r.pending {
				if a.id == g.ID {
					a.rec, a.rel, found = true, true, true
				}
			}
			if !found {
				r.pending = append(r.pending, &arrival{id: g.ID, qos: 2, tag: r.recSet[g.ID], rec: true, rel: true})
			}
		}
	}
	return nil
}

// settle waits until the broker has nothing more to send to the live
// subscriber connection (queue empty or window exhausted) and everything
// sent has been read, or until the connection ended.
func (r *runner) settle() *verdict {
	if !r.online {
		return nil
	}
	deadline := time.Now().Add(ev.Ceiling())
	for {
		r.p.Pump()
		if v := r.absorb(); v != nil {
			return v
		}
		if r.p.EOF {
			return r.lost()
		}
		vw := r.view()
		if (r.queued(vw) == 0 || len(vw.inflight) >= r.c.Window) && r.deliveredToSub() == len(r.p.Inbox) {
			// stable? look again after the broker had a chance to run
			time.Sleep(100 * time.Microsecond)
			r.p.Pump()
			vw2 := r.view()
			if len(vw2.inflight) == len(vw.inflight) && r.deliveredToSub() == len(r.p.Inbox) && !r.p.EOF {
				if v := r.absorb(); v != nil {
					return v
				}
				return nil
			}
			continue
		}
		if time.Now().After(deadline) {
			return r.fail("delivery/stalled", "the broker holds %d queued messages for the subscriber, %d of %d window slots are used, yet nothing is sent (subscriber read %d of %d delivered packets)", r.queued(vw), len(vw.inflight), r.c.Window, len(r.p.Inbox), r.deliveredToSub())
		}
		r.p.PumpWait(200 * time.Microsecond)
	}
}

// lost: the live connection ended; wait for the broker side to terminate.
func (r *runner) lost() *verdict {
	if len(r.view().inflight) > 0 {
		r.faultWhileUnacked = true
	}
	r.p.Drop()
	if !r.b.WaitClosed(r.bconn) {
		return r.fail("liveness/client-not-terminated", "broker side of the subscriber connection did not terminate")
	}
	r.consumed += r.bconn.Ops() - r.base
	r.base = 0
	if r.c.FailAt > 0 && r.consumed >= r.c.FailAt {
		r.faultHit = true
	}
	r.online = false
	r.pending = nil
	if r.cleanConn {
		r.forgive() // a clean session ends with its connection
	}
	return nil
}

func (r *runner) send(g packet.Generic) {
	_ = r.p.Send(g)
}

// ping: everything the subscriber sent before has been processed once the
// PINGRESP is back (packets of one connection are processed in order).
func (r *runner) ping() *verdict {
	if !r.online {
		return nil
	}
	from := len(r.p.Inbox)
	r.send(packet.NewPingreq())
	if r.p.WaitFor(from, func(g packet.Generic) bool { return g.Type() == packet.PINGRESP }, ev.Ceiling()) < 0 {
		if r.p.EOF || r.bconn.Closed() {
			if v := r.absorb(); v != nil {
				return v
			}
			return r.lost()
		}
		return r.fail("liveness/no-pingresp", "PINGREQ not answered on a live connection")
	}
	return r.absorb()
}

// probe checks that the live session holds want ("Publish"/"Pubrel") for id.
func (r *runner) probe(id packet.ID, want string, when string) *verdict {
	cl := r.b.Rec.ClientOf(r.bconn)
	if cl == nil || cl.Session() == nil {
		return nil
	}
	g, _ := cl.Session().LookupPacket(session.Outgoing, id)
	have := "nothing"
	if g != nil {
		have = g.Type().String()
	}
	if have != want {
		return r.fail("session/not-recorded-until-acknowledged", "%s: the subscriber's session holds %s for id %d, expected the %s", when, have, id, want)
	}
	return nil
}

func (r *runner) act(acts []string) *verdict {
	if !r.online {
		return nil
	}
	todo := append([]*arrival{}, r.pending...)
	for i, a := range todo {
		if !r.online {
			return nil
		}
		act := "full"
		if len(acts) > 0 {
			act = acts[i%len(acts)]
		}
		if act == "none" {
			continue
		}
		if a.qos == 1 {
			if act != "full" {
				continue
			}
			if v := r.probe(a.id, "Publish", "before PUBACK"); v != nil {
				return v
			}
			r.send(&packet.Puback{ID: a.id})
			a.done = true
		} else {
			if !a.rec {
				if v := r.probe(a.id, "Publish", "before PUBREC"); v != nil {
					return v
				}
				r.send(&packet.Pubrec{ID: a.id})
				a.rec = true
			}
			if !a.rel {
				// wait for the PUBREL (or the end of the connection)
				id := a.id
				if r.p.WaitFor(r.scanned, func(g packet.Generic) bool { x, ok := g.(*packet.Pubrel); return ok && x.ID == id }, ev.Ceiling()) < 0 {
					if v := r.absorb(); v != nil {
						return v
					}
					if r.p.EOF || r.bconn.Closed() {
						return r.lost()
					}
					return r.fail("qos2/no-pubrel", "PUBREC id=%d was not answered by PUBREL on a live connection", a.id)
				}
				if v := r.absorb(); v != nil {
					return v
				}
			}
			if act == "full" {
				if v := r.probe(a.id, "Pubrel", "before PUBCOMP"); v != nil {
					return v
				}
				r.send(&packet.Pubcomp{ID: a.id})
				delete(r.recSet, a.id)
				a.done = true
			}
		}
	}
	var keep []*arrival
	for _, a := range r.pending {
		if !a.done {
			keep = append(keep, a)
		}
	}
	r.pending = keep
	if v := r.ping(); v != nil {
		return v
	}
	return r.settle()
}

// connect (re)connects the subscriber and judges CONNACK and the resend burst.
func (r *runner) connect(clean bool) *verdict {
	for attempt := 0; attempt < 10; attempt++ {
		remaining := int64(0)
		if r.setupDone && r.c.FailAt > 0 && !r.faultHit && r.c.FailAt > r.consumed {
			remaining = r.c.FailAt - r.consumed
		}
		before := r.view()
		storedBefore := r.stored
		mark := int64(0)
		if evs := r.b.Log.Events(); len(evs) > 0 {
			mark = evs[len(evs)-1].Seq
		}
		r.p, r.bconn = r.b.DialPlan("sub", remaining, r.c.After, func(bc *memconn.Conn) {
			bc.OnSend = func(c *memconn.Conn, pkt packet.Generic) {
				pub, ok := pkt.(*packet.Publish)
				if !ok || pub.Message.QOS == 0 {
					return
				}
				cl := r.b.Rec.ClientOf(c)
				stored := false
				if cl != nil && cl.Session() != nil {
					g, _ := cl.Session().LookupPacket(session.Outgoing, pub.ID)
					stored = g != nil
				}
				r.b.Log.Add(memconn.Event{Actor: "probe", Op: "publish-recorded", ID: uint16(pub.ID), Note: fmt.Sprintf("stored=%v", stored)})
			}
		})
		r.p.AutoAck = false
		r.scanned, r.pending = 0, nil
		cp := packet.NewConnect()
		cp.ClientID, cp.CleanSession = "sub", clean
		ack, err := r.p.Connect(cp)
		r.online = true
		if err != nil {
			// the attempt failed: the broker side may still be inside CONNECT
			// processing (Setup); wait until it is over before reading the history
			r.b.WaitClosed(r.bconn)
		}
		// did the backend set the session up (whether or not the CONNACK got through)?
		if r.setupSince(mark) {
			r.cleanConn = clean
			if clean {
				r.forgive()
			} else if !r.stored {
				r.stored, r.subscribed = true, false
			}
		}
		retry := func() *verdict {
			if v := r.lost(); v != nil {
				return v
			}
			r.resumes++
			return nil
		}
		if err != nil {
			if r.p.EOF || r.bconn.Closed() {
				if v := retry(); v != nil {
					return v
				}
				continue
			}
			return r.fail("connect/no-connack", "%v", err)
		}
		wantPresent := !clean && storedBefore
		if ack.ReturnCode != 0 || ack.SessionPresent != wantPresent {
			return r.fail("connack/session-present", "CONNACK code=%d session-present=%v; clean=%v, stored session existed=%v", ack.ReturnCode, ack.SessionPresent, clean, storedBefore)
		}
		r.scanned = len(r.p.Inbox)
		if clean || !storedBefore {
			// nothing may be retransmitted into a fresh session: a ping round trip brings only the PINGRESP
			if v := r.ping(); v != nil {
				return v
			}
			if !r.online {
				r.resumes++
				continue
			}
		} else {
			// resumed: the first len(inflight) packets are the retransmission burst
			need := len(before.inflight)
			if need > 0 {
				r.resumes++
			}
			got := map[uint16]bool{}
			for k := 0; k < need; k++ {
				idx := r.scanned + k
				if r.p.WaitFor(idx, func(packet.Generic) bool { return true }, ev.Ceiling()) < 0 {
					if r.p.EOF || r.bconn.Closed() {
						break // failure during the resend phase: judged again after the next resume
					}
					return r.fail("resume/missing-retransmission", "after the unclean reconnect %d unacknowledged packets must be retransmitted, only %d arrived", need, k)
				}
				switch g := r.p.Inbox[idx].(type) {
				case *packet.Publish:
					tag, ok := before.inflight[uint16(g.ID)]
					switch {
					case !ok || got[uint16(g.ID)]:
						if !g.Dup {
							return r.fail("resume/missing-retransmission", "a new delivery (%s id=%d) arrived before all %d unacknowledged packets %v were retransmitted", g.Message.Payload, g.ID, need, before.inflight)
						}
						return r.fail("resume/unexpected-retransmission", "PUBLISH id=%d was retransmitted although it is not unacknowledged %v", g.ID, before.inflight)
					case before.gotRec[uint16(g.ID)]:
						return r.fail("resume/publish-instead-of-pubrel", "the broker had received PUBREC for id %d but retransmitted the PUBLISH instead of PUBREL", g.ID)
					case !g.Dup:
						return r.fail("resume/retransmission-without-dup", "PUBLISH id=%d (%s) was retransmitted without the DUP flag", g.ID, g.Message.Payload)
					case string(g.Message.Payload) != tag:
						return r.fail("resume/retransmission-altered", "PUBLISH id=%d was retransmitted with payload %q, original %q", g.ID, g.Message.Payload, tag)
					}
					got[uint16(g.ID)] = true
				case *packet.Pubrel:
					if _, ok := before.inflight[uint16(g.ID)]; !ok || got[uint16(g.ID)] || !before.gotRec[uint16(g.ID)] {
						return r.fail("resume/unexpected-pubrel", "PUBREL id=%d retransmitted; unacknowledged %v, PUBREC seen %v", g.ID, before.inflight, before.gotRec)
					}
					got[uint16(g.ID)] = true
				default:
					return r.fail("resume/unexpected-packet", "%s arrived inside the retransmission burst", g.Type())
				}
			}
		}
		if !r.subscribed {
			if _, err := r.p.Subscribe([]packet.Subscription{{Topic: "c08/#", QOS: 2}}); err != nil {
				if r.p.EOF || r.bconn.Closed() {
					if v := retry(); v != nil {
						return v
					}
					continue
				}
				return r.fail("subscribe/no-suback", "%v", err)
			}
			r.subscribed = true
		}
		if !r.setupDone {
			r.setupDone = true
			r.base = r.bconn.Ops()
			if r.c.FailAt > 0 {
				r.bconn.SetFail(r.c.FailAt, r.c.After)
			}
		}
		return r.settle()
	}
	return r.fail("harness/reconnect-loop", "could not re-establish the subscriber connection")
}

// setupSince: did Backend.Setup succeed for "sub" after log position mark?
func (r *runner) setupSince(mark int64) bool {
	for _, e := range r.b.Log.Events() {
		if e.Seq > mark && e.Actor == "backend" && e.Op == "Setup-return" && strings.HasPrefix(e.Note, "sub ") && strings.Contains(e.Note, "err=<nil>") {
			return true
		}
	}
	return false
}

// forgive: a clean connect discards all stored state.
func (r *runner) forgive() {
	for _, m := range r.msgs {
		m.forgiven = true
	}
	r.recSet = map[packet.ID]string{}
	evs := r.b.Log.Events()
	if len(evs) > 0 {
		r.epoch = evs[len(evs)-1].Seq
	}
	r.stored, r.subscribed = false, false
}

func (r *runner) publish(qos int) *verdict {
	m := &message{tag: fmt.Sprintf("m%d-q%d", len(r.msgs)+1, qos), qos: qos}
	if err := r.pub.Publish("c08/m", []byte(m.tag), packet.QOS(qos), false); err != nil {
		return r.fail("publish/handshake-incomplete", "%v", err)
	}
	r.msgs = append(r.msgs, m)
	r.byTag[m.tag] = m
	if !r.subscribed {
		m.forgiven = true // no subscription: not owed to anybody
	}
	return nil
}

type result struct {
	ops        int64
	nontrivial bool
}

func runCase(c *Case) (*verdict, result) {
	b := bk.New(func(m *broker.MemoryBackend, e *broker.Engine) { m.ClientInflightMessages = c.Window })
	defer b.Shutdown()
	r := &runner{c: c, b: b, byTag: map[string]*message{}, recSet: map[packet.ID]string{}, app: map[string]int{}, seen: map[string]bool{}}
	r.pub, _ = b.Dial("pub")
	if _, err := r.pub.ConnectID("pub", true); err != nil {
		return r.fail("harness/publisher-connect", "%v", err), result{}
	}
	if v := r.connect(false); v != nil {
		return v, result{}
	}
	for _, rd := range c.Rounds {
		for _, q := range rd.Pub {
			if len(r.msgs) >= 60 {
				break
			}
			if v := r.publish(q); v != nil {
				return v, result{}
			}
			if v := r.settle(); v != nil {
				return v, result{}
			}
		}
		if v := r.act(rd.Acts); v != nil {
			return v, result{}
		}
		switch rd.End {
		case "drop", "disconnect":
			if r.online {
				if rd.End == "disconnect" {
					r.p.Disconnect()
					r.p.WaitEOF(ev.Ceiling())
				}
				if v := r.lost(); v != nil {
					return v, result{}
				}
			}
		case "clean", "unclean":
			if !r.online {
				if v := r.connect(rd.End == "clean"); v != nil {
					return v, result{}
				}
			}
		}
	}
	// final phase: resume and acknowledge everything until the broker owes nothing
	for guard := 0; ; guard++ {
		if guard > 40 {
			return r.fail("harness/final-loop", "final phase does not converge"), result{}
		}
		if !r.online {
			if v := r.connect(false); v != nil {
				return v, result{}
			}
			continue
		}
		if v := r.act([]string{"full"}); v != nil {
			return v, result{}
		}
		if !r.online {
			continue
		}
		vw := r.view()
		if r.queued(vw) == 0 && len(vw.inflight) == 0 && len(r.pending) == 0 {
			break
		}
	}
	for _, e := range b.Log.Events() {
		if e.Actor == "probe" && e.Op == "publish-recorded" && e.Note != "stored=true" {
			return r.fail("session/sent-before-recorded", "PUBLISH id=%d left the broker while the subscriber's session did not hold it", e.ID), result{}
		}
	}
	for _, m := range r.msgs {
		if m.forgiven {
			continue
		}
		switch {
		case r.app[m.tag] == 0:
			return r.fail("loss/accepted-message-never-delivered", "message %s (QoS %d) was accepted for the persistent subscriber but never delivered", m.tag, m.qos), result{}
		case m.qos == 2 && r.app[m.tag] != 1:
			return r.fail("qos2/delivered-more-than-once", "QoS 2 message %s reached the subscriber's application %d times", m.tag, r.app[m.tag]), result{}
		}
	}
	return nil, result{ops: r.consumed + r.bconn.Ops(), nontrivial: r.faultWhileUnacked || r.resumes > 0}
}

// runDying: messages published in the window between the loss of the
// persistent subscriber's connection and the termination of its client (the
// backend's Terminate is held to widen that window; a Backend may take any
// time there). The session queue has room, so every one of them - like those
// published before and after - must reach the subscriber after the resume.
func runDying(c *Case) *verdict {
	b := bk.New(func(m *broker.MemoryBackend, e *broker.Engine) { m.ClientInflightMessages = c.Window })
	defer b.Shutdown()
	fail := func(sig, format string, a ...interface{}) *verdict {
		return &verdict{sig, fmt.Sprintf(format, a...) + "\n--- event log ---\n" + b.Log.Dump()}
	}
	s, sconn := b.Dial("sub")
	if _, err := s.ConnectID("sub", false); err != nil {
		return fail("harness/connect", "%v", err)
	}
	if _, err := s.Subscribe([]packet.Subscription{{Topic: "c08/t", QOS: 2}}); err != nil {
		return fail("harness/subscribe", "%v", err)
	}
	p, _ := b.Dial("pub")
	if _, err := p.ConnectID("pub", true); err != nil {
		return fail("harness/connect", "%v", err)
	}
	if c.Bystander {
		by, _ := b.Dial("bystander")
		if _, err := by.ConnectID("bystander", true); err != nil {
			return fail("harness/connect", "%v", err)
		}
		if _, err := by.Subscribe([]packet.Subscription{{Topic: "c08/t", QOS: 0}}); err != nil {
			return fail("harness/subscribe", "%v", err)
		}
	}
	type m struct {
		tag string
		qos int
	}
	var all []m
	publish := func(phase string, qs []int) *verdict {
		for i, q := range qs {
			tag := fmt.Sprintf("%s-%d-q%d", phase, i, q)
			if err := p.Publish("c08/t", []byte(tag), packet.QOS(q), false); err != nil {
				return fail("harness/publish", "%s: %v", tag, err)
			}
			all = append(all, m{tag, q})
		}
		return nil
	}
	s.AutoAck = false
	if v := publish("before", c.Before); v != nil {
		return v
	}
	if len(c.Before) > 0 {
		// the first of them has arrived (and stays unacknowledged)
		if s.WaitFor(0, func(g packet.Generic) bool { _, ok := g.(*packet.Publish); return ok }, ev.Ceiling()) < 0 {
			return fail("delivery/missing", "the first message did not arrive on the live connection")
		}
	}
	entered, release := b.Rec.HoldTerminate("sub")
	defer release()
	s.Drop()
	select {
	case <-entered:
	case <-time.After(ev.Ceiling()):
		return fail("liveness/client-not-terminated", "the subscriber's connection was lost but Terminate was never called")
	}
	if v := publish("dying", c.Dying); v != nil {
		return v
	}
	release()
	if !b.WaitClosed(sconn) {
		return fail("liveness/client-not-terminated", "the subscriber's client never finished closing")
	}
	if v := publish("offline", c.Offline); v != nil {
		return v
	}
	s2, _ := b.Dial("sub2")
	ack, err := s2.ConnectID("sub", false)
	if err != nil {
		return fail("harness/connect", "resume: %v", err)
	}
	if !ack.SessionPresent {
		return fail("connack/session-present", "the persistent session was not resumed")
	}
	// wait for the messages themselves
	got := map[string]int{}
	fresh := map[string]int{}
	qosOf := map[string]int{}
	for _, x := range all {
		qosOf[x.tag] = x.qos
	}
	var lowered *packet.Publish
	deadline := time.Now().Add(ev.Ceiling())
	complete := func() bool {
		for _, x := range all {
			if got[x.tag] == 0 {
				return false
			}
		}
		return true
	}
	scanned := 0
	for !complete() && time.Now().Before(deadline) && !s2.EOF {
		s2.PumpWait(5 * time.Millisecond)
		for ; scanned < len(s2.Inbox); scanned++ {
			if pub, ok := s2.Inbox[scanned].(*packet.Publish); ok {
				got[string(pub.Message.Payload)]++
				if !pub.Dup {
					fresh[string(pub.Message.Payload)]++
				}
				if q, ok := qosOf[string(pub.Message.Payload)]; ok && int(pub.Message.QOS) != q && lowered == nil {
					lowered = pub
				}
			}
		}
	}
	if lowered != nil {
		return fail("delivery/qos-lowered", "message %s was published at QoS %d for a subscription granted QoS 2, but reached the persistent subscriber at QoS %d (nothing recorded, nothing to retransmit)", lowered.Message.Payload, qosOf[string(lowered.Message.Payload)], lowered.Message.QOS)
	}
	for _, x := range all {
		if got[x.tag] == 0 {
			phase := strings.SplitN(x.tag, "-", 2)[0]
			sig := "resume/message-lost:" + phase
			return fail(sig, "QoS %d message %s was acknowledged to its publisher (%s: %s) but never reached the persistent subscriber after the resume, although its queue had room (%d messages in all)", x.qos, x.tag, phase, map[string]string{"before": "published on the live connection, left unacknowledged", "dying": "published after the connection was lost and before the client was terminated", "offline": "published while the subscriber was offline"}[phase], len(all))
		}
		if x.qos == 2 && fresh[x.tag] > 1 {
			return fail("qos2/offered-twice-as-new", "QoS 2 message %s was offered %d times as a new (non-duplicate) delivery", x.tag, fresh[x.tag])
		}
	}
	return nil
}

func genCase(rt *rapid.T) *Case {
	c := &Case{Window: rapid.IntRange(1, 4).Draw(rt, "window")}
	n := rapid.IntRange(1, 5).Draw(rt, "rounds")
	budget := c.Window + 2
	for i := 0; i < n; i++ {
		rd := Round{}
		for k := rapid.IntRange(0, 3).Draw(rt, "npub"); k > 0 && budget > 0; k-- {
			rd.Pub = append(rd.Pub, rapid.SampledFrom([]int{1, 2, 2}).Draw(rt, "qos"))
			budget--
		}
		for k := rapid.IntRange(0, 3).Draw(rt, "nacts"); k > 0; k-- {
			rd.Acts = append(rd.Acts, rapid.SampledFrom([]string{"full", "half", "none", "none"}).Draw(rt, "act"))
		}
		rd.End = rapid.SampledFrom([]string{"", "", "drop", "disconnect", "unclean", "unclean", "clean"}).Draw(rt, "end")
		c.Rounds = append(c.Rounds, rd)
	}
	return c
}

func TestC08(t *testing.T) {
	run := ev.Start("C08", "fault_enumeration")
	run.Rule("subscriber scripts of 1-5 rounds over {publish 0-3 QoS 1/2 messages (online, window-blocked or offline), per-delivery action full/half/withhold, drop / DISCONNECT / reconnect clean / reconnect unclean}, window 1-4, at most window+2 messages in flight; every script is run fault free and then once per (operation k, before/after) for EVERY packet on the subscriber's broker-side connection(s), including positions inside the resend phase. Oracle: correct-receiver model + event history (session holds the packet when it is sent and until it is acknowledged, unacknowledged packets retransmitted with DUP / as PUBREL after an unclean reconnect, QoS 2 never re-offered without DUP, nothing accepted is lost, session-present truthful, clean connect discards everything). non-trivial = the connection was lost while a delivery was unacknowledged, or a resume retransmitted something; distinct by (script, fault) Dying window: 0-3 messages published on the live connection (left unacknowledged), 1-6 QoS 1/2 messages published after the subscriber's connection was lost and before its client was terminated (the backend's Terminate is held to widen that window), 0-3 while it is offline, optionally with a clean QoS 0 bystander subscribed to the same topic; after the resume every message arrives, at its QoS, a QoS 2 message never twice as new.")
	run.Assume("scripts: messages are only published while the subscriber's connection state is settled (alive and quiescent, or fully terminated); the window in between is the subject of the dying-window runs (queue never full there: a full queue of a client that is going offline is skipped by documented design)")
	defer run.Finish(t)

	faultRuns := 0
	exec := func(c *Case, report func(v *verdict, c *Case)) bool {
		run.Eval(1)
		v, res := runCase(c)
		if res.nontrivial {
			run.NonTrivialJSON(c)
		}
		if v != nil {
			report(v, c)
			return false
		}
		for k := int64(1); k <= res.ops; k++ {
			for _, after := range []bool{false, true} {
				fc := &Case{Window: c.Window, Rounds: c.Rounds, FailAt: k, After: after}
				faultRuns++
				run.Eval(1)
				fv, fres := runCase(fc)
				if fres.nontrivial {
					run.NonTrivialJSON(fc)
				}
				if fv != nil {
					report(fv, fc)
					return false
				}
			}
		}
		return true
	}
	fixed := []*Case{
		{Window: 2, Rounds: []Round{{Pub: []int{1, 2, 2, 1}, Acts: []string{"half", "none"}, End: "drop"}, {Pub: []int{2}, End: "unclean"}}},
		{Window: 1, Rounds: []Round{{Pub: []int{2, 1}, Acts: []string{"half"}}, {Acts: []string{"full"}, End: "disconnect"}, {Pub: []int{1, 2}, End: "unclean"}}},
		{Window: 3, Rounds: []Round{{Pub: []int{1, 1, 2}, Acts: []string{"none"}, End: "drop"}, {Pub: []int{2, 1}, End: "clean"}, {Pub: []int{2}, Acts: []string{"half"}, End: "drop"}}},
	}
	shard, _ := ev.Shard()
	if shard == 0 {
		for _, c := range fixed {
			exec(c, func(v *verdict, fc *Case) { run.Violation(v.sig, v.msg, fc) })
		}
	}
	run.Rapid(t, "scripts", ev.Pick(60, 6000), func(rt *rapid.T) {
		c := genCase(rt)
		run.Class(fmt.Sprintf("window=%d", c.Window))
		exec(c, func(v *verdict, fc *Case) {
			run.Candidate(v.sig, v.msg, fc)
			rt.Fatalf("%s: %s", v.sig, v.msg)
		})
	})
	run.Set("fault_positions_enumerated", faultRuns)

	// messages published while the subscriber's client is dying
	qs := rapid.SliceOfN(rapid.SampledFrom([]int{1, 2}), 0, 3)
	run.Rapid(t, "dying-window", ev.Pick(120, 4000), func(rt *rapid.T) {
		c := &Case{Window: rapid.IntRange(1, 4).Draw(rt, "window"), Before: qs.Draw(rt, "before"), Offline: qs.Draw(rt, "offline")}
		c.Dying = rapid.SliceOfN(rapid.SampledFrom([]int{1, 2}), 1, 6).Draw(rt, "dying")
		c.Bystander = rapid.Bool().Draw(rt, "bystander")
		run.Eval(1)
		run.Class("dying-window")
		run.NonTrivialJSON(c)
		if v := runDying(c); v != nil {
			run.Candidate(v.sig, v.msg, c)
			rt.Fatalf("%s: %s", v.sig, v.msg)
		}
	})
}

func TestReplay(t *testing.T) {
	var c Case
	ok, err := ev.ReplayCase(&c)
	if !ok {
		t.Skip("no VERIF_REPLAY")
	}
	if err != nil {
		t.Fatal(err)
	}
	for i := 0; i < 5; i++ {
		if len(c.Dying) > 0 {
			if v := runDying(&c); v != nil {
				t.Fatalf("VIOLATION reproduced: %s: %s", v.sig, v.msg)
			}
			continue
		}
		if v, _ := runCase(&c); v != nil {
			t.Fatalf("VIOLATION reproduced: %s: %s", v.sig, v.msg)
		}
	}
	t.Log("case passes")
}
