// C19 — concurrent sends stay whole; close loses nothing; nothing hangs afterwards.
package c19

import (
	"encoding/json"
	"fmt"
	"io"
	"net"
	"os"
	"strings"
	"sync"
	"sync/atomic"
	"testing"
	"time"

	"github.com/256dpi/gomqtt/packet"
	"github.com/256dpi/gomqtt/transport"
	"github.com/gorilla/websocket"
	"pgregory.net/rapid"

	"verif/internal/carrier"
	"verif/internal/ev"
)

// Case is one connection scenario.
//
//	Kind:    flow | afterclose | timeout | unblock | stall
//	Carrier: mem | pipe | tcp | ws
type Case struct {
	Kind      string `json:"kind"`
	Carrier   string `json:"carrier"`
	Senders   int    `json:"senders,omitempty"`
	PerSender int    `json:"per_sender,omitempty"`
	Sizes     []int  `json:"sizes,omitempty"`  // payload sizes (cyclic)
	Asyncs    []bool `json:"asyncs,omitempty"` // async flags (cyclic)
	DelayMs   int    `json:"delay_ms,omitempty"`
	CloseAt   int    `json:"close_at,omitempty"`  // flow: Close is called by another goroutine after this many sends returned (0 = after all)
	FailSide  string `json:"fail_side,omitempty"` // mem carrier: sender | receiver
	FailAt    int64  `json:"fail_at,omitempty"`   // k-th carrier operation on that side fails
	Plan      []int  `json:"plan,omitempty"`      // mem carrier: read chunk plan on the receiver
}

type verdict struct{ sig, msg string }

func vf(sig, format string, a ...interface{}) *verdict {
	return &verdict{sig, fmt.Sprintf(format, a...)}
}

type conn interface {
	Send(packet.Generic, bool) error
	Receive() (packet.Generic, error)
	Close() error
	SetReadTimeout(time.Duration)
	SetReadLimit(int64)
	SetMaxWriteDelay(time.Duration)
}

// pipeCarrier gives net.Pipe the deadline semantics of a socket (see C03).
type pipeCarrier struct{ net.Conn }

func (p pipeCarrier) SetReadDeadline(t time.Time) error {
	if err := p.Conn.SetReadDeadline(t); err != nil && err != io.ErrClosedPipe {
		return err
	}
	return nil
}

type link struct {
	s, r   conn
	sc, rc *carrier.End // mem carrier ends (nil otherwise)
	done   func()
}

func pair(kind string, plan []int) (*link, error) {
	switch kind {
	case "mem":
		a, b := carrier.Pipe("S", "R")
		b.Plan = plan
		return &link{s: transport.NewBaseConn(a), r: transport.NewBaseConn(b), sc: a, rc: b, done: func() { a.Close(); b.Close() }}, nil
	case "pipe":
		a, b := net.Pipe()
		return &link{s: transport.NewBaseConn(pipeCarrier{a}), r: transport.NewBaseConn(pipeCarrier{b}), done: func() { go func() { b.Close(); a.Close() }() }}, nil
	case "tcp":
		ln, err := net.Listen("tcp", "127.0.0.1:0")
		if err != nil {
			return nil, err
		}
		defer ln.Close()
		ch := make(chan net.Conn, 1)
		go func() { c, _ := net.Dial("tcp", ln.Addr().String()); ch <- c }()
		b, err := ln.Accept()
		a := <-ch
		if err != nil || a == nil {
			return nil, fmt.Errorf("tcp pair: %v", err)
		}
		// (the peer's socket first and never on the caller's goroutine: closing a
		// connection whose Send is stuck waits for that Send)
		return &link{s: transport.NewNetConn(a), r: transport.NewNetConn(b), done: func() { go func() { b.Close(); a.Close() }() }}, nil
	case "ws":
		ln, err := net.Listen("tcp", "127.0.0.1:0")
		if err != nil {
			return nil, err
		}
		srv := transport.NewWebSocketServer(ln, nil)
		type res struct {
			c   *websocket.Conn
			err error
		}
		ch := make(chan res, 1)
		go func() {
			c, _, err := websocket.DefaultDialer.Dial("ws://"+ln.Addr().String()+"/", nil)
			ch <- res{c, err}
		}()
		b, err := srv.Accept()
		x := <-ch
		if err != nil || x.err != nil {
			_ = srv.Close()
			return nil, fmt.Errorf("ws pair: %v %v", err, x.err)
		}
		a := transport.NewWebSocketConn(x.c)
		raw := x.c.UnderlyingConn()
		return &link{s: a, r: b, done: func() { go func() { b.Close(); raw.Close(); a.Close(); srv.Close() }() }}, nil
	}
	return nil, fmt.Errorf("unknown carrier %q", kind)
}

func payload(sender, seq, size int) []byte {
	head := fmt.Sprintf("s%d-%d-%d|", sender, seq, size)
	if size < len(head) {
		size = len(head)
	}
	b := make([]byte, size)
	copy(b, head)
	for i := len(head); i < size; i++ {
		b[i] = byte(i*31 + sender*7 + seq*13)
	}
	return b
}

func check(b []byte) (sender, seq int, ok bool) {
	var size int
	if n, _ := fmt.Sscanf(string(b[:min(len(b), 40)]), "s%d-%d-%d|", &sender, &seq, &size); n != 3 {
		return 0, 0, false
	}
	want := payload(sender, seq, size)
	if len(want) != len(b) {
		return sender, seq, false
	}
	for i := range b {
		if b[i] != want[i] {
			return sender, seq, false
		}
	}
	return sender, seq, true
}

func min(a, b int) int {
	if a < b {
		return a
	}
	return b
}

// bounded runs f and reports whether it returned within the ceiling.
func bounded(f func()) bool {
	done := make(chan struct{})
	go func() { f(); close(done) }()
	select {
	case <-done:
		return true
	case <-time.After(ev.Ceiling()):
		return false
	}
}

func guard(name string, f func()) (v *verdict) {
	defer func() {
		if p := recover(); p != nil {
			v = vf("panic/"+name, "%s panicked: %v", name, p)
		}
	}()
	f()
	return nil
}

// try runs f under a panic guard and the ceiling; hang is reported with sig.
func try(name, hangSig, hangMsg string, f func() *verdict) (v *verdict) {
	done := make(chan *verdict, 1)
	go func() {
		defer func() {
			if p := recover(); p != nil {
				done <- vf("panic/"+name, "%s panicked: %v", name, p)
			}
		}()
		done <- f()
	}()
	select {
	case v := <-done:
		return v
	case <-time.After(ev.Ceiling()):
		return vf(hangSig, "%s", hangMsg)
	}
}

// waitProgress waits for done; it gives up (false) only when progress() has not
// changed for a whole ceiling: a transfer that is slow (one-byte carrier chunks,
// loaded machine) is not a hang as long as it moves.
func waitProgress(done <-chan struct{}, progress func() int64) bool {
	last, since := progress(), time.Now()
	tick := time.NewTicker(20 * time.Millisecond)
	defer tick.Stop()
	for {
		select {
		case <-done:
			return true
		case <-tick.C:
			if p := progress(); p != last {
				last, since = p, time.Now()
			} else if time.Since(since) > ev.Ceiling() {
				return false
			}
		}
	}
}

// operation counts of the last flow run on the in-memory carrier (for the fault enumeration)
var lastSenderOps, lastReceiverOps int64

// ---- flow: concurrent senders, optional Close from another goroutine, optional carrier fault

func runFlow(c *Case) *verdict {
	l, err := pair(c.Carrier, c.Plan)
	if err != nil {
		return vf("harness/pair", "%v", err)
	}
	defer l.done()
	l.s.SetMaxWriteDelay(time.Duration(c.DelayMs) * time.Millisecond)
	if c.FailAt > 0 && l.sc != nil {
		if c.FailSide == "receiver" {
			l.rc.FailAt(c.FailAt)
		} else {
			l.sc.FailAt(c.FailAt)
		}
	}
	faulty := c.FailAt > 0
	type sent struct{ sender, seq, order int }
	var mu sync.Mutex
	var okSends []sent
	var order int64
	closeOrder := int64(-1)
	var wg sync.WaitGroup
	total := c.Senders * c.PerSender
	closeAt := c.CloseAt
	var closed int32
	closer := func() {
		atomic.StoreInt64(&closeOrder, atomic.LoadInt64(&order))
		atomic.StoreInt32(&closed, 1)
		_ = l.s.Close()
	}
	var once sync.Once
	for k := 0; k < c.Senders; k++ {
		k := k
		wg.Add(1)
		go func() {
			defer wg.Done()
			for i := 0; i < c.PerSender; i++ {
				idx := k*c.PerSender + i
				size := c.Sizes[idx%len(c.Sizes)]
				async := c.Asyncs[idx%len(c.Asyncs)]
				p := packet.NewPublish()
				p.Message.Topic = "c19"
				p.Message.Payload = payload(k, i, size)
				if err := l.s.Send(p, async); err != nil {
					return // after a close or failure every further send fails too (checked below)
				}
				o := atomic.AddInt64(&order, 1)
				mu.Lock()
				okSends = append(okSends, sent{k, i, int(o)})
				mu.Unlock()
				if closeAt > 0 && int(o) == closeAt {
					once.Do(func() { go closer() })
				}
			}
		}()
	}
	// receiver
	type got struct{ sender, seq int }
	var received []got
	var recvN int64
	var recvErr error
	var rv *verdict
	rdone := make(chan struct{})
	go func() {
		defer close(rdone)
		last := map[int]int{}
		for {
			g, err := l.r.Receive()
			if err != nil {
				recvErr = err
				return
			}
			p, ok := g.(*packet.Publish)
			if !ok {
				rv = vf("flow/foreign-packet", "receiver decoded a %s nobody sent", g.Type())
				return
			}
			s, q, intact := check(p.Message.Payload)
			if !intact {
				rv = vf("flow/packet-corrupted", "receiver decoded a PUBLISH whose payload (%d bytes, head %.30q) is not what any sender sent", len(p.Message.Payload), p.Message.Payload)
				return
			}
			if prev, seen := last[s]; seen && q <= prev {
				rv = vf("flow/sender-order", "packet %d of sender %d arrived after its packet %d", q, s, prev)
				return
			}
			last[s] = q
			received = append(received, got{s, q})
			atomic.AddInt64(&recvN, 1)
		}
	}()
	progress := func() int64 {
		n := atomic.LoadInt64(&order) + atomic.LoadInt64(&recvN)
		if l.sc != nil {
			n += l.sc.OpCount() + l.rc.OpCount()
		}
		return n
	}
	sendersDone := make(chan struct{})
	go func() { wg.Wait(); close(sendersDone) }()
	if !waitProgress(sendersDone, progress) {
		return vf("hang/send", "a Send did not return although nothing moved for %v (carrier %s)", ev.Ceiling(), c.Carrier)
	}
	_ = total
	once.Do(closer) // (no-op when a sender has already triggered it)
	// the closer may still be running
	deadline := time.Now().Add(ev.Ceiling())
	for atomic.LoadInt32(&closed) == 0 && time.Now().Before(deadline) {
		time.Sleep(50 * time.Microsecond)
	}
	if !waitProgress(rdone, progress) {
		return vf("hang/receive", "the peer's Receive did not return after the connection was closed although nothing moved for %v", ev.Ceiling())
	}
	if l.sc != nil {
		lastSenderOps, lastReceiverOps = l.sc.OpCount(), l.rc.OpCount()
	}
	if rv != nil {
		return rv
	}
	if faulty {
		return nil // with an injected carrier failure only integrity, order and termination are judged
	}
	have := map[got]bool{}
	for _, g := range received {
		if have[g] {
			return vf("flow/duplicate", "packet %d of sender %d was received twice", g.seq, g.sender)
		}
		have[g] = true
	}
	co := atomic.LoadInt64(&closeOrder)
	mu.Lock()
	defer mu.Unlock()
	for _, s := range okSends {
		if int64(s.order) <= co && !have[got{s.sender, s.seq}] {
			return vf("close/accepted-send-lost", "Send of packet %d of sender %d returned nil (as send #%d) before Close was called (after send #%d), but the peer reached the end of the stream (%v) without receiving it; %d of %d accepted packets arrived", s.seq, s.sender, s.order, co, recvErr, len(received), len(okSends))
		}
	}
	return nil
}

// ---- afterclose: every call after Close fails promptly

func runAfterClose(c *Case) *verdict {
	l, err := pair(c.Carrier, nil)
	if err != nil {
		return vf("harness/pair", "%v", err)
	}
	defer l.done()
	delay := time.Duration(c.DelayMs) * time.Millisecond
	l.s.SetMaxWriteDelay(delay)
	pub := func(n int) packet.Generic {
		p := packet.NewPublish()
		p.Message.Topic, p.Message.Payload = "c19", payload(0, n, 40)
		return p
	}
	// who closes: the connection itself (Senders=0) or the peer (Senders=1)
	var target conn
	if c.Senders == 0 {
		if !bounded(func() { _ = l.s.Close() }) {
			return vf("hang/close", "Close did not return")
		}
		target = l.s
	} else {
		go func() { // (a synchronous carrier hands the bytes over only while the peer reads)
			_ = l.s.Send(pub(0), false)
			_ = l.s.Close()
		}()
		target = l.r
		// the peer first gets what was sent, then an error
		if !bounded(func() {
			for {
				if _, err := target.Receive(); err != nil {
					return
				}
			}
		}) {
			return vf("hang/receive", "Receive did not return after the peer closed")
		}
	}
	who := map[int]string{0: "Close", 1: "the peer"}[c.Senders]
	if v := try("Send", "hang/send", "Send on a closed connection did not return", func() *verdict {
		if err := target.Send(pub(1), false); err == nil {
			return vf("afterclose/sync-send-accepted", "a flushed Send on a connection that is closed (carrier %s, closed by %s) returned nil", c.Carrier, who)
		}
		return nil
	}); v != nil {
		return v
	}
	target.SetMaxWriteDelay(delay)
	if v := try("Send", "hang/send", "buffered Send on a closed connection did not return", func() *verdict {
		_ = target.Send(pub(2), true) // may be buffered
		time.Sleep(delay + 15*time.Millisecond)
		if err := target.Send(pub(3), true); err == nil {
			// one more flush period: the failure of the timer's flush is reported on the next call
			time.Sleep(delay + 15*time.Millisecond)
			if err2 := target.Send(pub(4), true); err2 == nil {
				return vf("afterclose/async-send-accepted", "buffered Sends on a closed connection keep returning nil after the flush delay (%v) has elapsed twice", delay)
			}
		}
		return nil
	}); v != nil {
		return v
	}
	if v := try("Receive", "hang/receive", "Receive on a closed connection did not return", func() *verdict {
		if g, err := target.Receive(); err == nil {
			return vf("afterclose/receive-succeeds", "Receive on a closed connection returned a %s", g.Type())
		}
		return nil
	}); v != nil {
		return v
	}
	return try("Close", "hang/close", "a second Close did not return", func() *verdict { _ = target.Close(); return nil })
}

// ---- senderror: a Send that fails by itself (a packet that cannot be encoded) ends the connection
//
// Senders: 0 = flushed, 1 = buffered send of the bad packet.
func runSendError(c *Case) *verdict {
	l, err := pair(c.Carrier, nil)
	if err != nil {
		return vf("harness/pair", "%v", err)
	}
	defer l.done()
	delay := time.Duration(c.DelayMs) * time.Millisecond
	l.s.SetMaxWriteDelay(delay)
	pub := func(n int) packet.Generic {
		p := packet.NewPublish()
		p.Message.Topic, p.Message.Payload = "c19", payload(0, n, 40)
		return p
	}
	// a pending Receive on the failing side, and the peer reading
	pending := make(chan error, 1)
	go func() { _, err := l.s.Receive(); pending <- err }()
	peerGot := make(chan packet.Generic, 8)
	peerEnd := make(chan struct{})
	go func() {
		defer close(peerEnd)
		for {
			g, err := l.r.Receive()
			if err != nil {
				return
			}
			peerGot <- g
		}
	}()
	if err := l.s.Send(pub(0), false); err != nil {
		return vf("harness/senderror", "first send failed: %v", err)
	}
	bad := packet.NewConnack()
	bad.ReturnCode = 11 // not encodable
	how := map[int]string{0: "flushed", 1: "buffered"}[c.Senders]
	if v := try("Send", "hang/send", "Send of an unencodable packet did not return", func() *verdict {
		if err := l.s.Send(bad, c.Senders == 1); err == nil {
			return vf("senderror/accepted", "a %s Send of a CONNACK with return code 11 returned nil", how)
		}
		return nil
	}); v != nil {
		return v
	}
	if v := try("Send", "hang/send", "Send after a send error did not return", func() *verdict {
		if err := l.s.Send(pub(1), false); err == nil {
			return vf("senderror/later-send-accepted", "after a %s Send had failed (unencodable packet) a flushed Send on the same connection (%s) returned nil", how, c.Carrier)
		}
		return nil
	}); v != nil {
		return v
	}
	select {
	case err := <-pending:
		if err == nil {
			return vf("senderror/receive-succeeds", "the pending Receive returned a packet nobody sent")
		}
	case <-time.After(ev.Ceiling()):
		return vf("hang/receive", "a %s Send failed (unencodable packet) but the pending Receive on that connection (%s) was not released", how, c.Carrier)
	}
	select {
	case <-peerEnd:
	case <-time.After(ev.Ceiling()):
		return vf("senderror/peer-not-notified", "a %s Send failed (unencodable packet): the peer (%s) still waits for data, the connection was not ended", how, c.Carrier)
	}
	close(peerGot)
	n := 0
	for g := range peerGot {
		n++
		if g.Type() != packet.PUBLISH {
			return vf("flow/foreign-packet", "the peer received a %s", g.Type())
		}
	}
	if n != 1 {
		return vf("senderror/delivery", "the peer received %d packets; exactly the one sent before the failure was expected", n)
	}
	return try("Close", "hang/close", "Close after a send error did not return", func() *verdict { _ = l.s.Close(); return nil })
}

// ---- timeout: an expired read timeout ends Receive and the connection

func runTimeout(c *Case) *verdict {
	l, err := pair(c.Carrier, nil)
	if err != nil {
		return vf("harness/pair", "%v", err)
	}
	defer l.done()
	l.r.SetReadTimeout(20 * time.Millisecond * ev.Slow())
	var rerr error
	start := time.Now()
	if !bounded(func() { _, rerr = l.r.Receive() }) {
		return vf("hang/receive", "Receive did not return although a read timeout of 20 ms was set and nothing arrived")
	}
	if rerr == nil {
		return vf("timeout/no-error", "Receive returned a packet although nothing was sent")
	}
	_ = start
	pub := packet.NewPublish()
	pub.Message.Topic, pub.Message.Payload = "c19", payload(0, 0, 30)
	if v := try("Send", "hang/send", "Send after an expired read timeout did not return", func() *verdict {
		if err := l.r.Send(pub, false); err == nil {
			return vf("timeout/send-accepted", "after the read timeout expired a flushed Send still returns nil")
		}
		return nil
	}); v != nil {
		return v
	}
	return try("Receive", "hang/receive", "a second Receive after an expired read timeout did not return", func() *verdict {
		if _, err := l.r.Receive(); err == nil {
			return vf("timeout/receive-succeeds", "Receive after an expired read timeout returned a packet")
		}
		return nil
	})
}

// ---- unblock: Close unblocks a pending Receive

func runUnblock(c *Case) *verdict {
	l, err := pair(c.Carrier, nil)
	if err != nil {
		return vf("harness/pair", "%v", err)
	}
	defer l.done()
	started := make(chan struct{})
	done := make(chan error, 1)
	go func() { close(started); _, err := l.r.Receive(); done <- err }()
	<-started
	time.Sleep(time.Duration(c.DelayMs) * time.Millisecond) // let it block
	if !bounded(func() { _ = l.r.Close() }) {
		return vf("hang/close", "Close did not return while a Receive was pending")
	}
	select {
	case err := <-done:
		if err == nil {
			return vf("unblock/no-error", "pending Receive returned a packet after Close")
		}
	case <-time.After(ev.Ceiling()):
		return vf("hang/receive", "a pending Receive was not unblocked by Close (carrier %s)", c.Carrier)
	}
	return nil
}

// ---- stall: a Send stuck in the carrier must not make a failing Receive hang

func runStall(c *Case) *verdict {
	a, b := carrier.Pipe("S", "R")
	_ = b
	s := transport.NewBaseConn(a)
	a.Stall()
	pub := packet.NewPublish()
	pub.Message.Topic, pub.Message.Payload = "c19", payload(0, 0, 5000)
	sendDone := make(chan error, 1)
	go func() { sendDone <- s.Send(pub, false) }()
	// wait until the send is inside the carrier
	deadline := time.Now().Add(ev.Ceiling())
	for a.OpCount() == 0 && time.Now().Before(deadline) {
		time.Sleep(50 * time.Microsecond)
	}
	recvDone := make(chan error, 1)
	switch c.Senders {
	case 0: // read timeout
		go func() { s.SetReadTimeout(10 * time.Millisecond); _, err := s.Receive(); recvDone <- err }()
	default: // garbage from the peer
		b.WriteRaw([]byte{0x00, 0x00, 0xFF, 0xFF})
		go func() { _, err := s.Receive(); recvDone <- err }()
	}
	select {
	case err := <-recvDone:
		if err == nil {
			return vf("stall/no-error", "Receive returned a packet")
		}
	case <-time.After(ev.Ceiling()):
		a.Unstall()
		return vf("hang/receive", "Receive hit a %s while a Send was stuck in the carrier (peer not reading) and never returned", map[int]string{0: "read timeout", 1: "decode error"}[c.Senders])
	}
	select {
	case <-sendDone:
	case <-time.After(ev.Ceiling()):
		a.Unstall()
		return vf("hang/send", "the connection failed in Receive, but the Send stuck in the carrier was never released")
	}
	return nil
}

// ---- stall on a real carrier: the peer accepts and never reads; sends pile up
// until one blocks in the carrier; then Receive fails (read timeout, or a packet
// above the read limit) - it has to return, release the blocked Send and leave a
// connection on which every further call fails at once.
func runStallSocket(c *Case) *verdict {
	l, err := pair(c.Carrier, nil)
	if err != nil {
		return vf("harness/pair", "%v", err)
	}
	defer l.done()
	pub := packet.NewPublish()
	pub.Message.Topic, pub.Message.Payload = "c19", payload(0, 0, 64*1024)
	var sends int64
	sendDone := make(chan error, 1)
	go func() {
		for {
			if err := l.s.Send(pub, false); err != nil {
				sendDone <- err
				return
			}
			if atomic.AddInt64(&sends, 1) > 4000 { // 256 MiB: no loopback buffer is that large
				sendDone <- nil
				return
			}
		}
	}()
	// wait until the sender is stuck: no send completed for 100 ms
	last, since, deadline := int64(-1), time.Now(), time.Now().Add(ev.Ceiling())
	for time.Now().Before(deadline) {
		if n := atomic.LoadInt64(&sends); n != last {
			last, since = n, time.Now()
		} else if time.Since(since) > 100*time.Millisecond {
			break
		}
		time.Sleep(time.Millisecond)
	}
	select {
	case err := <-sendDone:
		return vf("harness/stall", "the sender ended (%v after %d sends) although the peer never read and nothing had failed", err, atomic.LoadInt64(&sends))
	default:
	}
	how := map[int]string{0: "read timeout", 1: "packet above the read limit"}[c.Senders]
	recvDone := make(chan error, 1)
	switch c.Senders {
	case 0:
		go func() { l.s.SetReadTimeout(20 * time.Millisecond); _, err := l.s.Receive(); recvDone <- err }()
	default:
		l.s.SetReadLimit(64)
		big := packet.NewPublish()
		big.Message.Topic, big.Message.Payload = "c19", payload(1, 0, 300)
		go func() { _ = l.r.Send(big, false) }()
		go func() { _, err := l.s.Receive(); recvDone <- err }()
	}
	select {
	case err := <-recvDone:
		if err == nil {
			return vf("stall/no-error", "Receive returned a packet (%s expected)", how)
		}
	case <-time.After(ev.Ceiling()):
		return vf("hang/receive", "Receive hit a %s while a Send was stuck in the %s carrier (peer not reading, %d sends completed) and never returned", how, c.Carrier, atomic.LoadInt64(&sends))
	}
	select {
	case err := <-sendDone:
		if err == nil {
			return vf("stall/send-no-error", "the blocked Send returned nil after the connection had failed")
		}
	case <-time.After(ev.Ceiling()):
		return vf("hang/send", "the connection failed in Receive (%s), but the Send stuck in the %s carrier was never released", how, c.Carrier)
	}
	if v := try("Send", "hang/send", "Send after the failure did not return", func() *verdict {
		if err := l.s.Send(pub, false); err == nil {
			return vf("stall/send-accepted", "a flushed Send after the connection failed (%s) returned nil", how)
		}
		return nil
	}); v != nil {
		return v
	}
	if v := try("Receive", "hang/receive", "Receive after the failure did not return", func() *verdict {
		if _, err := l.s.Receive(); err == nil {
			return vf("stall/receive-succeeds", "Receive after the connection failed (%s) returned a packet", how)
		}
		return nil
	}); v != nil {
		return v
	}
	return try("Close", "hang/close", "Close after the failure did not return", func() *verdict { _ = l.s.Close(); return nil })
}

func runCase(c *Case) *verdict {
	switch c.Kind {
	case "flow":
		return runFlow(c)
	case "afterclose":
		return runAfterClose(c)
	case "timeout":
		return runTimeout(c)
	case "unblock":
		return runUnblock(c)
	case "senderror":
		return runSendError(c)
	case "stall":
		if c.Carrier != "mem" && c.Carrier != "" {
			return runStallSocket(c)
		}
		return runStall(c)
	}
	return vf("harness/kind", "unknown kind %q", c.Kind)
}

var carriers = []string{"mem", "mem", "pipe", "tcp", "ws"}

func genFlow(rt *rapid.T) *Case {
	c := &Case{Kind: "flow", Carrier: rapid.SampledFrom(carriers).Draw(rt, "carrier")}
	c.Senders = rapid.SampledFrom([]int{1, 2, 2, 3, 4, 8, 16}).Draw(rt, "senders")
	c.PerSender = rapid.IntRange(1, 12).Draw(rt, "per")
	c.Sizes = rapid.SliceOfN(rapid.SampledFrom([]int{1, 20, 100, 1000, 4000, 4090, 4100, 9000, 20000}), 1, 6).Draw(rt, "sizes")
	c.Asyncs = rapid.SliceOfN(rapid.Bool(), 1, 5).Draw(rt, "asyncs")
	c.DelayMs = rapid.SampledFrom([]int{0, 1, 5, 50}).Draw(rt, "delay")
	if rapid.Bool().Draw(rt, "early_close") {
		c.CloseAt = rapid.IntRange(1, c.Senders*c.PerSender).Draw(rt, "close_at")
	}
	if c.Carrier == "mem" {
		if rapid.Bool().Draw(rt, "planned") {
			c.Plan = rapid.SliceOfN(rapid.IntRange(1, 5000), 1, 6).Draw(rt, "plan")
			// bound the number of carrier reads (bytes / mean chunk): a few MB in
			// one- or two-byte chunks is minutes of copying and no new behaviour
			sum := 0
			for _, n := range c.Plan {
				sum += n
			}
			for c.PerSender > 1 && flowBytes(c)*len(c.Plan)/sum > 150000 {
				c.PerSender /= 2
			}
			if c.CloseAt > c.Senders*c.PerSender {
				c.CloseAt = c.Senders * c.PerSender
			}
		}
	}
	return c
}

func flowBytes(c *Case) int {
	total := 0
	for idx := 0; idx < c.Senders*c.PerSender; idx++ {
		total += c.Sizes[idx%len(c.Sizes)]
	}
	return total
}

func TestC19(t *testing.T) {
	run := ev.Start("C19", "fault_enumeration")
	run.Rule("(flow) 1-16 goroutines send numbered, self-checking PUBLISH packets (1 B - 20 KiB, generated async flags, flush delay 0/1/5/50 ms) on one BaseConn over the in-memory carrier (optional read re-chunking), a socket-like net.Pipe, TCP loopback (NetConn) and WebSocket loopback (WebSocketConn); Close is called by another goroutine after a generated number of sends or after all; on the in-memory carrier every run is repeated with the k-th carrier operation (Read/Write/Close/SetReadDeadline) failing, for EVERY k (up to the operation count of the fault-free run, at most 150 per side) on the sender side and on the receiver side. Oracle: every decoded packet is intact, per sender in order, never duplicated; every packet whose Send returned nil before Close was called is received before the end of the stream; every call returns within 10 s. (afterclose / senderror / timeout / unblock / stall) after Close, after the peer closed, after a flushed or buffered Send that failed by itself (unencodable packet), after an expired read timeout: a flushed Send fails at once, buffered Sends fail once the flush delay has elapsed, Receive fails, a second Close returns, nothing panics or blocks; Close unblocks a pending Receive; a Receive that fails (read timeout; garbage or a packet above the read limit) while a Send is stuck in the carrier because the peer stopped reading (socket buffers full on TCP / WebSocket loopback) returns, releases that Send, and every later call fails at once - on all four carriers. non-trivial = >= 2 senders with a packet above 4096 bytes, a Close while sends are in progress, or a carrier fault; distinct by case")
	run.Assume("net.Pipe is wrapped so that SetReadDeadline keeps working after the peer closed, as on a socket (BaseConn gives up a decoded packet when resetting the deadline fails)", "schedules of the concurrent senders are sampled under the race detector")
	defer run.Finish(t)
	faultRuns := 0
	exec := func(c *Case) *verdict {
		run.Eval(1)
		run.Inflight(c)
		t0 := time.Now()
		v := runCase(c)
		if d := time.Since(t0); d > 300*time.Millisecond && os.Getenv("VERIF_SLOWLOG") != "" {
			b, _ := json.Marshal(c)
			fmt.Printf("SLOW %v %s\n", d, b)
		}
		run.ClearInflight()
		run.Class("kind=" + c.Kind)
		run.Class("carrier=" + c.Carrier)
		big := false
		for _, s := range c.Sizes {
			if s > 4096 {
				big = true
			}
		}
		if (c.Senders >= 2 && big) || c.CloseAt > 0 || c.FailAt > 0 || c.Kind != "flow" {
			run.NonTrivialJSON(c)
		}
		return v
	}
	shard, _ := ev.Shard()
	if shard == 0 {
		for _, car := range []string{"mem", "pipe", "tcp", "ws"} {
			for _, who := range []int{0, 1} {
				for _, d := range []int{0, 5} {
					c := &Case{Kind: "afterclose", Carrier: car, Senders: who, DelayMs: d}
					if v := exec(c); v != nil {
						run.Violation(v.sig+":"+car, v.msg, c)
					}
				}
			}
			for _, how := range []int{0, 1} {
				for _, d := range []int{0, 5} {
					c := &Case{Kind: "senderror", Carrier: car, Senders: how, DelayMs: d}
					if v := exec(c); v != nil {
						run.Violation(v.sig+":"+car, v.msg, c)
					}
				}
			}
			for _, k := range []string{"timeout", "unblock"} {
				c := &Case{Kind: k, Carrier: car, DelayMs: 2}
				if v := exec(c); v != nil {
					run.Violation(v.sig+":"+car, v.msg, c)
				}
			}
		}
		for _, car := range []string{"mem", "pipe", "tcp", "ws"} {
			for _, how := range []int{0, 1} {
				c := &Case{Kind: "stall", Carrier: car, Senders: how}
				if v := exec(c); v != nil {
					run.Violation(v.sig+":"+car, v.msg, c)
				}
			}
		}
		run.Exhaustive("after-close / peer-closed / send-error (flushed and buffered) / read-timeout / unblock behaviour on each of the 4 carriers; stall (a Send stuck because the peer does not read) ended by a read timeout and by a decode / read-limit error, on each of the 4 carriers")
	}
	run.Rapid(t, "flow", ev.Pick(250, 12000), func(rt *rapid.T) {
		c := genFlow(rt)
		if v := exec(c); v != nil {
			run.Candidate(v.sig, v.msg, c)
			rt.Fatalf("%s: %s", v.sig, v.msg)
		}
	})
	// fault enumeration on the in-memory carrier
	run.Rapid(t, "faults", ev.Pick(25, 1500), func(rt *rapid.T) {
		c := genFlow(rt)
		c.Carrier = "mem"
		if c.Senders > 4 {
			c.Senders = 4
		}
		if c.PerSender > 5 {
			c.PerSender = 5
		}
		c.DelayMs = rapid.SampledFrom([]int{0, 1}).Draw(rt, "fdelay")
		// the operation counts of a fault free run bound the fault positions
		probe := *c
		if v := exec(&probe); v != nil {
			run.Candidate(v.sig, v.msg, &probe)
			rt.Fatalf("%s: %s", v.sig, v.msg)
		}
		limits := map[string]int64{"sender": lastSenderOps + 2, "receiver": lastReceiverOps + 2}
		for _, side := range []string{"sender", "receiver"} {
			n := limits[side]
			if n > 150 {
				n = 150 // (byte-wise re-chunking makes thousands of reads; the first 150 positions are enumerated)
			}
			for k := int64(1); k <= n; k++ {
				fc := *c
				fc.FailSide, fc.FailAt = side, k
				faultRuns++
				if v := exec(&fc); v != nil {
					run.Candidate(v.sig+":fault", v.msg, &fc)
					rt.Fatalf("%s: %s", v.sig, v.msg)
				}
			}
		}
	})
	run.Set("fault_positions_enumerated", faultRuns)
}

func TestReplay(t *testing.T) {
	var c Case
	ok, err := ev.ReplayCase(&c)
	if !ok {
		t.Skip("no VERIF_REPLAY")
	}
	if err != nil {
		t.Fatal(err)
	}
	for i := 0; i < 20; i++ {
		if v := runCase(&c); v != nil {
			t.Fatalf("VIOLATION reproduced: %s: %s", v.sig, v.msg)
		}
	}
	t.Log("case passes (20 runs)")
}

var _ = strings.Join
