// C04 — topic matching follows MQTT 4.7 in both directions, and the directions agree.
package c04

import (
	"fmt"
	"reflect"
	"sort"
	"strings"
	"testing"

	"github.com/256dpi/gomqtt/topic"
	"pgregory.net/rapid"

	"verif/internal/ev"
	"verif/internal/reftopic"
)

// Entry is one stored (topic, value) pair.
type Entry struct {
	Topic string `json:"topic"`
	Value int    `json:"value"`
}

// Case: Dir "match" = entries are filters, queries are names;
// Dir "search" = entries are names, queries are filters.
type Case struct {
	Dir     string   `json:"dir"`
	Entries []Entry  `json:"entries"`
	Queries []string `json:"queries"`
	// Transient entries are added after Entries and removed again before the
	// queries: the set that is matched against must be the one that is left
	Transient []Entry `json:"transient,omitempty"`
}

type verdict struct{ sig, msg string }

func ints(vs []interface{}) ([]int, bool) {
	out := make([]int, 0, len(vs))
	dup := false
	seen := map[int]bool{}
	for _, v := range vs {
		i := v.(int)
		if seen[i] {
			dup = true
		}
		seen[i] = true
		out = append(out, i)
	}
	sort.Ints(out)
	return out, dup
}

func feature(filter string) string {
	switch {
	case strings.Contains(filter, "+") && strings.Contains(filter, "#"):
		return "plus+hash"
	case strings.Contains(filter, "+"):
		return "plus"
	case strings.Contains(filter, "#"):
		return "hash"
	}
	return "literal"
}

func diffKind(got, want []int) string {
	ws := map[int]bool{}
	for _, w := range want {
		ws[w] = true
	}
	gs := map[int]bool{}
	for _, g := range got {
		gs[g] = true
		if !ws[g] {
			return "extra"
		}
	}
	for _, w := range want {
		if !gs[w] {
			return "missing"
		}
	}
	return "differs"
}

func runCase(c *Case) *verdict {
	tree := topic.NewStandardTree()
	model := reftopic.Model{}
	for _, e := range c.Entries {
		tree.Add(e.Topic, e.Value)
		model.Add(e.Topic, e.Value)
	}
	for _, e := range c.Transient {
		tree.Add(e.Topic, e.Value)
		model.Add(e.Topic, e.Value)
	}
	for _, e := range c.Transient {
		tree.Remove(e.Topic, e.Value)
		model.Remove(e.Topic, e.Value)
	}
	for _, q := range c.Queries {
		var got []interface{}
		var first interface{}
		var want []int
		var feat string
		if c.Dir == "match" {
			got, first, want = tree.Match(q), tree.MatchFirst(q), model.MatchName(q)
			feat = "stored-filters"
			for f := range model {
				if reftopic.Match(f, q) != contains(got, model[f]) {
					feat = feature(f)
					break
				}
			}
		} else {
			got, first, want = tree.Search(q), tree.SearchFirst(q), model.SearchFilter(q)
			feat = feature(q)
		}
		g, dup := ints(got)
		if dup {
			return &verdict{c.Dir + "/duplicate-value", fmt.Sprintf("%s(%q) returned a value twice: %v", c.Dir, q, got)}
		}
		if len(want) == 0 {
			want = []int{}
		}
		if !reflect.DeepEqual(g, want) {
			return &verdict{c.Dir + "/" + diffKind(g, want) + ":" + feat, fmt.Sprintf("%s(%q) over %v = %v, reference says %v", c.Dir, q, c.Entries, g, want)}
		}
		if len(want) == 0 {
			if first != nil {
				return &verdict{c.Dir + "-first/value-from-nothing", fmt.Sprintf("%sFirst(%q) = %v, nothing matches", c.Dir, q, first)}
			}
		} else {
			if first == nil {
				return &verdict{c.Dir + "-first/nil-despite-match", fmt.Sprintf("%sFirst(%q) = nil, reference says %v", c.Dir, q, want)}
			}
			ok := false
			for _, w := range want {
				if first.(int) == w {
					ok = true
				}
			}
			if !ok {
				return &verdict{c.Dir + "-first/non-member:" + feat, fmt.Sprintf("%sFirst(%q) = %v, not in %v", c.Dir, q, first, want)}
			}
		}
	}
	return nil
}

func contains(got []interface{}, vals []int) bool {
	for _, v := range vals {
		found := false
		for _, g := range got {
			if g.(int) == v {
				found = true
			}
		}
		if !found {
			return false
		}
	}
	return true
}

// universe of the exhaustive part
func enumerate() (names, filters []string) {
	var rec func(prefix []string, depth int, alphabet []string, out *[]string)
	rec = func(prefix []string, depth int, alphabet []string, out *[]string) {
		if len(prefix) > 0 {
			*out = append(*out, strings.Join(prefix, "/"))
		}
		if depth == 0 {
			return
		}
		for _, a := range alphabet {
			rec(append(append([]string{}, prefix...), a), depth-1, alphabet, out)
		}
	}
	var ns, fs, pre []string
	rec(nil, 4, []string{"a", "b", ""}, &ns)
	for _, n := range ns {
		if n != "" {
			names = append(names, n)
		}
	}
	rec(nil, 4, []string{"a", "b", "", "+"}, &fs)
	for _, f := range fs {
		if f != "" {
			filters = append(filters, f)
		}
	}
	rec(nil, 3, []string{"a", "b", "", "+"}, &pre)
	filters = append(filters, "#")
	for _, p := range pre {
		filters = append(filters, p+"/#")
	}
	return
}

var levelAlphabet = []string{"a", "b", "c", "", "ä", "€uro", "𝄞", "long-level-name", "A", " ", "a b", "1"}

func genName(rt *rapid.T, label string) string {
	n := rapid.IntRange(1, 12).Draw(rt, label+"_depth")
	if rapid.IntRange(0, 3).Draw(rt, label+"_shallow") > 0 {
		n = rapid.IntRange(1, 4).Draw(rt, label+"_depth2")
	}
	ls := make([]string, n)
	for i := range ls {
		ls[i] = rapid.SampledFrom(levelAlphabet[:rapid.SampledFrom([]int{3, 4, 12}).Draw(rt, label+"_alpha")]).Draw(rt, label+"_l")
	}
	s := strings.Join(ls, "/")
	if s == "" {
		s = "a"
	}
	return s
}

func genFilter(rt *rapid.T, label string) string {
	s := genName(rt, label)
	ls := strings.Split(s, "/")
	for i := range ls {
		if rapid.IntRange(0, 3).Draw(rt, label+"_plus") == 0 {
			ls[i] = "+"
		}
	}
	switch rapid.IntRange(0, 4).Draw(rt, label+"_hash") {
	case 0:
		ls[len(ls)-1] = "#"
	case 1:
		ls = append(ls, "#")
	}
	return strings.Join(ls, "/")
}

func TestC04(t *testing.T) {
	run := ev.Start("C04", "exploration")
	run.Rule("exhaustive: every (filter, name) pair over levels {a,b,empty} plus '+' and a trailing '#' up to depth 4 (424 filters x 119 names) as singleton trees in both directions, and (thorough) all filter pairs x names / name pairs x filters for interference; random: rapid-generated sets of 1-30 entries sharing values, depth up to 12, multi-byte UTF-8 levels, plus 0-3 transient entries (a child, the parent, the same topic with another value, or a random one) that are added and removed again before the queries. Oracle: independent MQTT 4.7 matcher. non-trivial = the filter has a wildcard or an empty level; distinct by (direction, filter, name) resp. by case JSON")
	run.Assume("names are free of wildcards and U+0000 and do not start with '$'; filters are syntactically valid; values are comparable and non-nil")
	defer run.Finish(t)
	shard, shards := ev.Shard()
	names, filters := enumerate()
	run.Set("exhaustive_names", len(names))
	run.Set("exhaustive_filters", len(filters))

	check := func(c *Case) bool {
		run.Eval(1)
		if v := runCase(c); v != nil {
			run.Violation(v.sig, v.msg, c)
			return false
		}
		return true
	}
	nt := func(dir, f, n string) {
		if strings.ContainsAny(f, "+#") || strings.HasPrefix(f, "/") || strings.HasSuffix(f, "/") || strings.Contains(f, "//") {
			run.NonTrivial(ev.Hash(dir, f, n), func() interface{} {
				return map[string]interface{}{"dir": dir, "filter": f, "name": n, "reference_match": reftopic.Match(f, n)}
			})
		}
	}

	// singleton trees, both directions, plus agreement
	for i, f := range filters {
		if i%shards != shard {
			continue
		}
		mt := topic.NewStandardTree()
		mt.Add(f, 1)
		for _, n := range names {
			run.Eval(2)
			want := reftopic.Match(f, n)
			gm := len(mt.Match(n)) == 1
			st := topic.NewStandardTree()
			st.Add(n, 1)
			gs := len(st.Search(f)) == 1
			nt("pair", f, n)
			if want {
				run.Class("pair:match")
			} else {
				run.Class("pair:no-match")
			}
			if gm != want {
				c := &Case{Dir: "match", Entries: []Entry{{f, 1}}, Queries: []string{n}}
				v := runCase(c)
				if v == nil {
					v = &verdict{"match/singleton", "singleton mismatch"}
				}
				run.Violation(v.sig, v.msg, c)
			}
			if gs != want {
				c := &Case{Dir: "search", Entries: []Entry{{n, 1}}, Queries: []string{f}}
				v := runCase(c)
				if v == nil {
					v = &verdict{"search/singleton", "singleton mismatch"}
				}
				run.Violation(v.sig, v.msg, c)
			}
			if gm != gs {
				run.Violation("directions-disagree:"+feature(f), fmt.Sprintf("filter %q vs name %q: Match says %v, Search says %v", f, n, gm, gs),
					&Case{Dir: "match", Entries: []Entry{{f, 1}}, Queries: []string{n}})
			}
		}
	}
	run.Exhaustive(fmt.Sprintf("all %d x %d (filter,name) pairs over {a,b,empty,+,#} depth<=4, singleton trees, Match and Search", len(filters), len(names)))

	// whole-universe trees: all filters stored with distinct values, every name queried; and vice versa
	if shard == 0 {
		c := &Case{Dir: "match", Queries: names}
		for i, f := range filters {
			c.Entries = append(c.Entries, Entry{f, i})
		}
		check(c)
		c = &Case{Dir: "search", Queries: filters}
		for i, n := range names {
			c.Entries = append(c.Entries, Entry{n, i})
		}
		check(c)
		run.Class("whole-universe-tree")
	}

	if ev.Thorough() {
		// interference: all filter pairs x names (Match), all name pairs x filters (Search)
		for i, f1 := range filters {
			if i%shards != shard {
				continue
			}
			for _, f2 := range filters[i+1:] {
				tr := topic.NewStandardTree()
				tr.Add(f1, 1)
				tr.Add(f2, 2)
				for _, n := range names {
					run.Eval(1)
					w := 0
					if reftopic.Match(f1, n) {
						w |= 1
					}
					if reftopic.Match(f2, n) {
						w |= 2
					}
					g := 0
					for _, v := range tr.Match(n) {
						g |= v.(int)
					}
					if g != w {
						c := &Case{Dir: "match", Entries: []Entry{{f1, 1}, {f2, 2}}, Queries: []string{n}}
						if v := runCase(c); v != nil {
							run.Violation(v.sig, v.msg, c)
						}
					}
				}
			}
		}
		run.Exhaustive("all filter pairs x names (Match)")
		for i, n1 := range names {
			if i%shards != shard {
				continue
			}
			for _, n2 := range names[i+1:] {
				tr := topic.NewStandardTree()
				tr.Add(n1, 1)
				tr.Add(n2, 2)
				for _, f := range filters {
					run.Eval(1)
					w := 0
					if reftopic.Match(f, n1) {
						w |= 1
					}
					if reftopic.Match(f, n2) {
						w |= 2
					}
					g := 0
					for _, v := range tr.Search(f) {
						g |= v.(int)
					}
					if g != w {
						c := &Case{Dir: "search", Entries: []Entry{{n1, 1}, {n2, 2}}, Queries: []string{f}}
						if v := runCase(c); v != nil {
							run.Violation(v.sig, v.msg, c)
						}
					}
				}
			}
		}
		run.Exhaustive("all name pairs x filters (Search)")
	}

	// random sets
	run.Rapid(t, "random-sets", ev.Pick(2000, 200000), func(rt *rapid.T) {
		c := &Case{Dir: rapid.SampledFrom([]string{"match", "search"}).Draw(rt, "dir")}
		n := rapid.IntRange(1, 30).Draw(rt, "n")
		for i := 0; i < n; i++ {
			var tp string
			if c.Dir == "match" {
				tp = genFilter(rt, "f")
			} else {
				tp = genName(rt, "n")
			}
			c.Entries = append(c.Entries, Entry{tp, rapid.IntRange(0, 5).Draw(rt, "v")})
		}
		// entries that come and go: below, above or beside the stored ones
		for k := rapid.IntRange(0, 3).Draw(rt, "transient"); k > 0; k-- {
			base := c.Entries[rapid.IntRange(0, len(c.Entries)-1).Draw(rt, "tbase")].Topic
			var tp string
			switch rapid.IntRange(0, 3).Draw(rt, "tshape") {
			case 0: // a child
				if strings.HasSuffix(base, "#") {
					tp = base
				} else {
					tp = base + "/" + rapid.SampledFrom(levelAlphabet).Draw(rt, "tl")
				}
			case 1: // the parent
				if i := strings.LastIndex(base, "/"); i > 0 {
					tp = base[:i]
				} else {
					tp = base
				}
			case 2: // the same topic, another value
				tp = base
			default:
				if c.Dir == "match" {
					tp = genFilter(rt, "tf")
				} else {
					tp = genName(rt, "tn")
				}
			}
			c.Transient = append(c.Transient, Entry{tp, rapid.IntRange(6, 9).Draw(rt, "tv")})
		}
		if len(c.Transient) > 0 {
			run.Class("with-transient-entries")
		}
		q := rapid.IntRange(1, 8).Draw(rt, "q")
		for i := 0; i < q; i++ {
			var s string
			switch {
			case c.Dir == "match" && rapid.Bool().Draw(rt, "derive"):
				// derive a name from a stored filter so that matches are frequent
				f := c.Entries[rapid.IntRange(0, len(c.Entries)-1).Draw(rt, "from")].Topic
				ls := strings.Split(f, "/")
				for j := range ls {
					if ls[j] == "+" {
						ls[j] = rapid.SampledFrom(levelAlphabet).Draw(rt, "sub")
					}
					if ls[j] == "#" {
						ls = ls[:j]
						for k := rapid.IntRange(0, 2).Draw(rt, "ext"); k > 0; k-- {
							ls = append(ls, rapid.SampledFrom(levelAlphabet).Draw(rt, "sub"))
						}
						break
					}
				}
				s = strings.Join(ls, "/")
				if s == "" {
					s = "a"
				}
			case c.Dir == "match":
				s = genName(rt, "qn")
			case rapid.Bool().Draw(rt, "derivef"):
				nme := c.Entries[rapid.IntRange(0, len(c.Entries)-1).Draw(rt, "from")].Topic
				ls := strings.Split(nme, "/")
				for j := range ls {
					if rapid.IntRange(0, 2).Draw(rt, "mkplus") == 0 {
						ls[j] = "+"
					}
				}
				if rapid.Bool().Draw(rt, "mkhash") {
					ls = append(ls[:rapid.IntRange(0, len(ls)).Draw(rt, "cut")], "#")
				}
				s = strings.Join(ls, "/")
			default:
				s = genFilter(rt, "qf")
			}
			c.Queries = append(c.Queries, s)
		}
		run.Eval(1)
		run.Class("random:" + c.Dir)
		run.NonTrivialJSON(c)
		if v := runCase(c); v != nil {
			run.Candidate(v.sig, v.msg, c)
			rt.Fatalf("%s: %s", v.sig, v.msg)
		}
	})
}

func TestReplay(t *testing.T) {
	var c Case
	ok, err := ev.ReplayCase(&c)
	if !ok {
		t.Skip("no VERIF_REPLAY")
	}
	if err != nil {
		t.Fatal(err)
	}
	if v := runCase(&c); v != nil {
		t.Fatalf("VIOLATION reproduced: %s: %s", v.sig, v.msg)
	}
	t.Log("case passes")
}
