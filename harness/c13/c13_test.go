// C13 — at most one live connection per client id; takeover keeps the session.
package c13

import (
	"fmt"
	"runtime"
	"sort"
	"strings"
	"sync"
	"sync/atomic"
	"testing"
	"time"

	"github.com/256dpi/gomqtt/broker"
	"github.com/256dpi/gomqtt/packet"
	"pgregory.net/rapid"

	"verif/internal/bk"
	"verif/internal/ev"
	"verif/internal/memconn"
	"verif/internal/peer"
)

// Contender is one connection attempt with the contested client id.
type Contender struct {
	Clean  bool `json:"clean,omitempty"`
	Will   bool `json:"will,omitempty"`
	SkewUs int  `json:"skew_us,omitempty"`
}

// Race is a simultaneous-takeover scenario.
type Race struct {
	Procs      int         `json:"gomaxprocs"`
	Incumbent  string      `json:"incumbent"` // none | idle | unacked | stalled | dropping | inflight-qos2
	IncClean   bool        `json:"inc_clean,omitempty"`
	Contenders []Contender `json:"contenders"`
	Stream     int         `json:"stream,omitempty"` // messages a publisher streams to the id during the race
	Jitter     uint64      `json:"jitter,omitempty"`
}

// Handover is the deterministic session hand-over scenario.
type Handover struct {
	QoS      []int `json:"qos"`      // messages published to the incumbent, window = Unacked
	Unacked  int   `json:"unacked"`  // deliveries the incumbent received and did not acknowledge
	RecSent  bool  `json:"rec_sent"` // the incumbent answered QoS 2 deliveries with PUBREC (no PUBCOMP)
	NewClean bool  `json:"new_clean,omitempty"`
	IncBusy  bool  `json:"inc_busy,omitempty"` // the incumbent's carrier is stalled (broker blocked in a send) when it is displaced
}

type verdict struct{ sig, msg string }

func failf(b *bk.Broker, sig, format string, a ...interface{}) *verdict {
	return &verdict{sig, fmt.Sprintf(format, a...) + "\n--- event log ---\n" + b.Log.Dump()}
}

const id = "x"

func connectPkt(clean bool, will string) *packet.Connect {
	cp := packet.NewConnect()
	cp.ClientID, cp.CleanSession = id, clean
	if will != "" {
		cp.Will = &packet.Message{Topic: "c13/will", Payload: []byte(will), QOS: 1}
	}
	return cp
}

func jitter(seed uint64) func() {
	if seed == 0 {
		return nil
	}
	var n uint64
	return func() {
		k := atomic.AddUint64(&n, 1)
		v := (seed + k*0x9E3779B97F4A7C15) * 0xBF58476D1CE4E5B9
		v ^= v >> 31
		switch v % 8 {
		case 0, 1:
			runtime.Gosched()
		case 2:
			time.Sleep(time.Duration(v>>8%150) * time.Microsecond)
		}
	}
}

type attempt struct {
	p       *peer.Peer
	bconn   *memconn.Conn
	connack *packet.Connack
	will    string
	name    string
}

func runRace(c *Race) (*verdict, bool) {
	if c.Procs > 0 {
		defer runtime.GOMAXPROCS(runtime.GOMAXPROCS(c.Procs))
	}
	bk.WaitNoLibGoroutines(0, time.Second) // let the previous case's goroutines finish
	baseline := len(bk.LibGoroutines())
	b := bk.New(nil)
	shut := false
	defer func() {
		if !shut {
			b.Shutdown()
		}
	}()
	pub, _ := b.Dial("pub")
	if _, err := pub.ConnectID("pub", true); err != nil {
		return failf(b, "harness/publisher", "%v", err), false
	}
	var all []*attempt
	var inc *attempt
	if c.Incumbent != "none" {
		inc = &attempt{will: "will-inc", name: "incumbent"}
		inc.p, inc.bconn = b.DialPlan("inc", 0, false, func(bc *memconn.Conn) { bc.Jitter = jitter(c.Jitter) })
		inc.p.AutoAck = false
		ack, err := inc.p.Connect(connectPkt(c.IncClean, inc.will))
		if err != nil {
			return failf(b, "harness/incumbent", "%v", err), false
		}
		inc.connack = ack
		if _, err := inc.p.Subscribe([]packet.Subscription{{Topic: "c13/t", QOS: 2}}); err != nil {
			return failf(b, "harness/incumbent", "%v", err), false
		}
		switch c.Incumbent {
		case "unacked":
			for i := 0; i < 2; i++ {
				if err := pub.Publish("c13/t", []byte(fmt.Sprintf("pre-%d", i)), packet.QOS(1+i), false); err != nil {
					return failf(b, "harness/incumbent", "%v", err), false
				}
			}
			n := 0
			if inc.p.WaitFor(0, func(g packet.Generic) bool {
				if g.Type() == packet.PUBLISH {
					n++
				}
				return n == 2
			}, ev.Ceiling()) < 0 {
				return failf(b, "harness/incumbent", "deliveries did not arrive"), false
			}
		case "inflight-qos2":
			from := len(inc.p.Inbox)
			_ = inc.p.Send(&packet.Publish{ID: 5, Message: packet.Message{Topic: "c13/other", Payload: []byte("q2"), QOS: 2}})
			if inc.p.WaitFor(from, func(g packet.Generic) bool { return g.Type() == packet.PUBREC }, ev.Ceiling()) < 0 {
				return failf(b, "harness/incumbent", "no PUBREC"), false
			}
		case "stalled":
			inc.bconn.StallSends()
			if err := pub.Publish("c13/t", []byte("stall"), 1, false); err != nil {
				return failf(b, "harness/incumbent", "%v", err), false
			}
			// wait until the broker is blocked in the send
			deadline := time.Now().Add(ev.Ceiling())
			for {
				blocked := false
				for _, e := range b.Log.Events() {
					if e.Actor == inc.bconn.Name && e.Op == "send-stalled" {
						blocked = true
					}
				}
				if blocked {
					break
				}
				if time.Now().After(deadline) {
					return failf(b, "harness/incumbent", "send never stalled"), false
				}
				time.Sleep(50 * time.Microsecond)
			}
		}
		all = append(all, inc)
	}

	// ---- the race
	start := make(chan struct{})
	var wg sync.WaitGroup
	atts := make([]*attempt, len(c.Contenders))
	for i, ct := range c.Contenders {
		i, ct := i, ct
		a := &attempt{name: fmt.Sprintf("contender-%d", i)}
		if ct.Will {
			a.will = fmt.Sprintf("will-%d", i)
		}
		atts[i] = a
		wg.Add(1)
		go func() {
			defer wg.Done()
			<-start
			if ct.SkewUs > 0 {
				time.Sleep(time.Duration(ct.SkewUs) * time.Microsecond)
			}
			a.p, a.bconn = b.DialPlan(fmt.Sprintf("c%d", i), 0, false, func(bc *memconn.Conn) { bc.Jitter = jitter(c.Jitter + uint64(i) + 1) })
			a.p.AutoAck = false
			a.connack, _ = a.p.Connect(connectPkt(ct.Clean, a.will))
		}()
	}
	streamed := make(chan error, 1)
	if c.Stream > 0 {
		wg.Add(1)
		go func() {
			defer wg.Done()
			<-start
			var err error
			for i := 0; i < c.Stream && err == nil; i++ {
				err = pub.Publish("c13/t", []byte(fmt.Sprintf("s-%d", i)), 1, false)
			}
			streamed <- err
		}()
	}
	if c.Incumbent == "dropping" {
		wg.Add(1)
		go func() {
			defer wg.Done()
			<-start
			inc.p.Drop()
		}()
	}
	close(start)
	done := make(chan struct{})
	go func() { wg.Wait(); close(done) }()
	select {
	case <-done:
	case <-time.After(3 * ev.Ceiling()):
		return failf(b, "liveness/connect-attempt-stuck", "simultaneous connection attempts with one client id did not all end (CONNACK or close) within %v\n--- library goroutines ---\n%s", 3*ev.Ceiling(), strings.Join(bk.LibGoroutines(), "\n\n")), true
	}
	if c.Stream > 0 {
		if err := <-streamed; err != nil {
			return failf(b, "publisher/handshake-incomplete", "a bystander's publish was not acknowledged during the takeover: %v", err), true
		}
	}
	all = append(all, atts...)

	// ---- history oracle
	type life struct {
		a           *attempt
		cl          *broker.Client
		setupRet    int64 // seq of the successful Setup return (0 = none)
		termEntry   int64
		termRet     int64
		terminates  int
		willPublish []int64
		connackSeq  int64
	}
	lives := map[*broker.Client]*life{}
	var order []*life
	for _, a := range all {
		cl := b.Rec.ClientOf(a.bconn)
		if cl == nil {
			return failf(b, "harness/client-unknown", "no broker client for %s", a.name), true
		}
		l := &life{a: a, cl: cl}
		lives[cl] = l
		order = append(order, l)
	}
	// everybody but the last successful Setup must end
	var survivor *life
	scan := func() {
		for _, l := range order {
			l.terminates, l.willPublish = 0, nil
		}
		for _, call := range b.Rec.Calls() {
			l := lives[call.Client]
			if l == nil {
				continue
			}
			switch {
			case call.Hook == "Setup" && call.Done && call.Err == nil:
				l.setupRet = call.Seq
			case call.Hook == "Terminate" && !call.Done:
				l.terminates++
				l.termEntry = call.Seq
			case call.Hook == "Terminate" && call.Done:
				l.termRet = call.Seq
			case call.Hook == "Publish" && !call.Done && l.a.will != "" && call.Tag == l.a.will:
				l.willPublish = append(l.willPublish, call.Seq)
			}
		}
	}
	scan()
	for _, l := range order {
		if l.setupRet > 0 && (survivor == nil || l.setupRet > survivor.setupRet) {
			survivor = l
		}
	}
	if survivor == nil {
		return failf(b, "takeover/nobody-connected", "%d simultaneous attempts with one id: none of them was set up", len(c.Contenders)), true
	}
	for _, l := range order {
		if l == survivor {
			continue
		}
		if !b.WaitClosed(l.a.bconn) {
			return failf(b, "liveness/displaced-not-terminated", "%s was displaced (or failed) but its broker-side client never finished closing\n--- library goroutines ---\n%s", l.a.name, strings.Join(bk.LibGoroutines(), "\n\n")), true
		}
		if !l.a.p.WaitEOF(ev.Ceiling()) {
			return failf(b, "takeover/displaced-connection-open", "%s lost the client id but its connection was not closed", l.a.name), true
		}
	}
	scan()
	for _, e := range b.Log.Events() {
		if e.Op == "send" && e.Type == "Connack" {
			for _, l := range order {
				if e.Actor == l.a.bconn.Name {
					l.connackSeq = e.Seq
				}
			}
		}
	}
	sort.Slice(order, func(i, j int) bool { return order[i].setupRet < order[j].setupRet })
	var prev *life
	for _, l := range order {
		if l.setupRet == 0 {
			continue
		}
		if l.connackSeq != 0 && l.connackSeq < l.setupRet {
			return failf(b, "takeover/connack-before-setup", "%s: CONNACK (#%d) was sent before its Setup returned (#%d)", l.a.name, l.connackSeq, l.setupRet), true
		}
		if prev != nil {
			// the previous holder's termination must have begun before this one's
			// Setup returned. (The recorder logs a return after the backend call
			// has really returned, so the logged Terminate-return of a holder
			// that was already gone can trail the newcomer's Setup-return; the
			// logged entry cannot: entry-log <= real entry <= real return <=
			// newcomer's real return <= newcomer's return-log.)
			switch {
			case prev.termEntry == 0:
				return failf(b, "takeover/old-not-terminated", "%s was set up (#%d) but the previous holder %s was never terminated", l.a.name, l.setupRet, prev.a.name), true
			case prev.termEntry > l.setupRet:
				return failf(b, "takeover/two-active", "%s was set up (#%d, CONNACK #%d) before the termination of the previous holder %s had begun (#%d): two connections held the id at once", l.a.name, l.setupRet, l.connackSeq, prev.a.name, prev.termEntry), true
			}
			if prev.a.will != "" {
				disc := false
				for _, e := range b.Log.Events() {
					if e.Actor == prev.a.bconn.Name && e.Op == "recv" && e.Type == "Disconnect" {
						disc = true
					}
				}
				if !disc {
					if len(prev.willPublish) != 1 {
						return failf(b, "takeover/will-count", "the displaced %s had a will; it was published %d times", prev.a.name, len(prev.willPublish)), true
					}
					if prev.willPublish[0] > l.setupRet {
						return failf(b, "takeover/will-after-newcomer", "the will of the displaced %s (#%d) was published after the newcomer %s was set up (#%d)", prev.a.name, prev.willPublish[0], l.a.name, l.setupRet), true
					}
				}
			}
		}
		if l != survivor && l.terminates != 1 {
			return failf(b, "takeover/terminate-count", "%s was set up once but terminated %d times", l.a.name, l.terminates), true
		}
		prev = l
	}
	if survivor.terminates != 0 {
		return failf(b, "takeover/survivor-terminated", "the last connection set up (%s) was terminated although nobody displaced it", survivor.a.name), true
	}
	// exactly one connected
	survivor.a.p.AutoAck = true
	if !survivor.a.p.Ping() {
		return failf(b, "takeover/survivor-dead", "the connection that holds the id (%s) does not answer PINGREQ (eof=%v)", survivor.a.name, survivor.a.p.EOF), true
	}
	// with a persistent session all along (incumbent and every contender without
	// clean session) the subscription and the queue survive every hand-over:
	// each streamed QoS 1 message - acknowledged to its publisher - has reached
	// one of the connections or reaches the survivor now
	persistent := inc != nil && !c.IncClean && c.Incumbent != "stalled"
	for _, ct := range c.Contenders {
		persistent = persistent && !ct.Clean
	}
	if persistent && c.Stream > 0 {
		persistentStreams++
		have := func() map[string]bool {
			m := map[string]bool{}
			for _, a := range all {
				if a.p == nil {
					continue
				}
				for _, pub := range a.p.Publishes(0) {
					m[string(pub.Message.Payload)] = true
				}
			}
			return m
		}
		deadline := time.Now().Add(ev.Ceiling())
		missing := ""
		for {
			m := have()
			missing = ""
			for i := 0; i < c.Stream; i++ {
				if tag := fmt.Sprintf("s-%d", i); !m[tag] {
					missing = tag
					break
				}
			}
			if missing == "" || time.Now().After(deadline) || survivor.a.p.EOF {
				break
			}
			survivor.a.p.PumpWait(2 * time.Millisecond)
		}
		if missing != "" {
			return failf(b, "takeover/stream-message-lost", "QoS 1 message %s was acknowledged to its publisher during the takeover, the session was persistent throughout (no clean connect), yet neither a displaced connection nor the survivor (%s) ever received it", missing, survivor.a.name), true
		}
	}
	// the survivor finishes the QoS 2 exchange the incumbent had begun (PUBLISH id 5
	// recorded, PUBREC sent): every PUBREL is answered - with the session, or
	// for an id the broker no longer knows - and the connection keeps answering
	// afterwards
	if c.Incumbent == "inflight-qos2" {
		sp := survivor.a.p
		from := len(sp.Inbox)
		_ = sp.Send(&packet.Pubrel{ID: 5})
		if sp.WaitFor(from, func(g packet.Generic) bool { x, ok := g.(*packet.Pubcomp); return ok && x.ID == 5 }, ev.Ceiling()) < 0 {
			return failf(b, "takeover/inherited-qos2-not-completed", "the survivor (%s) sent PUBREL for the QoS 2 publish the incumbent had begun (id 5): no PUBCOMP (eof=%v)", survivor.a.name, sp.EOF), true
		}
		for k := 0; k < 2; k++ {
			if _, err := sp.Subscribe([]packet.Subscription{{Topic: fmt.Sprintf("c13/after/%d", k), QOS: 1}}); err != nil {
				return failf(b, "takeover/survivor-dead", "after completing the inherited QoS 2 exchange the survivor (%s) gets no SUBACK any more: %v", survivor.a.name, err), true
			}
		}
		if !sp.Ping() {
			return failf(b, "takeover/survivor-dead", "after completing the inherited QoS 2 exchange the survivor (%s) does not answer PINGREQ", survivor.a.name), true
		}
	}
	// a bystander can still connect and the id is usable (backend not wedged)
	by, _ := b.Dial("bystander")
	if _, err := by.ConnectID("bystander", true); err != nil {
		return failf(b, "liveness/backend-wedged", "after the race a client with another id cannot connect: %v\n--- library goroutines ---\n%s", err, strings.Join(bk.LibGoroutines(), "\n\n")), true
	}
	shut = true
	if !b.Shutdown() {
		return failf(b, "liveness/shutdown", "backend close did not complete"), true
	}
	if left := bk.WaitNoLibGoroutines(baseline, ev.Ceiling()); left != nil {
		return failf(b, "liveness/goroutines-left", "%d library goroutines are still running after every connection ended:\n%s", len(left)-baseline, strings.Join(left, "\n\n")), true
	}
	return nil, true
}

// persistentStreams counts race cases in which the stream's delivery was judged.
var persistentStreams int

func runHandover(c *Handover) *verdict {
	b := bk.New(func(m *broker.MemoryBackend, e *broker.Engine) { m.ClientInflightMessages = c.Unacked })
	defer b.Shutdown()
	pub, _ := b.Dial("pub")
	if _, err := pub.ConnectID("pub", true); err != nil {
		return failf(b, "harness/publisher", "%v", err)
	}
	inc, incConn := b.Dial("inc")
	inc.AutoAck = false
	if _, err := inc.Connect(connectPkt(false, "")); err != nil {
		return failf(b, "harness/incumbent", "%v", err)
	}
	if _, err := inc.Subscribe([]packet.Subscription{{Topic: "c13/t", QOS: 2}}); err != nil {
		return failf(b, "harness/incumbent", "%v", err)
	}
	tags := []string{}
	for i, q := range c.QoS {
		tag := fmt.Sprintf("m%d-q%d", i, q)
		tags = append(tags, tag)
		if err := pub.Publish("c13/t", []byte(tag), packet.QOS(q), false); err != nil {
			return failf(b, "harness/publish", "%v", err)
		}
	}
	nUn := c.Unacked
	if nUn > len(c.QoS) {
		nUn = len(c.QoS)
	}
	n := 0
	if nUn > 0 && inc.WaitFor(0, func(g packet.Generic) bool {
		if g.Type() == packet.PUBLISH {
			n++
		}
		return n == nUn
	}, ev.Ceiling()) < 0 {
		return failf(b, "harness/incumbent", "deliveries did not arrive")
	}
	type un struct {
		id  packet.ID
		tag string
		rel bool
	}
	var unacked []un
	for _, g := range inc.Inbox {
		if p, ok := g.(*packet.Publish); ok {
			u := un{id: p.ID, tag: string(p.Message.Payload)}
			if p.Message.QOS == 2 && c.RecSent {
				from := len(inc.Inbox)
				_ = inc.Send(&packet.Pubrec{ID: p.ID})
				pid := p.ID
				if inc.WaitFor(from, func(g packet.Generic) bool { r, ok := g.(*packet.Pubrel); return ok && r.ID == pid }, ev.Ceiling()) < 0 {
					return failf(b, "harness/incumbent", "no PUBREL")
				}
				u.rel = true
			}
			unacked = append(unacked, u)
		}
	}
	if c.IncBusy {
		incConn.StallSends()
		_ = inc.Send(packet.NewPingreq()) // the PINGRESP blocks the broker in a send
	}
	// ---- takeover
	nw, _ := b.Dial("new")
	nw.AutoAck = false
	ack, err := nw.Connect(connectPkt(c.NewClean, ""))
	if err != nil {
		return failf(b, "takeover/newcomer-not-connected", "%v", err)
	}
	if !b.WaitClosed(incConn) || !inc.WaitEOF(ev.Ceiling()) {
		return failf(b, "takeover/displaced-connection-open", "the displaced connection was not closed")
	}
	if ack.SessionPresent != !c.NewClean {
		return failf(b, "handover/session-present", "newcomer clean=%v got session-present=%v", c.NewClean, ack.SessionPresent)
	}
	if c.NewClean {
		if !nw.Ping() {
			return failf(b, "takeover/newcomer-dead", "newcomer does not answer PINGREQ")
		}
		if err := pub.Publish("c13/t", []byte("after"), 1, false); err != nil {
			return failf(b, "harness/publish", "%v", err)
		}
		if !nw.Ping() {
			return failf(b, "takeover/newcomer-dead", "newcomer does not answer PINGREQ")
		}
		for _, g := range nw.Inbox {
			if g.Type() == packet.PUBLISH || g.Type() == packet.PUBREL {
				return failf(b, "handover/clean-got-state", "a clean-session takeover received %s from the discarded session", g.Type())
			}
		}
		return nil
	}
	// unclean newcomer: first the retransmissions of the unacknowledged deliveries
	want := map[packet.ID]un{}
	for _, u := range unacked {
		want[u.id] = u
	}
	got := map[string]int{}
	idx := 1 // after CONNACK
	for k := 0; k < len(unacked); k++ {
		if nw.WaitFor(idx, func(packet.Generic) bool { return true }, ev.Ceiling()) < 0 {
			return failf(b, "handover/inflight-lost", "the displaced connection had %d unacknowledged deliveries; only %d were retransmitted to the newcomer", len(unacked), k)
		}
		switch g := nw.Inbox[idx].(type) {
		case *packet.Publish:
			u, ok := want[g.ID]
			if !ok || u.rel || !g.Dup || string(g.Message.Payload) != u.tag {
				return failf(b, "handover/inflight-altered", "retransmission %d is PUBLISH id=%d dup=%v payload=%q; unacknowledged were %v", k, g.ID, g.Dup, g.Message.Payload, unacked)
			}
			delete(want, g.ID)
			got[u.tag]++
			if g.Message.QOS == 1 {
				_ = nw.Send(&packet.Puback{ID: g.ID})
			} else {
				_ = nw.Send(&packet.Pubrec{ID: g.ID})
			}
		case *packet.Pubrel:
			u, ok := want[g.ID]
			if !ok || !u.rel {
				return failf(b, "handover/inflight-altered", "retransmission %d is PUBREL id=%d; unacknowledged were %v", k, g.ID, unacked)
			}
			delete(want, g.ID)
			got[u.tag]++
			_ = nw.Send(&packet.Pubcomp{ID: g.ID})
		default:
			return failf(b, "handover/inflight-altered", "retransmission %d is %s", k, g.Type())
		}
		idx++
	}
	// then the queued messages, in order, each once; then a fresh publish (subscription intact)
	for _, g := range nw.Inbox[idx:] {
		switch p := g.(type) {
		case *packet.Publish:
			if p.Message.QOS == 1 {
				_ = nw.Send(&packet.Puback{ID: p.ID})
			} else if p.Message.QOS == 2 {
				_ = nw.Send(&packet.Pubrec{ID: p.ID})
			}
		case *packet.Pubrel:
			_ = nw.Send(&packet.Pubcomp{ID: p.ID})
		}
	}
	nw.AutoAck = true
	if err := pub.Publish("c13/t", []byte("after"), 1, false); err != nil {
		return failf(b, "harness/publish", "%v", err)
	}
	if nw.WaitFor(idx, func(g packet.Generic) bool {
		p, ok := g.(*packet.Publish)
		return ok && string(p.Message.Payload) == "after"
	}, ev.Ceiling()) < 0 {
		return failf(b, "handover/subscription-lost", "a message published after the takeover did not reach the newcomer: the subscription did not pass over")
	}
	var rest []string
	for _, g := range nw.Inbox[idx:] {
		if p, ok := g.(*packet.Publish); ok && string(p.Message.Payload) != "after" {
			if p.Dup {
				return failf(b, "handover/queued-marked-dup", "queued message %q was delivered with DUP", p.Message.Payload)
			}
			rest = append(rest, string(p.Message.Payload))
			got[string(p.Message.Payload)]++
		}
	}
	wantRest := tags[len(unacked):]
	if strings.Join(rest, ",") != strings.Join(wantRest, ",") {
		return failf(b, "handover/queued-lost-or-reordered", "queued messages passed to the newcomer: %v, expected %v", rest, wantRest)
	}
	for _, tg := range tags {
		if got[tg] != 1 {
			return failf(b, "handover/not-exactly-once", "message %s reached the newcomer %d times", tg, got[tg])
		}
	}
	return nil
}

func genRace(rt *rapid.T) *Race {
	c := &Race{
		Procs:     rapid.SampledFrom([]int{1, 2, 4, 16}).Draw(rt, "procs"),
		Incumbent: rapid.SampledFrom([]string{"none", "idle", "unacked", "stalled", "dropping", "inflight-qos2"}).Draw(rt, "incumbent"),
		IncClean:  rapid.Bool().Draw(rt, "inc_clean"),
	}
	n := rapid.IntRange(1, 8).Draw(rt, "contenders")
	if c.Incumbent == "none" && n < 2 {
		n = 2
	}
	for i := 0; i < n; i++ {
		ct := Contender{Clean: rapid.Bool().Draw(rt, "clean"), Will: rapid.Bool().Draw(rt, "will")}
		if rapid.Bool().Draw(rt, "skewed") {
			ct.SkewUs = rapid.IntRange(0, 300).Draw(rt, "skew")
		}
		c.Contenders = append(c.Contenders, ct)
	}
	if rapid.Bool().Draw(rt, "streaming") {
		c.Stream = rapid.IntRange(1, 40).Draw(rt, "stream")
	}
	if rapid.Bool().Draw(rt, "jittered") {
		c.Jitter = rapid.Uint64Range(1, 1<<40).Draw(rt, "jitter")
	}
	return c
}

func genHandover(rt *rapid.T) *Handover {
	c := &Handover{Unacked: rapid.IntRange(1, 4).Draw(rt, "unacked")}
	n := rapid.IntRange(1, c.Unacked+4).Draw(rt, "n")
	for i := 0; i < n; i++ {
		c.QoS = append(c.QoS, rapid.IntRange(1, 2).Draw(rt, "q"))
	}
	c.RecSent = rapid.Bool().Draw(rt, "rec")
	c.NewClean = rapid.IntRange(0, 3).Draw(rt, "clean") == 0
	c.IncBusy = rapid.Bool().Draw(rt, "busy")
	return c
}

func TestC13(t *testing.T) {
	run := ev.Start("C13", "exploration")
	run.Rule("(a) races: 1-8 simultaneous connection attempts with one client id (clean/unclean, with/without will, start skew 0-300 us, per-operation schedule jitter drawn from the case, GOMAXPROCS in {1,2,4,16}) against an incumbent that is absent / idle / holding unacknowledged deliveries / blocked in a send on a stalled carrier / being dropped by its peer at the same instant / mid inbound QoS 2, optionally with a publisher streaming to the id. Oracle over the recorded backend+connection history, valid for every schedule: the [Setup return, Terminate return) intervals of the connections holding the id are disjoint, a displaced holder's will is published once and before the successor's Setup returns, CONNACK follows Setup, every holder but the last is terminated exactly once and its connection closed, exactly one connection answers PINGREQ, a bystander can still connect, no library goroutine is left. (b) deterministic hand-over: incumbent with u unacknowledged (optionally PUBREC sent) + q queued messages is displaced by an unclean (clean) newcomer which must receive exactly the u retransmissions (DUP / PUBREL) then the q queued messages in order, each once, and keep the subscription (nothing and no session for clean). non-trivial = >= 3 contenders or traffic overlapping the takeover, or a hand-over with queued messages; distinct by case")
	run.Assume("schedules are sampled by the Go scheduler under perturbation, not enumerated", "delivery of the bystander's stream is judged only when the session is persistent throughout (a clean connect discards the queue) and the incumbent is not stalled in a send")
	defer run.Finish(t)
	shard, _ := ev.Shard()
	fixedRaces := []*Race{
		{Procs: 4, Incumbent: "idle", Contenders: []Contender{{}, {}, {}}},
		{Procs: 16, Incumbent: "none", Contenders: []Contender{{Will: true}, {Will: true}, {Will: true}, {Will: true}, {Will: true}, {Will: true}}},
		{Procs: 2, Incumbent: "stalled", Contenders: []Contender{{Clean: true}, {}}, Stream: 10},
		{Procs: 1, Incumbent: "unacked", Contenders: []Contender{{}, {Clean: true}, {}, {Will: true}}, Jitter: 77},
		{Procs: 4, Incumbent: "idle", Contenders: []Contender{{}, {Will: true}}, Stream: 12, Jitter: 5},
		{Procs: 2, Incumbent: "dropping", Contenders: []Contender{{}}, Stream: 8},
	}
	execRace := func(c *Race) *verdict {
		run.Eval(1)
		run.Inflight(c)
		v, ok := runRace(c)
		run.ClearInflight()
		if ok {
			run.Class("incumbent=" + c.Incumbent)
			run.Class(fmt.Sprintf("contenders=%d", len(c.Contenders)))
			if len(c.Contenders) >= 3 || c.Stream > 0 {
				run.NonTrivialJSON(c)
			}
		}
		return v
	}
	if shard == 0 {
		for _, c := range fixedRaces {
			for i := 0; i < 5; i++ {
				if v := execRace(c); v != nil {
					run.Violation(v.sig, v.msg, c)
					break
				}
			}
		}
	}
	run.Rapid(t, "races", ev.Pick(500, 20000), func(rt *rapid.T) {
		c := genRace(rt)
		if v := execRace(c); v != nil {
			run.Candidate(v.sig, v.msg, c)
			rt.Fatalf("%s: %s", v.sig, v.msg)
		}
	})
	run.Rapid(t, "handover", ev.Pick(600, 20000), func(rt *rapid.T) {
		c := genHandover(rt)
		run.Eval(1)
		run.Class("handover")
		if len(c.QoS) > c.Unacked {
			run.NonTrivialJSON(c)
		}
		if v := runHandover(c); v != nil {
			run.Candidate("handover:"+v.sig, v.msg, c)
			rt.Fatalf("%s: %s", v.sig, v.msg)
		}
	})
	run.Set("races_with_stream_delivery_judged", persistentStreams)
}

func TestReplay(t *testing.T) {
	var raw map[string]interface{}
	ok, err := ev.ReplayCase(&raw)
	if !ok {
		t.Skip("no VERIF_REPLAY")
	}
	if err != nil {
		t.Fatal(err)
	}
	for i := 0; i < 20; i++ {
		var v *verdict
		if _, isRace := raw["contenders"]; isRace {
			var c Race
			_, _ = ev.ReplayCase(&c)
			v, _ = runRace(&c)
		} else {
			var c Handover
			_, _ = ev.ReplayCase(&c)
			v = runHandover(&c)
		}
		if v != nil {
			t.Fatalf("VIOLATION reproduced: %s: %s", v.sig, v.msg)
		}
	}
	t.Log("case passes (20 runs; races are schedule dependent)")
}
