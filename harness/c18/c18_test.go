// C18 — packet ids: never zero, no repeat within 65535 allocations; store is a map.
package c18

import (
	"fmt"
	"sync"
	"testing"

	"github.com/256dpi/gomqtt/packet"
	"github.com/256dpi/gomqtt/session"
	"pgregory.net/rapid"

	"verif/internal/ev"
)

// Op on the session store. Kind: save lookup delete all reset nextid.
type Op struct {
	Kind string `json:"k"`
	Dir  int    `json:"d,omitempty"` // 0 incoming, 1 outgoing
	Type int    `json:"t,omitempty"` // packet type for save
	ID   uint16 `json:"id,omitempty"`
}

// Case: a store history, a counter scenario, or a concurrent scenario.
type Case struct {
	Ops     []Op   `json:"ops,omitempty"`
	Start   int    `json:"start,omitempty"`   // counter start state
	Counter bool   `json:"counter,omitempty"` // counter case
	Threads [][]Op `json:"threads,omitempty"`
}

type verdict struct{ sig, msg string }

func mkPacket(typ int, id uint16) packet.Generic {
	switch packet.Type(typ) {
	case packet.PUBLISH:
		p := packet.NewPublish()
		p.ID = packet.ID(id)
		p.Message.QOS = 1
		p.Message.Topic = "t"
		return p
	case packet.PUBACK:
		return &packet.Puback{ID: packet.ID(id)}
	case packet.PUBREC:
		return &packet.Pubrec{ID: packet.ID(id)}
	case packet.PUBREL:
		return &packet.Pubrel{ID: packet.ID(id)}
	case packet.PUBCOMP:
		return &packet.Pubcomp{ID: packet.ID(id)}
	case packet.SUBSCRIBE:
		return &packet.Subscribe{ID: packet.ID(id), Subscriptions: []packet.Subscription{{Topic: "a"}}}
	case packet.SUBACK:
		return &packet.Suback{ID: packet.ID(id), ReturnCodes: []packet.QOS{0}}
	case packet.UNSUBSCRIBE:
		return &packet.Unsubscribe{ID: packet.ID(id), Topics: []string{"a"}}
	case packet.UNSUBACK:
		return &packet.Unsuback{ID: packet.ID(id)}
	case packet.CONNECT:
		return packet.NewConnect()
	case packet.CONNACK:
		return packet.NewConnack()
	case packet.PINGREQ:
		return packet.NewPingreq()
	case packet.PINGRESP:
		return packet.NewPingresp()
	}
	return packet.NewDisconnect()
}

func hasID(typ int) bool {
	t := packet.Type(typ)
	return t >= packet.PUBLISH && t <= packet.UNSUBACK
}

type model [2]map[uint16]packet.Generic

func newModel() *model { return &model{map[uint16]packet.Generic{}, map[uint16]packet.Generic{}} }

// step applies o to the session and the model and compares observable results.
func step(s *session.MemorySession, m *model, nextModel *uint16, o Op, i int) *verdict {
	dir := session.Direction(o.Dir)
	switch o.Kind {
	case "save":
		p := mkPacket(o.Type, o.ID)
		if err := s.SavePacket(dir, p); err != nil {
			return &verdict{"store/save-error", err.Error()}
		}
		if hasID(o.Type) {
			m[o.Dir][o.ID] = p
		}
	case "lookup":
		g, err := s.LookupPacket(dir, packet.ID(o.ID))
		if err != nil {
			return &verdict{"store/lookup-error", err.Error()}
		}
		w := m[o.Dir][o.ID]
		if (g == nil) != (w == nil) || (g != nil && g != w) {
			return &verdict{"store/lookup-differs", fmt.Sprintf("op %d: Lookup(dir %d, id %d) = %v, model %v", i, o.Dir, o.ID, g, w)}
		}
	case "delete":
		if err := s.DeletePacket(dir, packet.ID(o.ID)); err != nil {
			return &verdict{"store/delete-error", fmt.Sprintf("op %d: Delete(id %d) returned %v (must not fail for absent ids)", i, o.ID, err)}
		}
		delete(m[o.Dir], o.ID)
	case "all":
		all, err := s.AllPackets(dir)
		if err != nil {
			return &verdict{"store/all-error", err.Error()}
		}
		if len(all) != len(m[o.Dir]) {
			return &verdict{"store/all-count", fmt.Sprintf("op %d: All(dir %d) has %d packets, model %d", i, o.Dir, len(all), len(m[o.Dir]))}
		}
		seen := map[packet.Generic]bool{}
		for _, p := range all {
			id, _ := packet.GetID(p)
			if m[o.Dir][uint16(id)] != p || seen[p] {
				return &verdict{"store/all-member", fmt.Sprintf("op %d: All(dir %d) lists %v which the model does not hold (or twice)", i, o.Dir, p)}
			}
			seen[p] = true
		}
	case "reset":
		if err := s.Reset(); err != nil {
			return &verdict{"store/reset-error", err.Error()}
		}
		m[0], m[1] = map[uint16]packet.Generic{}, map[uint16]packet.Generic{}
		*nextModel = 1
	case "nextid":
		g := s.NextID()
		w := *nextModel
		if w == 0 {
			w = 1
		}
		*nextModel = w + 1
		if uint16(g) != w || g == 0 {
			return &verdict{"counter/session-nextid", fmt.Sprintf("op %d: NextID() = %d, model %d", i, g, w)}
		}
	}
	return nil
}

func fullCompare(s *session.MemorySession, m *model, i int) *verdict {
	var nm uint16
	for d := 0; d < 2; d++ {
		if v := step(s, m, &nm, Op{Kind: "all", Dir: d}, i); v != nil {
			return v
		}
		for _, id := range []uint16{1, 2, 3, 65535} {
			if v := step(s, m, &nm, Op{Kind: "lookup", Dir: d, ID: id}, i); v != nil {
				return v
			}
		}
	}
	return nil
}

func runStore(c *Case) *verdict {
	s := session.NewMemorySession()
	m := newModel()
	next := uint16(1)
	for i, o := range c.Ops {
		if v := step(s, m, &next, o, i); v != nil {
			return v
		}
		if v := fullCompare(s, m, i); v != nil {
			return v
		}
	}
	return nil
}

func runCounter(start int) *verdict {
	c := session.NewIDCounterWithNext(packet.ID(start))
	want := uint16(start)
	if want == 0 {
		want = 1
	}
	g := c.NextID()
	if g == 0 {
		return &verdict{"counter/zero", fmt.Sprintf("state %d: NextID() = 0", start)}
	}
	if uint16(g) != want {
		return &verdict{"counter/next", fmt.Sprintf("state %d: NextID() = %d, model %d", start, g, want)}
	}
	want2 := want + 1
	if want2 == 0 {
		want2 = 1
	}
	g2 := c.NextID()
	if uint16(g2) != want2 || g2 == 0 {
		return &verdict{"counter/successor", fmt.Sprintf("state %d: second NextID() = %d, model %d", start, g2, want2)}
	}
	return nil
}

func runDistinct(start int) *verdict {
	c := session.NewIDCounterWithNext(packet.ID(start))
	var seen [65536 / 64]uint64
	for i := 0; i < 65535; i++ {
		id := uint16(c.NextID())
		if id == 0 {
			return &verdict{"counter/zero", fmt.Sprintf("start %d: allocation %d returned 0", start, i)}
		}
		if seen[id/64]&(1<<(id%64)) != 0 {
			return &verdict{"counter/repeat-within-65535", fmt.Sprintf("start %d: id %d repeated at allocation %d of 65535", start, id, i)}
		}
		seen[id/64] |= 1 << (id % 64)
	}
	c.Reset()
	if g := c.NextID(); g != 1 {
		return &verdict{"counter/reset", fmt.Sprintf("after Reset NextID() = %d, want 1", g)}
	}
	return nil
}

func runConcurrentCounter(start, goroutines, each int) *verdict {
	c := session.NewIDCounterWithNext(packet.ID(start))
	out := make([][]packet.ID, goroutines)
	var wg sync.WaitGroup
	for g := 0; g < goroutines; g++ {
		wg.Add(1)
		go func(g int) {
			defer wg.Done()
			for i := 0; i < each; i++ {
				out[g] = append(out[g], c.NextID())
			}
		}(g)
	}
	wg.Wait()
	seen := map[packet.ID]bool{}
	for _, l := range out {
		for _, id := range l {
			if id == 0 {
				return &verdict{"counter/concurrent-zero", "a concurrent NextID() returned 0"}
			}
			if seen[id] {
				return &verdict{"counter/concurrent-repeat", fmt.Sprintf("id %d handed out twice among %d concurrent allocations (start %d)", id, goroutines*each, start)}
			}
			seen[id] = true
		}
	}
	return nil
}

// concurrent store: every goroutine owns a disjoint id set, so the final
// state is the union of the per-goroutine sequential models.
func runConcurrentStore(c *Case) *verdict {
	s := session.NewMemorySession()
	models := make([]*model, len(c.Threads))
	var wg sync.WaitGroup
	errs := make([]*verdict, len(c.Threads))
	for g, ops := range c.Threads {
		models[g] = newModel()
		wg.Add(1)
		go func(g int, ops []Op) {
			defer wg.Done()
			var nm uint16
			for i, o := range ops {
				if o.Kind == "all" || o.Kind == "reset" || o.Kind == "nextid" {
					continue
				}
				o.ID = uint16(g*100) + o.ID%50 + 1 // disjoint per goroutine
				if v := step(s, models[g], &nm, o, i); v != nil {
					errs[g] = v
					return
				}
			}
		}(g, ops)
	}
	wg.Wait()
	for _, e := range errs {
		if e != nil {
			return &verdict{"store/concurrent:" + e.sig, e.msg}
		}
	}
	union := newModel()
	for _, m := range models {
		for d := 0; d < 2; d++ {
			for id, p := range m[d] {
				union[d][id] = p
			}
		}
	}
	var nm uint16
	for d := 0; d < 2; d++ {
		if v := step(s, union, &nm, Op{Kind: "all", Dir: d}, -1); v != nil {
			return &verdict{"store/concurrent-final:" + v.sig, v.msg}
		}
	}
	return nil
}

func genOp(rt *rapid.T) Op {
	k := rapid.SampledFrom([]string{"save", "save", "save", "lookup", "delete", "delete", "all", "reset", "nextid"}).Draw(rt, "k")
	o := Op{Kind: k, Dir: rapid.IntRange(0, 1).Draw(rt, "dir")}
	if k == "reset" && rapid.IntRange(0, 2).Draw(rt, "rare") != 0 {
		o.Kind = "save"
		k = "save"
	}
	if k == "save" {
		o.Type = rapid.IntRange(1, 14).Draw(rt, "type")
	}
	if k == "save" || k == "lookup" || k == "delete" {
		o.ID = rapid.SampledFrom([]uint16{1, 2, 3, 65535}).Draw(rt, "id")
	}
	return o
}

func nontrivialStore(ops []Op) bool {
	// overwrite + delete of the same (dir,id)
	saved := map[[2]int]int{}
	over := map[[2]int]bool{}
	for _, o := range ops {
		k := [2]int{o.Dir, int(o.ID)}
		if o.Kind == "save" && hasID(o.Type) {
			saved[k]++
			if saved[k] > 1 {
				over[k] = true
			}
		}
		if o.Kind == "delete" && over[k] {
			return true
		}
	}
	return false
}

func TestC18(t *testing.T) {
	run := ev.Start("C18", "exploration")
	run.Rule("counter: all 65536 states (next id and successor), 65535 consecutive allocations pairwise distinct from 64 (quick) / all 65536 (thorough) start states, Reset, 2-16 concurrent callers; store: bounded-exhaustive op sequences (length <= 4 quick / 5 thorough) over {save(type with/without id), lookup, delete, all, reset} x 2 directions x ids {1,2} and rapid histories over ids {1,2,3,65535} vs two maps with pointer identity, concurrent callers on disjoint ids. non-trivial = an allocation run that crosses the 16-bit wrap, or a store history with an overwrite followed by a delete of the same (direction,id); distinct by start state resp. op list")
	run.Assume("QoS 0 PUBLISH values (id 0) are never stored by any caller and are not generated")
	defer run.Finish(t)
	shard, shards := ev.Shard()

	// all counter states
	for s := 0; s < 65536; s++ {
		if s%shards != shard {
			continue
		}
		run.Eval(1)
		if v := runCounter(s); v != nil {
			run.Violation(v.sig, v.msg, &Case{Counter: true, Start: s})
			break
		}
	}
	run.Exhaustive("all 65536 counter states: NextID value and successor")

	starts := []int{}
	if ev.Thorough() {
		for s := 0; s < 65536; s++ {
			starts = append(starts, s)
		}
	} else {
		for _, s := range []int{0, 1, 2, 3, 65533, 65534, 65535, 32767, 32768, 255, 256} {
			starts = append(starts, s)
		}
		for i := 0; len(starts) < 64; i++ {
			starts = append(starts, (i*1031+int(ev.Seed())*17)%65536)
		}
	}
	for i, s := range starts {
		if i%shards != shard {
			continue
		}
		run.Eval(1)
		run.NonTrivial(ev.Hash("distinct", s), func() interface{} {
			return map[string]interface{}{"counter_start": s, "allocations": 65535}
		})
		if v := runDistinct(s); v != nil {
			run.Violation(v.sig, v.msg, &Case{Counter: true, Start: s})
			break
		}
	}
	if ev.Thorough() {
		run.Exhaustive("65535 consecutive allocations pairwise distinct from every one of the 65536 start states")
	}

	run.Rapid(t, "counter-concurrent", ev.Pick(60, 2000), func(rt *rapid.T) {
		g := rapid.SampledFrom([]int{2, 3, 4, 8, 16}).Draw(rt, "goroutines")
		each := rapid.IntRange(1, 65535/g).Draw(rt, "each")
		if rapid.Bool().Draw(rt, "small") {
			each = rapid.IntRange(1, 300).Draw(rt, "each_small")
		}
		start := rapid.SampledFrom([]int{0, 1, 65535, 65000, 65400, 30000}).Draw(rt, "start")
		run.Eval(1)
		run.Class(fmt.Sprintf("counter-concurrent:g=%d", g))
		if start+g*each > 65535 {
			run.NonTrivial(ev.Hash("cc", g, each, start), func() interface{} {
				return map[string]int{"goroutines": g, "each": each, "start": start}
			})
		}
		if v := runConcurrentCounter(start, g, each); v != nil {
			run.Candidate(v.sig, v.msg, map[string]int{"goroutines": g, "each": each, "start": start})
			rt.Fatalf("%s: %s", v.sig, v.msg)
		}
	})

	// bounded exhaustive store sequences
	var alpha []Op
	for d := 0; d < 2; d++ {
		for _, id := range []uint16{1, 2} {
			alpha = append(alpha, Op{"save", d, int(packet.PUBLISH), id}, Op{"save", d, int(packet.PUBREL), id}, Op{"delete", d, 0, id})
		}
		alpha = append(alpha, Op{"save", d, int(packet.PINGREQ), 0})
	}
	alpha = append(alpha, Op{Kind: "reset"})
	maxLen := 4
	if ev.Thorough() {
		maxLen = 5
	}
	stop := false
	var rec func(prefix []Op)
	rec = func(prefix []Op) {
		if stop {
			return
		}
		if len(prefix) > 0 {
			run.Eval(1)
			c := &Case{Ops: prefix}
			if nontrivialStore(prefix) {
				run.NonTrivial(ev.Hash("seq", fmt.Sprint(prefix)), func() interface{} { return &Case{Ops: append([]Op{}, prefix...)} })
			}
			// only the last step needs checking: every prefix is enumerated itself
			s := session.NewMemorySession()
			m := newModel()
			next := uint16(1)
			var v *verdict
			for i, o := range prefix {
				if v = step(s, m, &next, o, i); v != nil {
					break
				}
			}
			if v == nil {
				v = fullCompare(s, m, len(prefix)-1)
			}
			if v != nil {
				run.Violation(v.sig, v.msg, &Case{Ops: append([]Op{}, c.Ops...)})
				stop = true
				return
			}
		}
		if len(prefix) == maxLen {
			return
		}
		for i, o := range alpha {
			if len(prefix) == 0 && i%shards != shard {
				continue
			}
			rec(append(prefix, o))
		}
	}
	rec(make([]Op, 0, maxLen))
	run.Exhaustive(fmt.Sprintf("all store op sequences of length <= %d over %d operations", maxLen, len(alpha)))

	run.Rapid(t, "store", ev.Pick(1500, 100000), func(rt *rapid.T) {
		n := rapid.IntRange(1, 40).Draw(rt, "n")
		if rapid.IntRange(0, 9).Draw(rt, "long") == 0 {
			n = rapid.IntRange(100, 400).Draw(rt, "nlong")
		}
		c := &Case{}
		for i := 0; i < n; i++ {
			c.Ops = append(c.Ops, genOp(rt))
		}
		run.Eval(1)
		run.Class("store-history")
		if nontrivialStore(c.Ops) {
			run.NonTrivialJSON(c)
		}
		if v := runStore(c); v != nil {
			run.Candidate(v.sig, v.msg, c)
			rt.Fatalf("%s: %s", v.sig, v.msg)
		}
	})

	run.Rapid(t, "store-concurrent", ev.Pick(200, 8000), func(rt *rapid.T) {
		g := rapid.SampledFrom([]int{2, 4, 8, 16}).Draw(rt, "goroutines")
		c := &Case{Threads: make([][]Op, g)}
		for i := range c.Threads {
			for k := rapid.IntRange(1, 30).Draw(rt, "n"); k > 0; k-- {
				o := genOp(rt)
				o.ID = uint16(rapid.IntRange(0, 49).Draw(rt, "cid"))
				c.Threads[i] = append(c.Threads[i], o)
			}
		}
		run.Eval(1)
		run.Class(fmt.Sprintf("store-concurrent:g=%d", g))
		if v := runConcurrentStore(c); v != nil {
			run.Candidate(v.sig, v.msg, c)
			rt.Fatalf("%s: %s", v.sig, v.msg)
		}
	})

	// PacketStore constructed from a packet list behaves like saving each
	{
		run.Eval(1)
		p1, p2, p3 := mkPacket(int(packet.PUBLISH), 1), mkPacket(int(packet.PUBREL), 1), mkPacket(int(packet.PINGREQ), 0)
		st := session.NewPacketStoreWithPackets([]packet.Generic{p1, p3, p2})
		if st.Lookup(1) != p2 || len(st.All()) != 1 {
			run.Violation("store/with-packets", "NewPacketStoreWithPackets does not behave like consecutive saves", nil)
		}
	}
}

func TestReplay(t *testing.T) {
	var c Case
	ok, err := ev.ReplayCase(&c)
	if !ok {
		t.Skip("no VERIF_REPLAY")
	}
	if err != nil {
		t.Fatal(err)
	}
	var v *verdict
	switch {
	case c.Counter:
		if v = runCounter(c.Start); v == nil {
			v = runDistinct(c.Start)
		}
	case len(c.Threads) > 0:
		v = runConcurrentStore(&c)
	default:
		v = runStore(&c)
	}
	if v != nil {
		t.Fatalf("VIOLATION reproduced: %s: %s", v.sig, v.msg)
	}
	t.Log("case passes")
}
